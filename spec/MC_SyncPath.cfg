CONSTANTS G = {1, 2, 3}  NBuf = 2  K = 2  MaxEv = 2  CopyOut = TRUE
SPECIFICATION Spec
INVARIANTS PoolDiscipline NoAliasedReuse WholeLines OneLinePerEvent OverCapNotPooled
CHECK_DEADLOCK FALSE
