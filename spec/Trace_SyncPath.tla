-------------------------- MODULE Trace_SyncPath --------------------------
(***************************************************************************)
(* Direction B for C03: validates an execution recorded from the real      *)
(* library (ndjson, one event per line, totally ordered by a sequence      *)
(* number drawn inside the hooks) against the ownership discipline of      *)
(* SyncPath.tla.  Events:                                                  *)
(*   bufget  g b        a layout took buffer b                             *)
(*   bufput  g b arr    buffer b (backing array arr) is being pooled       *)
(*   evget / evput g e  an event object taken / pooled                     *)
(*   evuse   g e        an appender is handed event object e               *)
(*   sinkstart g arr / sinkend g    a sink Write call on bytes in arr      *)
(* Invariants (the trace forms of PoolDiscipline / NoAliasedReuse):        *)
(*   no buffer or event is taken while somebody holds it, and a buffer     *)
(*   comes out of the pool empty (whatever happened to its last user) and  *)
(*   goes back once per take;                                              *)
(*   no sink write starts on, or is in flight on, the backing array of a   *)
(*   buffer that is pooled or held by another goroutine;                   *)
(*   no appender is handed an event object that is pooled.                 *)
(* The step relation itself never blocks on a bad event - the invariants   *)
(* name the violation - so "all lines consumed" means the trace was read   *)
(* to the end.                                                             *)
(***************************************************************************)
EXTENDS Naturals, Sequences, FiniteSets, TLC, Json, IOUtils

Trace == ndJsonDeserialize(IOEnv.VERIF_TRACE)

VARIABLES l,         \* next line
          holder,    \* buffer -> goroutine holding it (0 = pooled / unknown)
          arrOf,     \* buffer -> backing array at its last bufput
          evHolder,  \* event object -> goroutine holding it (0 = pooled)
          inflight,  \* goroutine -> array a sink write is reading (0 = none)
          bad        \* name of the first violated rule ("" = none)
vars == <<l, holder, arrOf, evHolder, inflight, bad>>

Get(f, k) == IF k \in DOMAIN f THEN f[k] ELSE 0
Set(f, k, v) == [x \in DOMAIN f \cup {k} |-> IF x = k THEN v ELSE f[x]]

Init == l = 1 /\ holder = <<>> /\ arrOf = <<>> /\ evHolder = <<>> /\ inflight = <<>> /\ bad = ""

E == Trace[l]
Flag(cond, name) == bad' = IF bad = "" /\ cond THEN name ELSE bad

\* arrays of buffers that are pooled, or held by somebody other than g
Foreign(g) == { arrOf[b] : b \in { x \in DOMAIN arrOf : Get(holder, x) # g } }

BufGet == /\ E.ev = "bufget"
          /\ Flag(Get(holder, E.b) # 0 \/ ("len" \in DOMAIN E /\ E.len > 0),
                  IF Get(holder, E.b) # 0 THEN "buffer taken while held" ELSE "buffer comes out of the pool with content")
          /\ holder' = Set(holder, E.b, E.g)
          /\ UNCHANGED <<arrOf, evHolder, inflight>>
BufPut == /\ E.ev = "bufput"
          /\ Flag((\E g \in DOMAIN inflight : inflight[g] = E.arr /\ inflight[g] # 0) \/ (E.b \in DOMAIN holder /\ holder[E.b] = 0),
                  IF E.b \in DOMAIN holder /\ holder[E.b] = 0 THEN "buffer pooled twice" ELSE "buffer pooled while a sink write reads it")
          /\ holder' = Set(holder, E.b, 0) /\ arrOf' = Set(arrOf, E.b, E.arr)
          /\ UNCHANGED <<evHolder, inflight>>
EvGet == /\ E.ev = "evget"
         /\ Flag(Get(evHolder, E.e) # 0, "event taken while held")
         /\ evHolder' = Set(evHolder, E.e, E.g) /\ UNCHANGED <<holder, arrOf, inflight>>
EvPut == /\ E.ev = "evput"
         /\ evHolder' = Set(evHolder, E.e, 0) /\ bad' = bad /\ UNCHANGED <<holder, arrOf, inflight>>
EvUse == /\ E.ev = "evuse"
         /\ Flag(E.e \in DOMAIN evHolder /\ evHolder[E.e] = 0, "appender handed a pooled event")
         /\ UNCHANGED <<holder, arrOf, evHolder, inflight>>
SinkStart == /\ E.ev = "sinkstart"
             /\ Flag(E.arr \in Foreign(E.g), "sink write on the array of a pooled or foreign buffer")
             /\ inflight' = Set(inflight, E.g, E.arr) /\ UNCHANGED <<holder, arrOf, evHolder>>
SinkEnd == /\ E.ev = "sinkend"
           /\ inflight' = Set(inflight, E.g, 0) /\ bad' = bad /\ UNCHANGED <<holder, arrOf, evHolder>>

Next == /\ l <= Len(Trace) /\ l' = l + 1
        /\ (BufGet \/ BufPut \/ EvGet \/ EvPut \/ EvUse \/ SinkStart \/ SinkEnd)
Spec == Init /\ [][Next]_vars

Report == (bad # "") => PrintT(<<"EMIT", ToJson([line |-> l - 1, rule |-> bad, event |-> Trace[l - 1]])>>)
Conforms == bad = ""
=============================================================================
