CONSTANTS G = {1, 2}  MaxCalls = 2  WriteThrough = TRUE  D = {1, 2}  Offsets = "private"  PoisonEvery = 0
SPECIFICATION Spec
INVARIANTS AckedSurvive
CHECK_DEADLOCK FALSE
