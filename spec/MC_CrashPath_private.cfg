CONSTANTS G = {1, 2}  MaxCalls = 2  WriteThrough = TRUE  D = {1, 2}  Offsets = "private"
SPECIFICATION Spec
INVARIANTS AckedSurvive
CHECK_DEADLOCK FALSE
