CONSTANTS MaxLen = 4  LongLeads = FALSE
SPECIFICATION Spec
INVARIANTS TypeOK Total Deterministic NoRawControl WireIsUTF8 Partition OneFFFDPerInvalidByte EmitCase
CHECK_DEADLOCK FALSE
