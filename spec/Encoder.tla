------------------------------ MODULE Encoder ------------------------------
(***************************************************************************)
(* C07 / C08 - the Encoder protocol of go-spring/log and its two           *)
(* implementations, as token machines.                                     *)
(*                                                                         *)
(* A field list is a well-nested stream of encoder calls:                  *)
(*   Key           AppendKey                                               *)
(*   Val(kind)     AppendBool/Int64/Uint64/Float64/String/Reflect          *)
(*                 kind: "num"  (bool, integers, finite floats: bare)      *)
(*                       "str"  (strings: quoted in JSON, bare in text)    *)
(*                       "nonfin" (NaN, +Inf, -Inf: a JSON string)         *)
(*                       "refl" (reflected value: compact JSON, opaque)    *)
(*                       "reflstr" (unmarshallable value: its error text)  *)
(*   AB AE OB OE   AppendArrayBegin/End, AppendObjectBegin/End             *)
(* TLC grows every call stream up to MaxCalls calls / MaxDepth nesting and *)
(* runs both machines one action per call, the way the code does:          *)
(*   JSON machine: state `jlast`; a comma precedes a token iff the last    *)
(*                 token was a value or a closing bracket;                 *)
(*   Text machine: state `tdepth`, `thas`; at depth 0 "key=" and bare      *)
(*                 values joined by the separator, deeper an embedded JSON *)
(*                 machine that is reset when the depth returns to 0.      *)
(* Checked on every complete stream: the JSON output is well-formed (an    *)
(* independent recogniser written from RFC 8259), and the text output is   *)
(* exactly the JSON output's top-level members rewritten key=value with    *)
(* string-like values unquoted (C08's "identical tokens" clause).          *)
(***************************************************************************)
EXTENDS Naturals, Sequences, FiniteSets, SequencesExt, TLC, Json

CONSTANTS MaxCalls, MaxDepth

Kinds    == {"num", "str", "nonfin", "refl", "reflstr"}
Quoted   == {"str", "nonfin", "reflstr"}        \* JSON strings; the text layout drops their quotes

VARIABLES calls,    \* the call stream so far
          stack,    \* open containers, innermost last: "A" | "O"
          needVal,  \* a Key was appended and its value is due
          jlast, jout,                  \* JSON machine
          tdepth, thas, tjlast, tout    \* text machine (with its embedded JSON machine)
vars == <<calls, stack, needVal, jlast, jout, tdepth, thas, tjlast, tout>>

Depth == Len(stack)
InArray  == Depth > 0 /\ stack[Depth] = "A"
InObject == Depth > 0 /\ stack[Depth] = "O"

(****************************** JSON machine *******************************)
NeedsComma(last) == last \in {"OE", "AE", "Val"}
JTok(last, tok) == IF NeedsComma(last) THEN <<",", tok>> ELSE <<tok>>

\* one call through the JSON encoder: new `last` and emitted tokens
JStep(last, call) ==
  CASE call.c = "Key" -> [last |-> "Key", out |-> JTok(last, "k")]
    [] call.c = "Val" -> [last |-> "Val", out |-> JTok(last, call.k)]
    [] call.c = "OB"  -> [last |-> "OB",  out |-> JTok(last, "{")]
    [] call.c = "AB"  -> [last |-> "AB",  out |-> JTok(last, "[")]
    [] call.c = "OE"  -> [last |-> "OE",  out |-> <<"}">>]
    [] OTHER          -> [last |-> "AE",  out |-> <<"]">>]          \* "AE"

(****************************** text machine *******************************)
Bare(k) == IF k \in Quoted THEN "bare-" \o k ELSE k
TStep(call) ==
  IF tdepth > 0 \/ call.c \in {"OB", "AB"}
  THEN \* nested: delegate to the embedded JSON machine
       LET d1 == IF call.c \in {"OB", "AB"} THEN tdepth + 1
                 ELSE IF call.c \in {"OE", "AE"} THEN tdepth - 1 ELSE tdepth
           js == JStep(tjlast, call)
       IN [depth |-> d1, has |-> thas, jl |-> IF d1 = 0 THEN "Unknown" ELSE js.last, out |-> js.out]
  ELSE IF call.c = "Key"
       THEN [depth |-> 0, has |-> TRUE, jl |-> tjlast, out |-> IF thas THEN <<"||", "k=">> ELSE <<"k=">>]
       ELSE [depth |-> 0, has |-> thas, jl |-> tjlast, out |-> <<Bare(call.k)>>]          \* a top-level value

Do(call) ==
  /\ Len(calls) < MaxCalls
  /\ calls' = Append(calls, call)
  /\ LET js == JStep(jlast, call) ts == TStep(call) IN
       /\ jlast' = js.last /\ jout' = jout \o js.out
       /\ tdepth' = ts.depth /\ thas' = ts.has /\ tjlast' = ts.jl /\ tout' = tout \o ts.out

(***************************** the call grammar ****************************)
\* at depth 0 and inside objects members are keyed; inside arrays they are not
Key == /\ ~needVal /\ (Depth = 0 \/ InObject)
       /\ Do([c |-> "Key"]) /\ needVal' = TRUE /\ UNCHANGED stack
ValueAllowed == needVal \/ InArray
Val(k) == /\ ValueAllowed /\ Do([c |-> "Val", k |-> k]) /\ needVal' = FALSE /\ UNCHANGED stack
Open(b) == /\ ValueAllowed /\ Depth < MaxDepth
           /\ Do([c |-> IF b = "A" THEN "AB" ELSE "OB"]) /\ needVal' = FALSE /\ stack' = Append(stack, b)
Close == /\ Depth > 0 /\ ~needVal
         /\ Do([c |-> IF stack[Depth] = "A" THEN "AE" ELSE "OE"]) /\ needVal' = FALSE /\ stack' = Front(stack)

Init == /\ calls = <<>> /\ stack = <<>> /\ needVal = FALSE
        /\ jlast = "OB" /\ jout = <<"{">>          \* AppendEncoderBegin of the JSON encoder
        /\ tdepth = 0 /\ thas = FALSE /\ tjlast = "Unknown" /\ tout = <<>>
Next == Key \/ (\E k \in Kinds : Val(k)) \/ (\E b \in {"A", "O"} : Open(b)) \/ Close
Spec == Init /\ [][Next]_vars

Complete == Depth = 0 /\ ~needVal

(********************* independent JSON recogniser *************************)
\* ParseValue(t, i): index after the value starting at t[i], or 0
RECURSIVE ParseValue(_, _), ParseMembers(_, _), ParseElements(_, _)
ParseValue(t, i) ==
  IF i > Len(t) THEN 0
  ELSE IF t[i] \in Kinds THEN i + 1
  ELSE IF t[i] = "{" THEN (IF i + 1 <= Len(t) /\ t[i+1] = "}" THEN i + 2 ELSE ParseMembers(t, i + 1))
  ELSE IF t[i] = "[" THEN (IF i + 1 <= Len(t) /\ t[i+1] = "]" THEN i + 2 ELSE ParseElements(t, i + 1))
  ELSE 0
ParseMembers(t, i) ==          \* k value ("," k value)* "}"
  IF i > Len(t) \/ t[i] # "k" THEN 0
  ELSE LET j == ParseValue(t, i + 1) IN
       IF j = 0 \/ j > Len(t) THEN 0
       ELSE IF t[j] = "}" THEN j + 1
       ELSE IF t[j] = "," THEN ParseMembers(t, j + 1) ELSE 0
ParseElements(t, i) ==         \* value ("," value)* "]"
  LET j == ParseValue(t, i) IN
  IF j = 0 \/ j > Len(t) THEN 0
  ELSE IF t[j] = "]" THEN j + 1
  ELSE IF t[j] = "," THEN ParseElements(t, j + 1) ELSE 0

JsonLine == jout \o <<"}">>                         \* AppendEncoderEnd
WellFormedJSON == Complete => ParseValue(JsonLine, 1) = Len(JsonLine) + 1

(******** C08: the text line is the JSON line's members, rewritten *********)
\* Members of the top-level object: for each, its value's token range [from, to)
RECURSIVE Rewrite(_, _, _)
Rewrite(t, i, first) ==        \* i points at a "k" of the top-level object (or at the closing "}")
  IF t[i] = "}" THEN <<>>
  ELSE LET j == ParseValue(t, i + 1)
           v == SubSeq(t, i + 1, j - 1)
           val == IF Len(v) = 1 THEN <<Bare(v[1])>> ELSE v       \* scalars lose their quotes, containers stay JSON
           sep == IF first THEN <<>> ELSE <<"||">>
       IN sep \o <<"k=">> \o val \o Rewrite(t, IF t[j] = "," THEN j + 1 ELSE j, FALSE)
TextIsRewrittenJSON == Complete => tout = Rewrite(JsonLine, 2, TRUE)
\* no raw line break can come from structure: the separator and "=" are the only non-JSON tokens at depth 0
TextDepthSane == tdepth = Depth /\ (Depth = 0 => tjlast = "Unknown")

Emit == (Complete /\ Len(calls) > 0) =>
          PrintT(<<"EMIT", ToJson([calls |-> calls, json |-> JsonLine, text |-> tout])>>)

=============================================================================
