----------------------------- MODULE LogSystem -----------------------------
(***************************************************************************)
(* The life cycle of go-spring/log as one state machine:                   *)
(*   registries (tags, named handles) - Refresh / Destroy - routing of log *)
(*   calls and raw writes - context hooks and lazy generators.             *)
(*                                                                         *)
(* C16: logging never panics or blocks in any phase; with no live          *)
(*      configuration it goes to the built-in console logger; a second     *)
(*      Refresh is rejected and changes nothing; Destroy is idempotent;    *)
(*      registration is refused while live and possible again afterwards;  *)
(*      Destroy; Refresh(valid) routes as configured.                      *)
(* C10: hooks and lazy generators run exactly once iff the event is        *)
(*      emitted (enabled at the serving logger).                           *)
(* C12: a raw Write through a named handle reaches every appender of the   *)
(*      logger of that name, regardless of reference level ranges; the     *)
(*      same name yields the same handle; Refresh fails for a handle whose *)
(*      name is not configured.                                            *)
(*                                                                         *)
(* Two valid configurations are modelled:                                  *)
(*   A: logger "ha" (tags: T1), no root            -> sinks A.ha           *)
(*   B: logger "ha" (tags: T2's prefix wildcard), logger "hb" (tags: T1),  *)
(*      a configured root                          -> sinks B.ha B.hb B.root *)
(* Configured loggers accept level "hi" only, the built-in logger accepts  *)
(* both.  Each configured logger has two appender references, the second   *)
(* one with a level range that excludes everything logged here (so only    *)
(* raw writes reach it).                                                   *)
(*                                                                         *)
(* The history variable `hist` records every operation with the expected   *)
(* observation; complete histories are emitted for the replayer.  Where    *)
(* the property is silent (after a Refresh that failed late, until the     *)
(* next Destroy) the expected observation is "any": only "no panic, no     *)
(* block" is required there.                                               *)
(***************************************************************************)
EXTENDS Naturals, Sequences, FiniteSets, SequencesExt, TLC, Json

CONSTANTS MaxLen,     \* histories of exactly this length are emitted
          Ops         \* enabled operation names (one configuration per property family)

T1 == "T1"  T2 == "T2"  T3 == "T3"          \* T3 is registered later; T2, T3 share a prefix
H1 == "ha"  H2 == "hb"  HR == "root"
AllTags    == {T1, T2, T3}
AllHandles == {H1, H2, HR}
Levels     == {"lo", "hi"}
Hooks      == {"time", "str", "fields"}
Entries    == {"lazy", "plain"}              \* Trace/Debug take a generator, the others fields

\* which logger (sink prefix) serves a tag under a live configuration
\* (configuration "N" declares appenders only: no logger section at all, everything is served by the built-in root)
Serve(c, t) == CASE c = "A" /\ t = T1 -> "A.ha"
                 [] c = "A"           -> "console"
                 [] c = "N"           -> "console"
                 [] c = "B" /\ t = T1 -> "B.hb"
                 [] OTHER             -> "B.ha"       \* T2, T3 via the wildcard
\* which logger a handle name denotes under a live configuration ("" = not configured)
Named(c, h) == CASE c = "A" /\ h = H1 -> "A.ha"
                 [] c = "A" /\ h = HR -> "console"
                 [] c = "A"           -> ""
                 [] c = "N" /\ h = HR -> "console"
                 [] c = "N"           -> ""
                 [] c = "B" /\ h = H1 -> "B.ha"
                 [] c = "B" /\ h = H2 -> "B.hb"
                 [] OTHER             -> "B.root"
Accepts(lg, L) == IF lg = "console" THEN TRUE ELSE L = "hi"

VARIABLES phase,     \* "fresh" | "live" | "failedLate" | "destroyed"
          cfg,       \* "A" | "B" | "-"  (meaningful when live)
          tags,      \* registered tags
          handles,   \* obtained handles
          hooks,     \* hooks currently installed
          props,     \* which configuration's global properties (bufferCap, enableCaller) are in force:
                     \* "-" (defaults) | "A" | "B"; they are process-wide and survive Destroy
          hist       \* sequence of [op, arg, exp]
vars == <<phase, cfg, tags, handles, hooks, props, hist>>

NoCfg == phase \in {"fresh", "destroyed"}

Rec(op, arg, exp) == hist' = Append(hist, [op |-> op, arg |-> arg, exp |-> exp, ph |-> phase, cfg |-> cfg, props |-> props])

(******************************** Refresh **********************************)
HandlesKnown(c) == \A h \in handles : Named(c, h) # ""

RefreshValid(c) ==
  /\ "Refresh" \o c \in Ops
  /\ CASE phase = "live" ->
            /\ Rec("Refresh", c, "err") /\ UNCHANGED <<phase, cfg, tags, handles, hooks, props>>
       [] phase = "failedLate" ->                      \* silent: accepted or rejected
            /\ Rec("Refresh", c, "any") /\ props' = "?" /\ UNCHANGED <<phase, cfg, tags, handles, hooks>>
       [] NoCfg /\ HandlesKnown(c) ->
            /\ phase' = "live" /\ cfg' = c /\ props' = (IF c = "N" THEN props ELSE c)
            /\ Rec("Refresh", c, "ok") /\ UNCHANGED <<tags, handles, hooks>>
       [] OTHER ->                                     \* a requested handle name is not configured
            /\ phase' = "failedLate" /\ cfg' = "-" /\ props' = "?"     \* fails before or after injection: silent
            /\ Rec("Refresh", c, "err") /\ UNCHANGED <<tags, handles, hooks>>

RefreshBadEarly ==       \* rejected before anything is touched (unparsable map, no appender section)
  /\ "RefreshBadEarly" \in Ops
  /\ Rec("Refresh", "badEarly", "err")
  /\ UNCHANGED <<phase, cfg, tags, handles, hooks, props>>

RefreshBadLate ==        \* unknown plugin type, start failure, bad property value
  /\ "RefreshBadLate" \in Ops
  /\ Rec("Refresh", "badLate", "err")
  /\ IF NoCfg THEN phase' = "failedLate" /\ cfg' = "-" /\ props' = "?" ELSE UNCHANGED <<phase, cfg, props>>
  /\ UNCHANGED <<tags, handles, hooks>>

Destroy ==
  /\ "Destroy" \in Ops
  /\ Rec("Destroy", "", "ok")
  /\ IF phase \in {"live", "failedLate"} THEN phase' = "destroyed" /\ cfg' = "-"
     ELSE UNCHANGED <<phase, cfg>>
  /\ UNCHANGED <<tags, handles, hooks, props>>

(******************************** logging **********************************)
\* destination of an event: a sink prefix, "none" (level disabled) or "any" (property silent)
EventDest(t, L) ==
  CASE phase = "failedLate" -> "any"
    [] NoCfg -> "console"
    [] OTHER -> IF Accepts(Serve(cfg, t), L) THEN Serve(cfg, t) ELSE "none"

Emitted(t, L) == EventDest(t, L) \notin {"none", "any"}

Log(e, t, L) ==
  /\ "Log" \in Ops /\ t \in tags
  /\ Rec("Log", <<e, t, L>>,
         [dest  |-> EventDest(t, L),
          \* C10: each installed hook exactly once iff emitted; generator once iff emitted
          hookCalls |-> IF EventDest(t, L) = "any" THEN "any"
                        ELSE IF Emitted(t, L) THEN "once" ELSE "never",
          lazyCalls |-> IF e # "lazy" THEN "n/a"
                        ELSE IF EventDest(t, L) = "any" THEN "any"
                        ELSE IF Emitted(t, L) THEN "once" ELSE "never",
          hooks |-> hooks])
  /\ UNCHANGED <<phase, cfg, tags, handles, hooks, props>>

WriteDest(h) ==
  CASE phase = "failedLate" -> "any"
    [] NoCfg -> "console"
    [] OTHER -> Named(cfg, h)

Write(h) ==
  /\ "Write" \in Ops /\ h \in handles
  /\ Rec("Write", h, [dest |-> WriteDest(h)])       \* every appender of that logger, full length
  /\ UNCHANGED <<phase, cfg, tags, handles, hooks, props>>

(****************************** registration *******************************)
Register(op, x) == CASE phase = "live" -> Rec(op, x, "panic")
                     [] phase = "failedLate" -> Rec(op, x, "any")
                     [] OTHER -> Rec(op, x, "ok")

RegisterTag(t) ==
  /\ "RegisterTag" \in Ops
  /\ Register("RegisterTag", t)
  /\ tags' = IF NoCfg THEN tags \cup {t} ELSE tags
  /\ UNCHANGED <<phase, cfg, handles, hooks, props>>

GetHandle(h) ==
  /\ "GetHandle" \in Ops
  /\ Register("GetHandle", h)
  /\ handles' = IF NoCfg THEN handles \cup {h} ELSE handles
  /\ UNCHANGED <<phase, cfg, tags, hooks, props>>

SetHooks(S) ==
  /\ "SetHooks" \in Ops /\ S # hooks
  /\ Rec("SetHooks", S, "ok") /\ hooks' = S
  /\ UNCHANGED <<phase, cfg, tags, handles, props>>

(********************************* spec ************************************)
Init == /\ phase = "fresh" /\ cfg = "-" /\ tags = {T1, T2} /\ handles = {H1}
        /\ hooks = {} /\ props = "-" /\ hist = <<>>

Next == /\ Len(hist) < MaxLen
        /\ \/ \E c \in {"A", "B", "N"} : RefreshValid(c)
           \/ RefreshBadEarly \/ RefreshBadLate \/ Destroy
           \/ \E e \in Entries, t \in AllTags, L \in Levels :
                 (e = "plain" \/ "LazyLog" \in Ops) /\ Log(e, t, L)
           \/ \E h \in AllHandles : Write(h)
           \/ RegisterTag(T3)
           \/ \E h \in {H2, HR} : GetHandle(h)
           \/ \E S \in SUBSET Hooks : SetHooks(S)
Spec == Init /\ [][Next]_vars

(******************************* properties ********************************)
TypeOK == /\ phase \in {"fresh", "live", "failedLate", "destroyed"}
          /\ cfg \in {"A", "B", "N", "-"} /\ (phase = "live") = (cfg # "-")
          /\ tags \subseteq AllTags /\ handles \subseteq AllHandles

\* C16 as action properties over the model itself
SecondRefreshRejected ==
  [][ (phase = "live" /\ hist' # hist /\ hist'[Len(hist')].op = "Refresh")
        => (hist'[Len(hist')].exp = "err" /\ phase' = "live" /\ cfg' = cfg /\ props' = props) ]_vars
DestroyIdempotent ==
  [][ (phase = "destroyed" /\ hist' # hist /\ hist'[Len(hist')].op = "Destroy")
        => UNCHANGED <<phase, cfg, tags, handles, props>> ]_vars
RegistrationOnlyWithoutLiveCfg ==
  [][ (tags' # tags \/ handles' # handles) => NoCfg ]_vars
LiveHandlesAreConfigured == phase = "live" => \A h \in handles : Named(cfg, h) # ""
\* with no live configuration every event and raw write goes to the console
NoCfgMeansConsole ==
  \A i \in 1..Len(hist) :
     (hist[i].op \in {"Log", "Write"} /\ hist[i].ph \in {"fresh", "destroyed"})
        => hist[i].exp.dest = "console"
\* a live configuration routes as configured, also after Destroy; Refresh
RoutesAsConfigured ==
  \A i \in 1..Len(hist) :
     (hist[i].op = "Write" /\ hist[i].ph = "live") => hist[i].exp.dest = Named(hist[i].cfg, hist[i].arg)
\* C10: hooks are called iff the event has a destination
HooksIffEmitted ==
  \A i \in 1..Len(hist) : hist[i].op = "Log" =>
     LET x == hist[i].exp IN
       /\ (x.dest = "none") = (x.hookCalls = "never")
       /\ (x.dest \notin {"none", "any"}) = (x.hookCalls = "once")
       /\ (x.lazyCalls = "once") => (x.hookCalls = "once")

Emit == (Len(hist) = MaxLen) => PrintT(<<"EMIT", ToJson([h |-> hist])>>)
=============================================================================
