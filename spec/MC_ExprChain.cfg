CONSTANTS MaxTokens = 200  MaxNest = 8  OnlyValid = FALSE  Small = FALSE  MaxD = 7  MaxS = 4
SPECIFICATION CSpec
INVARIANTS AllAccepted Emit
CHECK_DEADLOCK FALSE
