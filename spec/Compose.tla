------------------------------ MODULE Compose ------------------------------
(***************************************************************************)
(* Consistency of the modules with each other: the routing and level       *)
(* tables that LogSystem.tla hard-codes for its two configurations are the *)
(* ones Routing.tla and Levels.tla derive for those configurations.        *)
(*   A: logger ha lists aa_* (so T1 = aa_x is served through a wildcard);  *)
(*      no root                                                            *)
(*   B: logger ha lists bb_* and still aa_*, logger hb lists T1 literally  *)
(*      (the more specific match wins), a root is configured               *)
(* with the tags T1 = aa_x, T2 = bb_y, T3 = bb_z.  Each configured logger  *)
(* has two references: one without level, one with lower bound TOP.        *)
(***************************************************************************)
EXTENDS Integers, Sequences, FiniteSets, TLC

VARIABLE dummy

T1 == [lead |-> FALSE, segs |-> <<"aa", "x">>]
T2 == [lead |-> FALSE, segs |-> <<"bb", "y">>]
T3 == [lead |-> FALSE, segs |-> <<"bb", "z">>]
LitP(t) == [kind |-> "lit", lead |-> t.lead, segs |-> t.segs]
WildBB == [kind |-> "wild", lead |-> FALSE, segs |-> <<"bb">>]
WildAA == [kind |-> "wild", lead |-> FALSE, segs |-> <<"aa">>]

RA == INSTANCE Routing WITH Alpha <- {"aa", "bb", "x", "y", "z"}, MaxSeg <- 2, MaxLoggers <- 2, MaxPats <- 3,
                            pats <- [l \in 1..2 |-> IF l = 1 THEN {WildAA} ELSE {}], root <- "none", empties <- {}
RB == INSTANCE Routing WITH Alpha <- {"aa", "bb", "x", "y", "z"}, MaxSeg <- 2, MaxLoggers <- 2, MaxPats <- 3,
                            pats <- [l \in 1..2 |-> IF l = 1 THEN {WildBB, WildAA} ELSE {LitP(T1)}], root <- "plain", empties <- {}

LS == INSTANCE LogSystem WITH MaxLen <- 0, Ops <- {}, phase <- "fresh", cfg <- "-", tags <- {}, handles <- {},
                              hooks <- {}, props <- "-", hist <- <<>>

NameA(i) == IF i = 1 THEN "A.ha" ELSE "console"
NameB(i) == CASE i = 1 -> "B.ha" [] i = 2 -> "B.hb" [] OTHER -> "B.root"

RoutingAgrees ==
  /\ RA!RefreshOK /\ RB!RefreshOK
  /\ LS!Serve("A", "T1") = NameA(RA!Serve(T1)) /\ LS!Serve("A", "T2") = NameA(RA!Serve(T2))
  /\ LS!Serve("A", "T3") = NameA(RA!Serve(T3))
  /\ LS!Serve("B", "T1") = NameB(RB!Serve(T1)) /\ LS!Serve("B", "T2") = NameB(RB!Serve(T2))
  /\ LS!Serve("B", "T3") = NameB(RB!Serve(T3))
  /\ RA!Lookup(RA!Name(T2.lead, T2.segs)) = 0 /\ RB!Lookup(RB!Name(T3.lead, T3.segs)) = 1

\* levels: lattice 0 = lo, 1 = hi (the logger's lower bound), 2 = TOP, 3 = MAX; references <<none, TOP..>>
Refs == <<[min |-> 0, max |-> -1], [min |-> 2, max |-> -1]>>
LV == INSTANCE Levels WITH Top <- 3, MaxRefs <- 2, WarnPt <- 1, EmitRefs <- 0, kind <- "sync", lr <- [min |-> 1, max |-> 3],
                           refs <- Refs, next <- 0, delivered <- <<>>
LevelsAgree ==
  /\ LV!Receivers("sync", [min |-> 1, max |-> 3], Refs, 1) = {1}     \* "hi" reaches the first reference only
  /\ LV!Receivers("sync", [min |-> 1, max |-> 3], Refs, 0) = {}      \* "lo" is below the logger's range
  /\ LV!EffMax(Refs, 1) = 2                                          \* the first reference ends where TOP begins

Init == dummy = 0
Next == dummy' = dummy
Spec == Init /\ [][Next]_dummy
=============================================================================
