------------------------------- MODULE Levels -------------------------------
(***************************************************************************)
(* C01 - level filtering on the whole path logger -> appender reference.   *)
(*                                                                         *)
(* Levels are the points 0..Top of a finite lattice; Top stands for MAX    *)
(* (an upper bound only: no range contains it).  A range is half-open      *)
(* [min,max).  A logger has a kind, its own range and - for the kinds that *)
(* take references - 1..MaxRefs appender references in declaration order,  *)
(* each with a lower bound and an optional explicit upper bound (None).    *)
(*                                                                         *)
(* EffMax is the statement of the property: an explicit upper bound is     *)
(* kept; otherwise the reference ends at the next-higher lower bound among *)
(* the same logger's references (equal lower bounds do not clip each       *)
(* other), or at MAX.  ChainOp is the operational algorithm: stable sort   *)
(* by lower bound, then for each reference without explicit bound scan     *)
(* forward to the first strictly higher lower bound.  TLC checks           *)
(* ChainOp = EffMax on every reference list and the delivery law on every  *)
(* (logger range, level); it emits the cases the replayer runs through     *)
(* Refresh and the 15 entry points.                                        *)
(***************************************************************************)
EXTENDS Integers, Sequences, FiniteSets, SequencesExt, FiniteSetsExt, TLC, Json

CONSTANTS Top,        \* lattice 0..Top, Top = MAX
          MaxRefs,    \* references per logger
          WarnPt,     \* the lattice point standing for WARN (rolling-file "separate" split)
          EmitRefs    \* emit reference lists up to this length for every logger range,
                      \* longer ones only with the full logger range

None  == -1
Lv    == 0..Top
LRange == { r \in [min : 0..(Top-1), max : 1..Top] : r.min < r.max }
Full  == [min |-> 0, max |-> Top]
\* An explicit "~MAX" on a reference cannot be told from no upper bound by an implementation that
\* stores a range as two codes, and the property does not say which applies: it is not generated.
RefT  == { r \in [min : 0..(Top-1), max : {None} \cup 1..(Top-1)] : r.max = None \/ r.min < r.max }

In(L, r) == r.min <= L /\ L < r.max

(******************** the statement: effective upper bound *****************)
EffMax(refs, i) ==
  IF refs[i].max # None THEN refs[i].max
  ELSE LET hs == { refs[j].min : j \in DOMAIN refs } \cap { x \in Lv : x > refs[i].min }
       IN IF hs = {} THEN Top ELSE Min(hs)
Eff(refs, i) == [min |-> refs[i].min, max |-> EffMax(refs, i)]

(************************* the operational algorithm ***********************)
\* stable sort of the indices by lower bound
Before(refs, i, j) == refs[i].min < refs[j].min \/ (refs[i].min = refs[j].min /\ i < j)
Sorted(refs) == SetToSortSeq(DOMAIN refs, LAMBDA i, j : Before(refs, i, j))
\* position k of the sorted order: scan forward for the first strictly higher lower bound
ScanMax(refs, ord, k) ==
  LET later == { m \in (k+1)..Len(ord) : refs[ord[m]].min > refs[ord[k]].min }
  IN IF later = {} THEN Top ELSE refs[ord[Min(later)]].min
ChainOp(refs) ==
  LET ord == Sorted(refs) IN
  [i \in DOMAIN refs |->
     LET k == CHOOSE k \in 1..Len(ord) : ord[k] = i IN
     IF refs[i].max # None THEN refs[i].max ELSE ScanMax(refs, ord, k)]

\* the algorithm of the pinned tree (adjacent neighbour only): kept to document the defect TLC
\* finds with equal lower bounds; not used by any checked property.
ChainAsBuilt(refs) ==
  LET ord == Sorted(refs) IN
  [i \in DOMAIN refs |->
     LET k == CHOOSE k \in 1..Len(ord) : ord[k] = i IN
     IF refs[i].max # None THEN refs[i].max
     ELSE IF k = Len(ord) THEN Top ELSE refs[ord[k+1]].min]

(********************************* loggers *********************************)
RefKinds  == {"sync", "async", "syncLayout", "asyncLayout"}
RollKinds == {"roll", "rollSep", "rollAsync", "rollAsyncSep"}
SelfKinds == {"console", "file"}      \* logger types that are their own single appender

\* effective ranges of the appenders of a logger, by kind
Appenders(kind, lr, refs) ==
  CASE kind \in RefKinds  -> [i \in DOMAIN refs |-> Eff(refs, i)]
    [] kind \in {"roll", "rollAsync"} -> <<[min |-> lr.min, max |-> Top]>>
    [] kind \in {"rollSep", "rollAsyncSep"} ->
         << [min |-> lr.min, max |-> WarnPt], [min |-> WarnPt, max |-> lr.max] >>
    [] OTHER -> <<[min |-> 0, max |-> Top]>>

Receivers(kind, lr, refs, L) ==
  IF In(L, lr) THEN { a \in DOMAIN Appenders(kind, lr, refs) : In(L, Appenders(kind, lr, refs)[a]) }
  ELSE {}

VARIABLES kind, lr, refs, next, delivered
vars == <<kind, lr, refs, next, delivered>>

RefLists == UNION { [1..n -> RefT] : n \in 1..MaxRefs }

Init == /\ \/ kind = "sync" /\ refs \in RefLists
           \/ kind \in (RollKinds \cup SelfKinds) /\ refs = <<>>
        /\ lr \in LRange
        /\ next = 0
        /\ delivered = [a \in DOMAIN Appenders(kind, lr, refs) |-> <<>>]

\* one event per level, in increasing order (the order is irrelevant; it keeps the graph linear)
Log == /\ next <= Top
       /\ delivered' = [a \in DOMAIN delivered |->
                          IF a \in Receivers(kind, lr, refs, next)
                          THEN Append(delivered[a], next) ELSE delivered[a]]
       /\ next' = next + 1
       /\ UNCHANGED <<kind, lr, refs>>
Next == Log
Spec == Init /\ [][Next]_vars

(******************************** properties *******************************)
ChainIsStatement == kind \in RefKinds => \A i \in DOMAIN refs : ChainOp(refs)[i] = EffMax(refs, i)
EqualBoundsShare == kind \in RefKinds =>
   \A i, j \in DOMAIN refs : (refs[i].min = refs[j].min /\ refs[i].max = None /\ refs[j].max = None)
                                => EffMax(refs, i) = EffMax(refs, j)
NothingAtMax == \A a \in DOMAIN delivered : ~Contains(delivered[a], Top)
\* action property: a Log step grows each appender's list by exactly the event iff enabled on the whole path
DeliveredExactly ==
  [][ \A a \in DOMAIN delivered :
        IF In(next, lr) /\ In(next, Appenders(kind, lr, refs)[a])
        THEN delivered'[a] = Append(delivered[a], next)
        ELSE delivered'[a] = delivered[a] ]_vars
ExactlyOnce == \A a \in DOMAIN delivered : \A x, y \in DOMAIN delivered[a] :
                  delivered[a][x] = delivered[a][y] => x = y

EmitThis == next = Top + 1 /\ (Len(refs) <= EmitRefs \/ lr = Full)
Emit == EmitThis => PrintT(<<"EMIT", ToJson([
           kind |-> kind, lr |-> lr, refs |-> refs,
           eff |-> Appenders(kind, lr, refs),
           delivered |-> delivered])>>)
=============================================================================
