------------------------------ MODULE TagLang ------------------------------
(***************************************************************************)
(* C18 - the language of tag names of go-spring/log.                       *)
(*                                                                         *)
(* Strings are sequences over five character classes:                      *)
(*   "l" lower-case letter   "d" digit   "u" underscore                    *)
(*   "U" upper-case letter   "o" any other byte                            *)
(* Valid(s) is the declarative definition taken from the documentation;    *)
(* Dfa is a one-pass automaton with counters (the shape an implementation  *)
(* has).  TLC checks Dfa = Valid on every string up to MaxLen and on the   *)
(* length/segment compositions in Comp, and emits every (string, verdict)  *)
(* pair so that the replayer can drive RegisterTag with concretisations.   *)
(***************************************************************************)
EXTENDS Naturals, Sequences, FiniteSets, SequencesExt, TLC, Json

CONSTANTS MaxLen,                  \* strings over Sym are enumerated up to this length
          MinTag, MaxTag, MaxSegs  \* 3, 36, 4 in go-spring/log

Sym   == {"l", "d", "u", "U", "o"}
Legal == {"l", "d", "u"}

(************************* declarative definition **************************)
Body(s) == IF Len(s) > 0 /\ s[1] = "u" THEN Tail(s) ELSE s

Valid(s) ==
  /\ Len(s) >= MinTag /\ Len(s) <= MaxTag
  /\ \A i \in 1..Len(s) : s[i] \in Legal
  /\ LET t == Body(s) IN
       /\ Len(t) > 0
       /\ t[1] # "u" /\ t[Len(t)] # "u"                      \* at most one leading, no trailing
       /\ \A i \in 1..(Len(t)-1) : ~(t[i] = "u" /\ t[i+1] = "u")   \* no doubled underscore
       /\ Cardinality({i \in 1..Len(t) : t[i] = "u"}) + 1 <= MaxSegs

(****************************** the automaton ******************************)
\* state: bad  - an illegal character or an empty segment was seen
\*        n    - characters consumed
\*        segs - segments started so far
\*        open - the current segment has at least one character
Q0 == [bad |-> FALSE, n |-> 0, segs |-> 0, open |-> FALSE]

Step(q, c) ==
  LET q1 == [q EXCEPT !.n = q.n + 1] IN
  CASE c \notin Legal -> [q1 EXCEPT !.bad = TRUE]
    [] c = "u" /\ q.n = 0 -> q1                               \* the single optional leading one
    [] c = "u" /\ ~q.open -> [q1 EXCEPT !.bad = TRUE]         \* "__", or "_" right after the leading one
    [] c = "u" -> [q1 EXCEPT !.open = FALSE]
    [] OTHER -> IF q.open THEN q1
                ELSE [q1 EXCEPT !.open = TRUE, !.segs = q.segs + 1]

Accept(q) == /\ ~q.bad /\ q.open /\ q.n >= MinTag /\ q.n <= MaxTag /\ q.segs <= MaxSegs

Dfa(s) == Accept(FoldLeft(Step, Q0, s))

(************ compositions: long strings given by run lengths **************)
Rep(c, n) == [i \in 1..n |-> c]
\* `lead` underscores, then k segments of which the first k-1 have length a and the last takes
\* the remaining characters so that the total is L; optional trailing underscore.
CompString(L, k, lead, a, trail) ==
  LET head == Rep("u", lead)
      mid  == FlattenSeq([i \in 1..(k-1) |-> Rep("l", a) \o <<"u">>])
      used == lead + (k-1) * (a+1) + trail
  IN IF used >= L THEN <<>> ELSE head \o mid \o Rep("d", L - used) \o Rep("u", trail)

Comp == { CompString(L, k, lead, a, trail) :
            L \in (MinTag-1)..(MaxTag+2), k \in 1..(MaxSegs+1), lead \in 0..2,
            a \in 1..2, trail \in 0..1 } \ {<<>>}

\* names assembled by the app / biz / rpc helpers around the length bound: "_" main "_" sub [ "_" action ]
HelperString(a, b) == <<"u">> \o Rep("l", 3) \o <<"u">> \o Rep("l", a) \o (IF b = 0 THEN <<>> ELSE <<"u">> \o Rep("d", b))
HelperComp == { HelperString(a, b) : a \in (MaxTag - 9)..(MaxTag - 3), b \in 0..2 }

(***************************** string explorer *****************************)
VARIABLES s, q, mode
svars == <<s, q, mode>>

SInit == \/ s = <<>> /\ q = Q0 /\ mode = "grow"
         \/ \E c \in Comp : s = c /\ q = FoldLeft(Step, Q0, c) /\ mode = "comp"
         \/ \E c \in HelperComp : s = c /\ q = FoldLeft(Step, Q0, c) /\ mode = "helper"

Grow(c) == /\ mode = "grow" /\ Len(s) < MaxLen
           /\ s' = Append(s, c) /\ q' = Step(q, c) /\ UNCHANGED mode

SNext == \E c \in Sym : Grow(c)
SSpec == SInit /\ [][SNext]_svars

DfaIsValid   == Accept(q) = Valid(s)           \* the automaton decides the documented language
DfaIsFold    == q = FoldLeft(Step, Q0, s)
EmitString   == PrintT(<<"EMIT", ToJson([k |-> mode, s |-> s, valid |-> Valid(s)])>>)

=============================================================================
