------------------------------- MODULE Config -------------------------------
(***************************************************************************)
(* C15 - how a plugin attribute / element is resolved from configuration.  *)
(*                                                                         *)
(* An attribute is declared required or with a default, and its type       *)
(* either accepts every text (string) or can fail to convert (typed).      *)
(* The configuration gives it one of six treatments; a key is spelled in   *)
(* one of four styles and a sub-tree is written as flat keys or inline as  *)
(* a "name!" expression - which must not matter.  An element (child        *)
(* plugin) is a single value or a list, with a default type, optional, or  *)
(* required.  The outcome of creating a plugin is OK with the source of    *)
(* every value, or Error; Panic is not an outcome.                         *)
(* TLC enumerates the product for a plugin with two attributes and one     *)
(* element; the replayer maps each abstract case onto every attribute and  *)
(* element of every registered plugin type (read from the live registry).  *)
(***************************************************************************)
EXTENDS Naturals, Sequences, FiniteSets, TLC, Json

Presence == {"required", "defaulted"}
AttrDecl == [presence : Presence, typed : BOOLEAN]
AttrCase == {"absent", "literal", "illtyped", "propref", "propmissing", "propill",
             "propsubtree",   \* ${key} where key only is the prefix of other keys (a sub-tree, not a property)
             "propspecial"}   \* ${key} where the property's text is [] or {} or <nil> (stored apart by the flattened map)
Spelling == {"camel", "kebab", "snake", "capital"}
Form     == {"flat", "expr"}

\* where the value comes from, or "error"
Resolve(d, c) ==
  CASE c = "absent"      -> IF d.presence = "defaulted" THEN "default" ELSE "error"
    [] c = "literal"     -> "configured"
    [] c = "illtyped"    -> IF d.typed THEN "error" ELSE "configured"
    [] c = "propref"     -> "property"            \* ${key}: the top-level property of that name
    [] c = "propmissing" -> "error"
    [] c = "propsubtree" -> "error"               \* absent as a property
    [] c = "propspecial" -> IF d.typed THEN "error" ELSE "property"
    [] OTHER             -> IF d.typed THEN "error" ELSE "property"     \* "propill"

ElemDecl == {"single-default", "single-optional", "list-required", "list-default"}
ElemCase == {"absent", "single", "indexed", "unknowntype", "leaf"}
\* number of children instantiated, or "error"
ResolveElem(d, c) ==
  CASE c = "absent" -> IF d = "single-default" THEN "default" ELSE IF d = "list-default" THEN "default"
                       ELSE IF d = "single-optional" THEN "none" ELSE "error"
    [] c = "single" -> "one"
    [] c = "indexed" -> IF d \in {"list-required", "list-default"} THEN "many" ELSE "error-or-ignored"
    [] c = "unknowntype" -> "error"
    [] OTHER -> "error"                            \* a leaf value where a sub-tree is expected

VARIABLES d1, c1, d2, c2, de, ce, sp, fm
vars == <<d1, c1, d2, c2, de, ce, sp, fm>>
Init == /\ d1 \in AttrDecl /\ c1 \in AttrCase /\ d2 \in AttrDecl /\ c2 \in AttrCase
        /\ de \in ElemDecl /\ ce \in ElemCase /\ sp \in Spelling /\ fm \in Form
        \* one thing is varied against an otherwise valid configuration, plus all pairs of attribute cases
        /\ (ce = "single" \/ (c1 = "literal" /\ c2 = "literal"))
        /\ (sp = "camel" \/ (c1 \in {"literal", "propref"} /\ c2 = "literal" /\ ce = "single"))
Next == UNCHANGED vars
Spec == Init /\ [][Next]_vars

Outcome == IF "error" \in {Resolve(d1, c1), Resolve(d2, c2), ResolveElem(de, ce)} THEN "error" ELSE "ok"

\* C15: configured, else default, else error - and nothing else
ConfiguredElseDefaultElseError ==
  \A d \in AttrDecl :
     /\ Resolve(d, "literal") = "configured"
     /\ Resolve(d, "absent") = (IF d.presence = "defaulted" THEN "default" ELSE "error")
     /\ Resolve(d, "propmissing") = "error"
\* spelling and inline form never change the outcome (they are not arguments of Resolve)
SpellingInvariant == Outcome \in {"ok", "error"}

Emit == PrintT(<<"EMIT", ToJson([d1 |-> d1, c1 |-> c1, r1 |-> Resolve(d1, c1),
                                 d2 |-> d2, c2 |-> c2, r2 |-> Resolve(d2, c2),
                                 de |-> de, ce |-> ce, re |-> ResolveElem(de, ce),
                                 spelling |-> sp, form |-> fm, outcome |-> Outcome])>>)
=============================================================================
