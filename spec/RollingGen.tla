----------------------------- MODULE RollingGen -----------------------------
(***************************************************************************)
(* Behaviour generator for Rolling.tla: every step of the specification is *)
(* controllable by the replayer (it releases one parked writer goroutine   *)
(* for one segment, advances the virtual clock, renames the directory      *)
(* away / back, or calls Stop / Start), so `hist` simply records which     *)
(* step was taken together with the state the real system must then show:  *)
(* files and their contents, open descriptors, published handles, marker,  *)
(* where every writer is parked.                                           *)
(*                                                                         *)
(* Used in three ways: -simulate (random schedules), as witness generator  *)
(* (a Goal predicate made an "invariant" so that TLC's counterexample is a *)
(* shortest behaviour reaching it), and exhaustively for one writer.       *)
(***************************************************************************)
EXTENDS Rolling

CONSTANTS MaxSteps, Goal     \* Goal: name of the witness goal ("" = none)

VARIABLE hist
gvars == <<vars, hist>>

NameOf(h) == IF h = NULL THEN -1 ELSE handles'[h].name
Obs == [dir     |-> [n \in DOMAIN dir' |-> dir'[n]],
        names   |-> SetToSeq(DOMAIN dir'),
        open    |-> [i \in 1..Len(handles') |-> IF handles'[i].open THEN handles'[i].name ELSE -1],
        cur     |-> NameOf(file'), old |-> NameOf(oldFile'),
        marker  |-> marker', now |-> now', up |-> dirUp', running |-> running',
        pc      |-> [w \in Writers |-> pc'[w]],
        acked   |-> acked', lost |-> lost']

Rec(a, w) == hist' = Append(hist, [a |-> a, w |-> w, obs |-> Obs])

GenInit == Init /\ hist = <<>>
GenNext == /\ Len(hist) < MaxSteps
           /\ \/ \E w \in Writers : WriterStep(w) /\ Rec("w", w)
              \/ Tick /\ Rec("tick", 0)
              \/ DirDown /\ Rec("down", 0)
              \/ DirUp /\ Rec("up", 0)
              \/ Stop /\ Rec("stop", 0)
              \/ Start /\ Rec("start", 0)
GenSpec == GenInit /\ [][GenNext]_gvars

Done == Len(hist) = MaxSteps \/ (nWrites = MaxWrites /\ Idle /\ Len(hist) > 0)
GenEmit == Done => PrintT(<<"EMIT", ToJson([tpi |-> TPI, hist |-> hist])>>)

(* witness goals: NotGoal is checked as an invariant; the counterexample reaches the goal *)
Reached ==
  CASE Goal = "retry"      -> retried \cap acked # {} /\ Idle
    [] Goal = "retry2"     -> retried2 \cap acked # {} /\ Idle     \* one write outlived two pairs of rotations
    [] Goal = "lost"       -> lost # {}
    [] Goal = "leak"       -> Idle /\ running /\ Cardinality(OpenHandles) > 2
    [] Goal = "backwards"  -> \E w \in Writers : pc[w] = "p6" /\ Ivl(wNow[w]) < marker
    [] Goal = "failcreate" -> failedCreates > 0 /\ Idle /\ nWrites = MaxWrites
    [] Goal = "contend"    -> \E w, v \in Writers : w # v /\ pc[w] \in {"p2","p3","p4","p5","p6","p7"} /\ pc[v] = "p1"
                                                    /\ Ivl(wNow[v]) > wOld[v]
    [] Goal = "twofiles"   -> Cardinality(DOMAIN dir) >= 3 /\ Idle /\ nWrites = MaxWrites
    [] Goal = "restart"    -> restarts > 0 /\ Idle /\ nWrites = MaxWrites
    [] OTHER -> FALSE
MidCallGoals == {"backwards", "contend"}      \* goals that are states in the middle of a call
NotGoal == IF Goal \in MidCallGoals THEN ~Reached ELSE ~(Reached /\ Idle /\ Len(hist) > 0)
WitnessEmit == (Goal # "" /\ ~NotGoal) => PrintT(<<"EMIT", ToJson([tpi |-> TPI, goal |-> Goal, hist |-> hist])>>)
=============================================================================
