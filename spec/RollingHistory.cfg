SPECIFICATION Spec
INVARIANTS Report Checked
CHECK_DEADLOCK FALSE
