---------------------------- MODULE AsyncLogger ----------------------------
(***************************************************************************)
(* C04 / C05 / C06 (and the queueing part of C12): the asynchronous logger *)
(* of go-spring/log - a bounded FIFO channel between producers (log calls  *)
(* and raw writes) and one worker goroutine, with three overflow policies  *)
(* and a Stop that queues a marker and waits for the worker.               *)
(*                                                                         *)
(* One action per channel operation of the implementation:                 *)
(*   Submit      - the non-blocking send of Append/Write (or the level     *)
(*                 gate dropping a disabled event)                         *)
(*   Discard     - policy Discard: count and drop the arriving item        *)
(*   DOTry/DOPop - policy DiscardOldest: retry the send / pop the head     *)
(*   BlockSend   - policy Block: the blocking send                         *)
(*   Take/Deliver- worker receive / hand the item to the appenders         *)
(*   StopSend    - Stop's blocking send of the marker                      *)
(*   StopWait    - Stop returns after the worker saw the marker            *)
(*                                                                         *)
(* Items are <<producer, k>>; kind "ev" (event at an enabled level),       *)
(* "off" (event below the logger's level) or "raw" (raw bytes).            *)
(***************************************************************************)
EXTENDS Naturals, Sequences, FiniteSets, SequencesExt, TLC, Json

CONSTANTS Cap,          \* channel capacity
          Producers,    \* set of producer ids
          MaxItems,     \* items each producer may submit
          Policy,       \* "Block" | "Discard" | "DiscardOldest"
          Kinds,        \* subset of {"ev","off","raw"} producers choose from
          Prefill       \* set of initial occupancies (fillers submitted by producer 0 before the run)

Marker == <<0, 0>>                       \* the stop marker
Filler(i) == <<0, i>>                    \* pre-filled items, kind "ev"

VARIABLES buf,        \* the channel: sequence of items
          pc,         \* producer -> "idle" | "full" | "dotry" | "dopop" | "block"
          cur,        \* producer -> item being submitted
          nsub,       \* producer -> number of items submitted so far
          kindOf,     \* item -> kind (grows as items are created)
          worker,     \* "waiting" | "holding" | "stopped"
          held,       \* item held by the worker
          delivered,  \* sequence of items handed to the appenders
          dropped,    \* set of items discarded by policy
          discards,   \* the discard counter
          stop        \* "no" | "sent" | "done"
vars == <<buf, pc, cur, nsub, kindOf, worker, held, delivered, dropped, discards, stop>>

Items == DOMAIN kindOf
Enabled(x) == kindOf[x] \in {"ev", "raw"}
HasSpace == Len(buf) < Cap

Init ==
  \E n \in Prefill :
    /\ buf = [i \in 1..n |-> Filler(i)]
    /\ kindOf = [x \in {Filler(i) : i \in 1..n} |-> "ev"]
    /\ pc = [p \in Producers |-> "idle"] /\ cur = [p \in Producers |-> Marker]
    /\ nsub = [p \in Producers |-> 0]
    /\ worker = "waiting" /\ held = Marker
    /\ delivered = <<>> /\ dropped = {} /\ discards = 0 /\ stop = "no"

(******************************** producers ********************************)
Submit(p, k) ==
  /\ stop = "no" /\ pc[p] = "idle" /\ nsub[p] < MaxItems /\ k \in Kinds
  /\ LET x == <<p, nsub[p] + 1>> IN
     /\ nsub' = [nsub EXCEPT ![p] = @ + 1]
     /\ kindOf' = [y \in Items \cup {x} |-> IF y = x THEN k ELSE kindOf[y]]
     /\ IF k = "off"
        THEN UNCHANGED <<buf, pc, cur>>                        \* level gate: no effect at all
        ELSE IF HasSpace
             THEN buf' = Append(buf, x) /\ UNCHANGED <<pc, cur>>   \* select { case buf <- x }
             ELSE /\ cur' = [cur EXCEPT ![p] = x]                    \* default: onBufferFull
                  /\ pc' = [pc EXCEPT ![p] = CASE Policy = "Discard" -> "full"
                                                [] Policy = "Block" -> "block"
                                                [] OTHER -> "dotry"]
                  /\ UNCHANGED buf
  /\ UNCHANGED <<worker, held, delivered, dropped, discards, stop>>

Discard(p) ==
  /\ pc[p] = "full"
  /\ discards' = discards + 1 /\ dropped' = dropped \cup {cur[p]}
  /\ pc' = [pc EXCEPT ![p] = "idle"]
  /\ UNCHANGED <<buf, cur, nsub, kindOf, worker, held, delivered, stop>>

BlockSend(p) ==
  /\ pc[p] = "block" /\ HasSpace
  /\ buf' = Append(buf, cur[p]) /\ pc' = [pc EXCEPT ![p] = "idle"]
  /\ UNCHANGED <<cur, nsub, kindOf, worker, held, delivered, dropped, discards, stop>>

DOTry(p) ==
  /\ pc[p] = "dotry"
  /\ IF HasSpace
     THEN buf' = Append(buf, cur[p]) /\ pc' = [pc EXCEPT ![p] = "idle"]
     ELSE buf' = buf /\ pc' = [pc EXCEPT ![p] = "dopop"]
  /\ UNCHANGED <<cur, nsub, kindOf, worker, held, delivered, dropped, discards, stop>>

DOPop(p) ==
  /\ pc[p] = "dopop"
  /\ IF buf # <<>>
     THEN /\ buf' = Tail(buf) /\ discards' = discards + 1
          /\ dropped' = dropped \cup {Head(buf)}
     ELSE UNCHANGED <<buf, discards, dropped>>                 \* the worker emptied it meanwhile
  /\ pc' = [pc EXCEPT ![p] = "dotry"]
  /\ UNCHANGED <<cur, nsub, kindOf, worker, held, delivered, stop>>

ProducerStep(p) == \/ \E k \in Kinds : Submit(p, k)
                   \/ Discard(p) \/ BlockSend(p) \/ DOTry(p) \/ DOPop(p)

(********************************* worker **********************************)
Take ==
  /\ worker = "waiting" /\ buf # <<>>
  /\ buf' = Tail(buf)
  /\ IF Head(buf) = Marker
     THEN worker' = "stopped" /\ held' = held
     ELSE worker' = "holding" /\ held' = Head(buf)
  /\ UNCHANGED <<pc, cur, nsub, kindOf, delivered, dropped, discards, stop>>

Deliver ==
  /\ worker = "holding"
  /\ delivered' = Append(delivered, held) /\ worker' = "waiting"
  /\ UNCHANGED <<buf, pc, cur, nsub, kindOf, held, dropped, discards, stop>>

(********************************** Stop ***********************************)
Quiescent == \A p \in Producers : pc[p] = "idle"     \* no log call in progress (premise of C05)

StopSend ==
  /\ stop = "no" /\ Quiescent /\ HasSpace
  /\ buf' = Append(buf, Marker) /\ stop' = "sent"
  /\ UNCHANGED <<pc, cur, nsub, kindOf, worker, held, delivered, dropped, discards>>

StopWait ==
  /\ stop = "sent" /\ worker = "stopped"
  /\ stop' = "done"
  /\ UNCHANGED <<buf, pc, cur, nsub, kindOf, worker, held, delivered, dropped, discards>>

Next == (\E p \in Producers : ProducerStep(p)) \/ Take \/ Deliver \/ StopSend \/ StopWait
Spec == Init /\ [][Next]_vars
FairSpec == Spec /\ WF_vars(Take) /\ WF_vars(Deliver) /\ WF_vars(StopSend) /\ WF_vars(StopWait)

(******************************* properties ********************************)
TypeOK == /\ Len(buf) <= Cap /\ discards = Cardinality(dropped)
          /\ worker \in {"waiting", "holding", "stopped"} /\ stop \in {"no", "sent", "done"}

DeliveredSet == { delivered[i] : i \in DOMAIN delivered }
InFlight == { cur[p] : p \in { q \in Producers : pc[q] # "idle" } }

\* C04: nothing twice, nothing lost: every enabled item is in exactly one place
NoDuplicates == \A i, j \in DOMAIN delivered : delivered[i] = delivered[j] => i = j
Conservation ==
  \A x \in { y \in Items : Enabled(y) } :
     Cardinality({ w \in {"buf", "held", "delivered", "dropped", "inflight"} :
        \/ w = "buf" /\ \E i \in DOMAIN buf : buf[i] = x
        \/ w = "held" /\ worker = "holding" /\ held = x
        \/ w = "delivered" /\ x \in DeliveredSet
        \/ w = "dropped" /\ x \in dropped
        \/ w = "inflight" /\ x \in InFlight }) = 1
DisabledIgnored == \A x \in Items : ~Enabled(x) => (x \notin DeliveredSet /\ x \notin dropped)
BlockNeverDiscards == Policy = "Block" => discards = 0
\* at Stop: delivered + discarded = submitted
ConservationAtStop ==
  stop = "done" => /\ buf = <<>> /\ worker = "stopped"
                   /\ \A x \in { y \in Items : Enabled(y) } : (x \in DeliveredSet) # (x \in dropped)
                   /\ Len(delivered) + discards = Cardinality({ y \in Items : Enabled(y) })

\* C06: per-producer FIFO
Pos(x) == CHOOSE i \in DOMAIN delivered : delivered[i] = x
ProducerFIFO == \A x, y \in DeliveredSet :
                   (x[1] = y[1] /\ x[2] < y[2]) => Pos(x) < Pos(y)
\* policy semantics as action properties
DiscardDropsArriving ==
  [][ (Policy = "Discard" /\ dropped' # dropped) =>
        \E p \in Producers : pc[p] = "full" /\ dropped' = dropped \cup {cur[p]} /\ buf' = buf ]_vars
DiscardOldestDropsHead ==
  [][ (Policy = "DiscardOldest" /\ dropped' # dropped) =>
        (buf # <<>> /\ dropped' = dropped \cup {Head(buf)} /\ buf' = Tail(buf)) ]_vars
DiscardOldestKeepsArriving ==
  Policy = "DiscardOldest" => \A p \in Producers : pc[p] # "idle" => cur[p] \notin dropped
\* under the two discard policies a producer never waits for the worker
NonBlocking == Policy # "Block" =>
                 \A p \in Producers : pc[p] # "idle" => (ENABLED Discard(p) \/ ENABLED DOTry(p) \/ ENABLED DOPop(p))
BlockWaitsForSpace == \A p \in Producers : (pc[p] = "block" /\ ~HasSpace) => ~ENABLED BlockSend(p)

\* C05: Stop terminates (liveness, under fairness of the worker and of Stop itself)
StopTerminates == (stop = "sent") ~> (stop = "done")
StopReachable  == <>(stop = "done")

=============================================================================
