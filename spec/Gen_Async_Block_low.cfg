CONSTANTS Cap = 100  Producers = {1}  MaxItems = 6  Policy = "Block"  Kinds = {"ev", "off", "raw"}  Prefill = {0, 1, 2}  MaxOps = 4
SPECIFICATION GenSpec
INVARIANTS TypeOK NoDuplicates Conservation DisabledIgnored BlockNeverDiscards ConservationAtStop ProducerFIFO GenEmit
CHECK_DEADLOCK FALSE
