---------------------------- MODULE TagRegistry ----------------------------
(***************************************************************************)
(* C18, registry part: RegisterTag is get-or-create on valid names, panics *)
(* and registers nothing on invalid ones; the helper constructors build    *)
(* "_<main>_<sub>[_<action>]" and panic on an empty sub type; GetAllTags   *)
(* is exactly the set registered.                                          *)
(***************************************************************************)
EXTENDS Naturals, Sequences, FiniteSets, SequencesExt, TLC, Json

CONSTANTS MaxHist

VARIABLES reg,    \* name -> identity (index of the Register call that created it)
          hist,   \* sequence of [op, name, args, res, id, all]
          nextId

L == INSTANCE TagLang WITH s <- <<>>, q <- 0, mode <- "", MaxLen <- 0,
                           MinTag <- 3, MaxTag <- 36, MaxSegs <- 4

\* class strings used by the histories: valid, invalid, and helper parts
Names == { <<"l","l","l">>, <<"u","l","l","u","d">>, <<"l","l">>, <<"u","u","l","l">>,
           <<"l","U","l">>, <<"l","l","u">>, <<"l","u","l","u","l","u","l">>,
           <<"l","u","l","u","l","u","l","u","l">> }
Parts == { <<>>, <<"l">>, <<"l","d">>, <<"l","u","l">>, <<"U">>, <<"l","u">> }
Mains == { <<"l","l","l">> }    \* app / biz / rpc are all three lower-case letters

Build(main, sub, act) ==
  IF act = <<>> THEN <<"u">> \o main \o <<"u">> \o sub
  ELSE <<"u">> \o main \o <<"u">> \o sub \o <<"u">> \o act

vars == <<reg, hist, nextId>>
Init == reg = <<>> /\ hist = <<>> /\ nextId = 1

All(r) == DOMAIN r

DoRegister(op, name, args) ==
  IF L!Valid(name)
  THEN IF name \in DOMAIN reg
       THEN /\ hist' = Append(hist, [op |-> op, name |-> name, args |-> args, res |-> "ok",
                                     id |-> reg[name], all |-> All(reg)])
            /\ UNCHANGED <<reg, nextId>>
       ELSE /\ reg' = [n \in DOMAIN reg \cup {name} |-> IF n = name THEN nextId ELSE reg[n]]
            /\ hist' = Append(hist, [op |-> op, name |-> name, args |-> args, res |-> "ok",
                                     id |-> nextId, all |-> All(reg) \cup {name}])
            /\ nextId' = nextId + 1
  ELSE /\ hist' = Append(hist, [op |-> op, name |-> name, args |-> args, res |-> "panic",
                                id |-> 0, all |-> All(reg)])
       /\ UNCHANGED <<reg, nextId>>

Register(name) == DoRegister("register", name, <<>>)

Helper(sub, act) ==
  IF sub = <<>>
  THEN /\ hist' = Append(hist, [op |-> "helper", name |-> <<>>, args |-> <<sub, act>>,
                                res |-> "panic", id |-> 0, all |-> All(reg)])
       /\ UNCHANGED <<reg, nextId>>
  ELSE \E m \in Mains : DoRegister("helper", Build(m, sub, act), <<sub, act>>)

Next == /\ Len(hist) < MaxHist
        /\ \/ \E n \in Names : Register(n)
           \/ \E sub \in Parts, act \in Parts : Helper(sub, act)

Spec == Init /\ [][Next]_vars

AllTagsExact == \A i \in 1..Len(hist) :
                   hist[i].all = { hist[j].name : j \in {k \in 1..i : hist[k].res = "ok"} }
InvalidNeverRegistered == \A n \in DOMAIN reg : L!Valid(n)
SameObject == \A i, j \in 1..Len(hist) :
                 (hist[i].res = "ok" /\ hist[j].res = "ok" /\ hist[i].name = hist[j].name)
                    => hist[i].id = hist[j].id
PanicChangesNothing == [][ (hist' # hist /\ hist'[Len(hist')].res = "panic") => reg' = reg ]_vars

Emit == (Len(hist) = MaxHist) =>
           PrintT(<<"EMIT", ToJson([k |-> "hist", h |-> hist])>>)
=============================================================================
