----------------------------- MODULE HumanBytes -----------------------------
(***************************************************************************)
(* The size syntax of the bufferCap property ("10KB"): ASCII digits, then  *)
(* optional blanks, a unit B / KB / MB in any letter case, optional        *)
(* blanks.  Anything else is an error - in particular a missing number, a  *)
(* missing unit, blanks inside the unit, a sign, a fraction.               *)
(* Classes: "d" digit, " " blank, "b" "k" "m" the unit letters (either     *)
(* case), "x" another letter, "o" anything else.                           *)
(***************************************************************************)
EXTENDS Naturals, Sequences, FiniteSets, SequencesExt, TLC, Json

CONSTANT MaxLen
Class == {"d", " ", "b", "k", "m", "x", "o"}

VARIABLE s
Init == s = <<>>
Next == Len(s) < MaxLen /\ \E c \in Class : s' = Append(s, c)
Spec == Init /\ [][Next]_s

\* declarative: s = d^n ++ blanks ++ unit ++ blanks with n >= 1
Digits(t) == \A i \in DOMAIN t : t[i] = "d"
Blanks(t) == \A i \in DOMAIN t : t[i] = " "
Units == { <<"b">>, <<"k", "b">>, <<"m", "b">> }
Accept == \E i \in 1..Len(s), j \in 0..Len(s), k \in 0..Len(s) :
            /\ i <= j /\ j <= k
            /\ Digits(SubSeq(s, 1, i))                      \* i >= 1 digits
            /\ Blanks(SubSeq(s, i + 1, j))
            /\ SubSeq(s, j + 1, k) \in Units
            /\ Blanks(SubSeq(s, k + 1, Len(s)))
Unit == IF ~Accept THEN "" ELSE
        LET t == SelectSeq(s, LAMBDA c : c \in {"b", "k", "m"}) IN
        IF t = <<"b">> THEN "B" ELSE IF t = <<"k", "b">> THEN "KB" ELSE "MB"
Emit == PrintT(<<"EMIT", ToJson([s |-> s, accept |-> Accept, unit |-> Unit])>>)
=============================================================================
