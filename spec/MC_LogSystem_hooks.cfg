CONSTANTS MaxLen = 3
  Ops = {"RefreshA","Destroy","Log","LazyLog","SetHooks"}
SPECIFICATION Spec
INVARIANTS TypeOK NoCfgMeansConsole HooksIffEmitted Emit
CHECK_DEADLOCK FALSE
