CONSTANTS Alpha = {"a","b"}  MaxSeg = 3  MaxLoggers = 2  MaxPats = 2
SPECIFICATION Spec
INVARIANTS LookupIsServe ExactlyOneServer Emit
CHECK_DEADLOCK FALSE
