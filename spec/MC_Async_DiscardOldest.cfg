CONSTANTS Cap = 2  Producers = {1, 2}  MaxItems = 2  Policy = "DiscardOldest"  Kinds = {"ev", "off"}  Prefill = {1, 2}
SPECIFICATION Spec
INVARIANTS TypeOK NoDuplicates Conservation DisabledIgnored BlockNeverDiscards ConservationAtStop ProducerFIFO DiscardOldestKeepsArriving NonBlocking BlockWaitsForSpace
PROPERTIES DiscardDropsArriving DiscardOldestDropsHead
CHECK_DEADLOCK FALSE
