CONSTANTS L = {1, 2}  A = {1, 2}  MaxItems = 2  Order = "appendersFirst"
SPECIFICATION Spec
INVARIANTS NoLateWrite
CHECK_DEADLOCK FALSE
