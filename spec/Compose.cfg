SPECIFICATION Spec
INVARIANTS RoutingAgrees LevelsAgree
CHECK_DEADLOCK FALSE
