CONSTANTS MaxEntries = 2
SPECIFICATION Spec
INVARIANTS CleanupExact Emit
CHECK_DEADLOCK FALSE
