CONSTANTS MaxEntries = 2
SPECIFICATION Spec
INVARIANTS CleanupExact SecondScanKeeps Emit
CHECK_DEADLOCK FALSE
