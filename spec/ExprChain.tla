------------------------------ MODULE ExprChain ------------------------------
(***************************************************************************)
(* C17 - directed runs of the ExprParser.tla machine: expressions nested   *)
(* d levels deep in which every level assigns its nested expression to a   *)
(* path of s segments, e.g. (d = 3, s = 2)                                 *)
(*     T { a.b = T { a.b = T { a.b = INTEGER } } }                         *)
(* and the same with a sibling scalar before / after the nested member.    *)
(* Such strings are far beyond the token bound of the exhaustive           *)
(* enumeration; here the machine of ExprParser.tla is stepped along each   *)
(* target string, so verdict and flattened assignments still come from the *)
(* specification.                                                          *)
(***************************************************************************)
EXTENDS ExprParser

CONSTANTS MaxD, MaxS

VARIABLE target
cvars == <<vars, target>>

Tok(k, t) == [k |-> k, t |-> t]
Id(x) == Tok("IDENT", x)
P(x)  == Tok(x, x)

RECURSIVE PathToks(_)
PathToks(s) == IF s = 1 THEN <<Id("a")>> ELSE PathToks(s - 1) \o <<P("."), Id(IF s % 2 = 0 THEN "b" ELSE "a")>>

\* sib: 0 = none, 1 = a scalar member before the nested one, 2 = after it
RECURSIVE Chain(_, _, _)
Chain(d, s, sib) ==
  LET val == IF d = 1 THEN <<Tok("INTEGER", "INTEGER")>> ELSE Chain(d - 1, s, sib)
      own == PathToks(s) \o <<P("=")>> \o val
      scalar == <<Id("b"), P("="), Tok("STRING", "STRING")>>
  IN <<Id("T"), P("{")>> \o
     (CASE sib = 1 -> scalar \o <<P(",")>> \o own
        [] sib = 2 -> own \o <<P(",")>> \o scalar
        [] OTHER   -> own) \o <<P("}")>>

Targets == { Chain(d, s, sib) : d \in 1..MaxD, s \in 1..MaxS, sib \in 0..2 }

CInit == Init /\ target \in Targets
CNext == /\ Len(toks) < Len(target)
         /\ Step(target[Len(toks) + 1])
         /\ UNCHANGED target
CSpec == CInit /\ [][CNext]_cvars

\* every target is a well-formed expression: the machine accepts it at its last token
AllAccepted == (Len(toks) = Len(target)) => verdict = "accept"
=============================================================================
