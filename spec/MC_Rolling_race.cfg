CONSTANTS Writers = {1, 2}  MaxWrites = 3  MaxTick = 5  TPI = 2  MaxOutages = 0  MaxRestarts = 0  UseLock = TRUE  Retry = TRUE
SPECIFICATION Spec
INVARIANTS TypeOK SequentialFresh ExactlyOnce NothingLost NoDuplicateAnywhere NotBeforeName NameLaw FdBound FdZeroAfterStop HolderCanProceed NonLockStepsEnabled
PROPERTIES MarkerMonotone FailKeepsFile
CHECK_DEADLOCK FALSE
