CONSTANTS Top = 5  MaxRefs = 4  WarnPt = 3  EmitRefs = 2
SPECIFICATION Spec
INVARIANTS ChainIsStatement EqualBoundsShare NothingAtMax ExactlyOnce Emit
PROPERTIES DeliveredExactly
CHECK_DEADLOCK FALSE
