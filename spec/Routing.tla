------------------------------ MODULE Routing ------------------------------
(***************************************************************************)
(* C02 - which logger serves a tag after a successful Refresh.             *)
(*                                                                         *)
(* A tag is an optional leading underscore plus 1..MaxSeg segments; a      *)
(* pattern is a literal tag, a wildcard "P_*", or a malformed wildcard.    *)
(* A configuration gives each of up to MaxLoggers non-root loggers a set   *)
(* of patterns and says whether a root logger is configured (and whether   *)
(* it - illegally - lists tags).                                           *)
(*                                                                         *)
(* Serve is the declarative statement of the property; Lookup is the       *)
(* operational algorithm (exact map hit, else strip the last segment and   *)
(* retry with "_*", stop at the first segment) working on names as symbol  *)
(* strings.  TLC checks Lookup = Serve for every configuration it builds   *)
(* by AddPattern steps, and emits (configuration, verdict, tag -> logger). *)
(***************************************************************************)
EXTENDS Naturals, Sequences, FiniteSets, SequencesExt, FiniteSetsExt, TLC, Json

CONSTANTS Alpha,       \* segment symbols, e.g. {"a","b"}
          MaxSeg,      \* tags have 1..MaxSeg segments
          MaxLoggers,  \* non-root loggers 1..MaxLoggers
          MaxPats      \* total number of patterns in a configuration

SegSeqs(n) == UNION { [1..k -> Alpha] : k \in 1..n }
Tags     == [lead : BOOLEAN, segs : SegSeqs(MaxSeg)]
Lit(t)   == [kind |-> "lit", lead |-> t.lead, segs |-> t.segs]
Wild(l, p) == [kind |-> "wild", lead |-> l, segs |-> p]
Patterns == { Lit(t) : t \in Tags }
            \cup { Wild(l, p) : l \in BOOLEAN, p \in SegSeqs(MaxSeg - 1) }
            \cup { [kind |-> k, lead |-> FALSE, segs |-> <<CHOOSE a \in Alpha : TRUE>>] :
                       k \in {"bad_star", "bad_mid", "bad_nosep"} }   \* "*", "a_*_b", "a*"
Loggers  == 1..MaxLoggers
RootModes == {"none", "plain", "withtags"}

VARIABLES pats,     \* logger -> set of patterns
          root,     \* root mode
          empties   \* loggers configured with an empty / blank tag list
vars == <<pats, root, empties>>

(***************************** declarative Serve ****************************)
\* logger 0 is the root (configured root or the built-in console logger)
IsProperPrefix(p, t) == Len(p) < Len(t) /\ SubSeq(t, 1, Len(p)) = p

Holders(pat) == { l \in Loggers : pat \in pats[l] }

Serve(t) ==
  IF Holders(Lit(t)) # {} THEN CHOOSE l \in Holders(Lit(t)) : TRUE
  ELSE LET ks == { k \in 1..(Len(t.segs)-1) : Holders(Wild(t.lead, SubSeq(t.segs, 1, k))) # {} }
       IN IF ks = {} THEN 0
          ELSE CHOOSE l \in Holders(Wild(t.lead, SubSeq(t.segs, 1, Max(ks)))) : TRUE

Used == { l \in Loggers : pats[l] # {} \/ l \in empties }

RefreshOK ==
  /\ root # "withtags"                                      \* the root logger lists tags
  /\ empties = {}                                           \* a non-root logger lists none
  /\ \A l \in Used : \A p \in pats[l] : p.kind \in {"lit", "wild"}   \* malformed wildcard
  /\ \A p \in Patterns : Cardinality(Holders(p)) <= 1       \* one tag string in two loggers

(**************************** operational Lookup ***************************)
Join(segs) == IF Len(segs) = 0 THEN <<>>
              ELSE FoldLeft(LAMBDA acc, x : acc \o <<"_", x>>, <<segs[1]>>, Tail(segs))
Name(lead, segs) == (IF lead THEN <<"_">> ELSE <<>>) \o Join(segs)
PatName(p) == IF p.kind = "wild" THEN Name(p.lead, p.segs) \o <<"_", "*">> ELSE Name(p.lead, p.segs)

\* the map built by Refresh: name -> logger (only consulted when RefreshOK, hence single-valued)
Bound(name) == { l \in Loggers : \E p \in pats[l] : PatName(p) = name }

CutStar(s) == IF Len(s) >= 2 /\ s[Len(s)] = "*" /\ s[Len(s)-1] = "_" THEN SubSeq(s, 1, Len(s)-2) ELSE s
TrimUnd(s) == IF Len(s) >= 1 /\ s[Len(s)] = "_" THEN SubSeq(s, 1, Len(s)-1) ELSE s

RECURSIVE Lookup(_)
Lookup(name) ==
  IF Bound(name) # {} THEN CHOOSE l \in Bound(name) : TRUE
  ELSE LET t == CutStar(name)
           und == { i \in 1..Len(t) : t[i] = "_" }
       IN IF und = {} \/ Max(und) = 1 THEN 0                 \* i <= 0 in 0-based terms
          ELSE Lookup(TrimUnd(SubSeq(t, 1, Max(und) - 1)) \o <<"_", "*">>)

LookupIsServe == RefreshOK => \A t \in Tags : Lookup(Name(t.lead, t.segs)) = Serve(t)
ExactlyOneServer == RefreshOK => \A t \in Tags : Serve(t) \in {0} \cup Used

(****************************** configuration builder ***********************)
Init == pats = [l \in Loggers |-> {}] /\ root \in RootModes /\ empties = {}

Total == FoldLeft(LAMBDA a, l : a + Cardinality(pats[l]), 0, SetToSeq(Loggers)) + Cardinality(empties)

AddPattern(l, p) == /\ Total < MaxPats /\ p \notin pats[l] /\ l \notin empties
                    /\ (l > 1 => (pats[l-1] # {} \/ (l-1) \in empties))      \* loggers used in order
                    /\ pats' = [pats EXCEPT ![l] = @ \cup {p}]
                    /\ UNCHANGED <<root, empties>>
AddEmpty(l) == /\ Total < MaxPats /\ pats[l] = {} /\ l \notin empties
               /\ (l > 1 => (pats[l-1] # {} \/ (l-1) \in empties))
               /\ empties' = empties \cup {l} /\ UNCHANGED <<pats, root>>

Next == \/ \E l \in Loggers, p \in Patterns : AddPattern(l, p)
        \/ \E l \in Loggers : AddEmpty(l)
Spec == Init /\ [][Next]_vars

(********************************** emission ********************************)
TagList == SetToSeq(Tags)
Emit == PrintT(<<"EMIT", ToJson([
            loggers |-> [l \in Loggers |-> [used |-> l \in Used,
                                            empty |-> l \in empties,
                                            pats |-> SetToSeq({[n |-> PatName(p), k |-> p.kind] : p \in pats[l]})]],
            root |-> root,
            ok |-> RefreshOK,
            serve |-> IF RefreshOK
                      THEN [i \in 1..Len(TagList) |-> [tag |-> Name(TagList[i].lead, TagList[i].segs),
                                                       by |-> Serve(TagList[i])]]
                      ELSE <<>>])>>)
=============================================================================
