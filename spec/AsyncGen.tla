------------------------------ MODULE AsyncGen ------------------------------
(***************************************************************************)
(* Behaviour generator for AsyncLogger.tla (direction A of the binding).   *)
(*                                                                         *)
(* The replayer drives the real AsyncLogger with a gated recording         *)
(* appender: the worker is parked inside the appender until the replayer   *)
(* releases it, so the only steps the environment controls are             *)
(*   ev / off / raw  - a log call or raw write by producer p               *)
(*   release         - let the worker finish the item it holds (Deliver)   *)
(*   stop            - call Stop                                           *)
(* and every other action of AsyncLogger.tla (Take, Discard, DOTry, DOPop, *)
(* BlockSend, StopSend, StopWait) is internal and urgent: it happens as    *)
(* soon as it is enabled.  GenNext gives internal steps priority; `hist`   *)
(* records each external operation together with the settled state that    *)
(* preceded it, which is what the replayer can observe (discard counter,   *)
(* delivery list, item parked in the appender, which calls have not        *)
(* returned).                                                              *)
(***************************************************************************)
EXTENDS AsyncLogger

CONSTANT MaxOps

VARIABLES hist, stopReq
gvars == <<vars, hist, stopReq>>

Internal == \/ Take
            \/ \E p \in Producers : Discard(p) \/ BlockSend(p) \/ DOTry(p) \/ DOPop(p)
            \/ (stopReq /\ StopSend)
            \/ StopWait

Snapshot == [buflen    |-> Len(buf),
             holding   |-> IF worker = "holding" THEN held ELSE Marker,
             delivered |-> delivered,
             discards  |-> discards,
             blocked   |-> { p \in Producers : pc[p] # "idle" },
             stopped   |-> stop = "done",
             stopBlocked |-> stopReq /\ stop = "no"]

NoCallPending == \A q \in Producers : pc[q] = "idle"

External ==
  /\ Len(hist) < MaxOps
  /\ \/ \E p \in Producers, k \in Kinds :
          /\ ~stopReq /\ NoCallPending /\ Submit(p, k)
          /\ hist' = Append(hist, [op |-> k, p |-> p, pre |-> Snapshot]) /\ UNCHANGED stopReq
     \/ /\ Deliver
        /\ hist' = Append(hist, [op |-> "release", p |-> 0, pre |-> Snapshot]) /\ UNCHANGED stopReq
     \/ /\ ~stopReq /\ NoCallPending
        /\ stopReq' = TRUE /\ hist' = Append(hist, [op |-> "stop", p |-> 0, pre |-> Snapshot])
        /\ UNCHANGED vars

GenInit == Init /\ hist = <<>> /\ stopReq = FALSE
GenNext == IF ENABLED Internal
           THEN Internal /\ UNCHANGED <<hist, stopReq>>
           ELSE External
GenSpec == GenInit /\ [][GenNext]_gvars

Settled == ~ENABLED Internal
\* every safety property of AsyncLogger.tla is re-checked on the generated behaviours
GenEmit == (Settled /\ (Len(hist) = MaxOps \/ stop = "done")) =>
             PrintT(<<"EMIT", ToJson([policy |-> Policy, cap |-> Cap, hist |-> hist, final |-> Snapshot])>>)
=============================================================================
