SPECIFICATION Spec
INVARIANTS ConfiguredElseDefaultElseError SpellingInvariant Emit
CHECK_DEADLOCK FALSE
