CONSTANTS MaxLen = 3  LongLeads = TRUE
SPECIFICATION Spec
INVARIANTS TypeOK Total Deterministic NoRawControl WireIsUTF8 Partition OneFFFDPerInvalidByte EmitCase
CHECK_DEADLOCK FALSE
