------------------------------ MODULE Shutdown ------------------------------
(***************************************************************************)
(* Destroy as a sequence of steps (C05 / C12 / C16, system level).         *)
(*                                                                         *)
(* A live configuration holds asynchronous loggers, each with a queue of   *)
(* accepted items (events or raw writes) and a worker that hands the items *)
(* one by one to the logger's appenders, and appenders shared between the  *)
(* loggers.  Destroy stops every logger - a logger is stopped when its     *)
(* worker has handed over everything that was accepted - and every         *)
(* appender.  Order = "loggersFirst" is the design: an appender is stopped *)
(* only after every logger that may still write to it has drained.  With   *)
(* Order = "appendersFirst" (kept so that TLC shows the invariants are not *)
(* vacuous) a worker hands items to appenders that are already closed.     *)
(*                                                                         *)
(* Emitted for the replayer: the reference table, the number of items each *)
(* logger accepted and how many of them were still queued when Destroy     *)
(* began.                                                                  *)
(***************************************************************************)
EXTENDS Naturals, FiniteSets, Sequences, SequencesExt, TLC, Json

CONSTANTS L,        \* loggers
          A,        \* appenders
          MaxItems, \* items a logger accepts at most
          Order     \* "loggersFirst" | "appendersFirst"

VARIABLES refs,      \* logger -> non-empty set of appenders
          accepted,  \* logger -> items accepted so far
          handed,    \* logger -> items its worker has handed to the appenders
          lstate,    \* logger -> "running" | "stopping" | "stopped"
          astate,    \* appender -> "started" | "stopped"
          got,       \* <<logger, appender>> -> items the appender received while started
          late,      \* items handed to an appender that was already stopped
          backlog,   \* logger -> items queued when Destroy began
          phase      \* "live" | "destroying" | "destroyed"
vars == <<refs, accepted, handed, lstate, astate, got, late, backlog, phase>>

RefTables == { f \in [L -> SUBSET A] : \A l \in L : f[l] # {} }

Init == /\ refs \in RefTables
        /\ accepted = [l \in L |-> 0] /\ handed = [l \in L |-> 0]
        /\ lstate = [l \in L |-> "running"] /\ astate = [a \in A |-> "started"]
        /\ got = [p \in L \X A |-> 0] /\ late = 0
        /\ backlog = [l \in L |-> 0] /\ phase = "live"

\* a log call or a raw write is accepted by the logger's queue
Accept(l) == /\ phase = "live" /\ accepted[l] < MaxItems
             /\ accepted' = [accepted EXCEPT ![l] = @ + 1]
             /\ UNCHANGED <<refs, handed, lstate, astate, got, late, backlog, phase>>
\* the worker hands the next item to every appender of its logger
Hand(l) == /\ lstate[l] # "stopped" /\ handed[l] < accepted[l]
           /\ handed' = [handed EXCEPT ![l] = @ + 1]
           /\ got' = [p \in L \X A |-> IF p[1] = l /\ p[2] \in refs[l] /\ astate[p[2]] = "started" THEN got[p] + 1 ELSE got[p]]
           /\ late' = late + Cardinality({ a \in refs[l] : astate[a] = "stopped" })
           /\ UNCHANGED <<refs, accepted, lstate, astate, backlog, phase>>
BeginDestroy == /\ phase = "live" /\ phase' = "destroying"
                /\ backlog' = [l \in L |-> accepted[l] - handed[l]]
                /\ UNCHANGED <<refs, accepted, handed, lstate, astate, got, late>>
\* Destroy asks a logger to stop (the stop marker goes behind everything accepted) ...
LoggersMayStop == Order = "loggersFirst" \/ \A a \in A : astate[a] = "stopped"
AskStop(l) == /\ phase = "destroying" /\ lstate[l] = "running" /\ LoggersMayStop
              /\ lstate' = [lstate EXCEPT ![l] = "stopping"]
              /\ UNCHANGED <<refs, accepted, handed, astate, got, late, backlog, phase>>
\* ... and the logger is stopped when its worker reaches the marker
Stopped(l) == /\ lstate[l] = "stopping" /\ handed[l] = accepted[l]
              /\ lstate' = [lstate EXCEPT ![l] = "stopped"]
              /\ UNCHANGED <<refs, accepted, handed, astate, got, late, backlog, phase>>
AppendersMayStop == Order = "appendersFirst" \/ \A l \in L : lstate[l] = "stopped"
StopAppender(a) == /\ phase = "destroying" /\ astate[a] = "started" /\ AppendersMayStop
                   /\ astate' = [astate EXCEPT ![a] = "stopped"]
                   /\ UNCHANGED <<refs, accepted, handed, lstate, got, late, backlog, phase>>
Finish == /\ phase = "destroying" /\ \A l \in L : lstate[l] = "stopped" /\ \A a \in A : astate[a] = "stopped"
          /\ phase' = "destroyed"
          /\ UNCHANGED <<refs, accepted, handed, lstate, astate, got, late, backlog>>

Next == (\E l \in L : Accept(l) \/ Hand(l) \/ AskStop(l) \/ Stopped(l)) \/ BeginDestroy
        \/ (\E a \in A : StopAppender(a)) \/ Finish
Spec == Init /\ [][Next]_vars /\ WF_vars(Next)

\* nothing is handed to a stopped appender
NoLateWrite == late = 0
\* after Destroy every appender of a logger holds everything the logger accepted
AllDelivered == phase = "destroyed" => \A l \in L, a \in A : got[<<l, a>>] = IF a \in refs[l] THEN accepted[l] ELSE 0
\* an appender stops only after the loggers that reference it
StopOrder == \A a \in A : astate[a] = "stopped" => \A l \in L : a \in refs[l] => lstate[l] = "stopped"
\* Destroy terminates
Terminates == <>(phase = "destroyed")

LSeq == SetToSortSeq(L, <)
Emit == phase = "destroyed" =>
          PrintT(<<"EMIT", ToJson([refs |-> [i \in 1..Len(LSeq) |-> SetToSortSeq(refs[LSeq[i]], <)],
                                   accepted |-> [i \in 1..Len(LSeq) |-> accepted[LSeq[i]]],
                                   backlog |-> [i \in 1..Len(LSeq) |-> backlog[LSeq[i]]]])>>)
=============================================================================
