CONSTANTS MaxTokens = 9  MaxNest = 3  OnlyValid = FALSE  Small = FALSE
SPECIFICATION Spec
INVARIANTS AcceptHasType AcceptBalanced Emit EmitPrefix
CHECK_DEADLOCK FALSE
