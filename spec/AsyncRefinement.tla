--------------------------- MODULE AsyncRefinement ---------------------------
(***************************************************************************)
(* AsyncLogger.tla refines AbstractFifo.tla: the abstract queue is the     *)
(* item parked at the worker followed by the channel content without the   *)
(* stop marker; items still in a producer's hands are not yet in it.       *)
(***************************************************************************)
EXTENDS AsyncLogger

AllItems == { <<p, k>> : p \in Producers \cup {0}, k \in 0..(MaxItems + Cap + 2) }
NoMarker(s) == SelectSeq(s, LAMBDA x : x # Marker)
AbsQueue == (IF worker = "holding" THEN <<held>> ELSE <<>>) \o NoMarker(buf)

Abs == INSTANCE AbstractFifo WITH Items <- AllItems, aq <- AbsQueue, adel <- delivered, adrop <- dropped
Refines == Abs!ASpec
=============================================================================
