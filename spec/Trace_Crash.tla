----------------------------- MODULE Trace_Crash -----------------------------
(***************************************************************************)
(* Direction B for C20: the system-call log of a child process (strace,    *)
(* write(2) only) is the trace.  Events, in the order the kernel saw them: *)
(*   syswrite id whole   a write on the log target carrying (part of) the  *)
(*                       line of call id; whole = the complete line in one *)
(*                       system call                                       *)
(*   ack id              the child acknowledged call id on the pipe (it    *)
(*                       does so only after the log call returned)         *)
(* The trace form of AckedSurvive of CrashPath.tla: when a call is         *)
(* acknowledged its complete line has already been handed to the kernel    *)
(* by exactly one write - so no crash after the acknowledgement can lose   *)
(* or tear it.                                                             *)
(***************************************************************************)
EXTENDS Naturals, Sequences, FiniteSets, TLC, Json, IOUtils

Trace == ndJsonDeserialize(IOEnv.VERIF_TRACE)

VARIABLES l, kernel, partial, acked, bad
vars == <<l, kernel, partial, acked, bad>>

Init == l = 1 /\ kernel = {} /\ partial = {} /\ acked = {} /\ bad = ""
E == Trace[l]
Flag(c, name) == bad' = IF bad = "" /\ c THEN name ELSE bad

SysWrite == /\ E.ev = "syswrite"
            /\ IF E.whole THEN kernel' = kernel \cup {E.id} /\ partial' = partial
                          ELSE partial' = partial \cup {E.id} /\ kernel' = kernel
            /\ Flag(E.whole /\ E.id \in kernel, "line written twice")
            /\ UNCHANGED acked
Ack == /\ E.ev = "ack"
       /\ Flag(E.id \notin kernel, IF E.id \in partial THEN "acknowledged line was split over several writes"
                                   ELSE "acknowledged before the line reached the kernel")
       /\ acked' = acked \cup {E.id} /\ UNCHANGED <<kernel, partial>>
NewRun == /\ E.ev = "newrun" /\ kernel' = {} /\ partial' = {} /\ acked' = {} /\ bad' = bad   \* next child process

Next == l <= Len(Trace) /\ l' = l + 1 /\ (SysWrite \/ Ack \/ NewRun)
Spec == Init /\ [][Next]_vars

AckedSurvive == acked \subseteq kernel
Report == (bad # "") => PrintT(<<"EMIT", ToJson([line |-> l - 1, rule |-> bad, event |-> Trace[l - 1]])>>)
Conforms == bad = ""
=============================================================================
