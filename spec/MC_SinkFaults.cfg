CONSTANTS MaxOps = 5
SPECIFICATION Spec
INVARIANTS Total Emit
CHECK_DEADLOCK FALSE
