CONSTANTS Cap = 2  Producers = {1, 2}  MaxItems = 2  Policy = "Block"  Kinds = {"ev", "off"}  Prefill = {0, 1, 2}
SPECIFICATION Spec
PROPERTIES ImplementsCounters
INVARIANTS CountersInv
CHECK_DEADLOCK FALSE
