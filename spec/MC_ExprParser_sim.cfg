CONSTANTS MaxTokens = 40  MaxNest = 6  OnlyValid = TRUE
SPECIFICATION Spec
INVARIANTS AcceptHasType AcceptBalanced Emit
CHECK_DEADLOCK FALSE
