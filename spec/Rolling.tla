------------------------------ MODULE Rolling ------------------------------
(***************************************************************************)
(* C13 / C19 / C14 and the descriptor clauses of C05: the time-rotating    *)
(* file appender of go-spring/log.                                         *)
(*                                                                         *)
(* Time is a tick counter; Ivl(t) = t \div TPI is the rotation interval of *)
(* tick t.  A file is named by the tick its creator read from the clock    *)
(* (concretely "<name>.<yyyyMMddHHmmss>").  A write call is modelled one   *)
(* action per segment between two instrumentation points of Write/rotate,  *)
(* so that TLC explores every interleaving of writers with each other,     *)
(* with interval boundaries (Tick), with directory outages (DirDown/DirUp) *)
(* and with Stop/Start, and the replayer can park real goroutines at the   *)
(* same points.                                                            *)
(*                                                                         *)
(* UseLock / Retry select the design:                                      *)
(*   TRUE/TRUE  - rotations are serialised by a mutex after the CAS and a  *)
(*                write that hits a closed file is retried on the current  *)
(*                file (the repaired tree);                                *)
(*   FALSE/FALSE- the pinned tree, on which TLC finds a lost write (writer *)
(*                stalled across two rotations) and a leaked descriptor    *)
(*                (overlapping rotations) - see DESIGN.md.                 *)
(***************************************************************************)
EXTENDS Integers, Sequences, FiniteSets, SequencesExt, FiniteSetsExt, TLC, Json

CONSTANTS Writers,     \* writer goroutines
          MaxWrites,   \* total number of write calls
          MaxTick,     \* clock runs 0..MaxTick
          TPI,         \* ticks per interval
          MaxOutages,  \* directory outages
          MaxRestarts, \* Stop/Start cycles
          UseLock, Retry

Ivl(t) == t \div TPI
NULL == 0

VARIABLES now, dirUp, outages, restarts, running,
          marker,        \* interval the appender believes to be current
          file, oldFile, \* handle ids (NULL = none)
          handles,       \* sequence: handle id -> [name, open]
          dir,           \* name (tick) -> sequence of write ids; DOMAIN = existing files
          lock,          \* writer holding the rotation mutex, or NULL
          pc, wNow, wOld, wNew, wCur, wFile, wId,   \* per writer
          nWrites, acked, lost, wStartTick, wEndTick, createdBy, failedCreates,
          rd, cand, solo, stale,  \* clock reading per write; writes running alone; intervals whose creation failed
          retried,                \* writes that hit a closed file and were retried on the current one
          retried2                \* ... and hit a closed file again on the retry
vars == <<now, dirUp, outages, restarts, running, marker, file, oldFile, handles, dir, lock,
          pc, wNow, wOld, wNew, wCur, wFile, wId, nWrites, acked, lost, wStartTick, wEndTick,
          createdBy, failedCreates, rd, cand, solo, stale, retried, retried2>>

Idle == \A w \in Writers : pc[w] = "idle"
OpenHandles == { h \in DOMAIN handles : handles[h].open }

(* opening a file by name: creates it when absent, appends otherwise *)
OpenFile(name) ==
  /\ handles' = Append(handles, [name |-> name, open |-> TRUE])
  /\ dir' = IF name \in DOMAIN dir THEN dir ELSE [n \in DOMAIN dir \cup {name} |-> IF n = name THEN <<>> ELSE dir[n]]
CloseH(hs, h) == IF h = NULL THEN hs ELSE [hs EXCEPT ![h].open = FALSE]

Init ==
  /\ now = 0 /\ dirUp = TRUE /\ outages = 0 /\ restarts = 0 /\ running = TRUE
  /\ marker = Ivl(0)
  /\ handles = <<[name |-> 0, open |-> TRUE]>> /\ file = 1 /\ oldFile = NULL
  /\ dir = [n \in {0} |-> <<>>]
  /\ lock = NULL
  /\ pc = [w \in Writers |-> "idle"] /\ wNow = [w \in Writers |-> 0] /\ wOld = [w \in Writers |-> 0]
  /\ wNew = [w \in Writers |-> NULL] /\ wCur = [w \in Writers |-> NULL] /\ wFile = [w \in Writers |-> NULL]
  /\ wId = [w \in Writers |-> 0]
  /\ nWrites = 0 /\ acked = {} /\ lost = {}
  /\ wStartTick = <<>> /\ wEndTick = <<>> /\ createdBy = <<>> /\ failedCreates = 0
  /\ rd = [i \in 1..MaxWrites |-> 0] /\ cand = {} /\ solo = {} /\ stale = {} /\ retried = {} /\ retried2 = {}

(******************************* environment *******************************)
Tick == /\ now < MaxTick /\ now' = now + 1
        /\ UNCHANGED <<dirUp, outages, restarts, running, marker, file, oldFile, handles, dir, lock, pc, wNow, wOld,
                       wNew, wCur, wFile, wId, nWrites, acked, lost, wStartTick, wEndTick, createdBy, failedCreates, rd, cand, solo, stale, retried, retried2>>
DirDown == /\ dirUp /\ outages < MaxOutages /\ dirUp' = FALSE /\ outages' = outages + 1
           /\ UNCHANGED <<now, restarts, running, marker, file, oldFile, handles, dir, lock, pc, wNow, wOld, wNew,
                          wCur, wFile, wId, nWrites, acked, lost, wStartTick, wEndTick, createdBy, failedCreates, rd, cand, solo, stale, retried, retried2>>
DirUp == /\ ~dirUp /\ dirUp' = TRUE
         /\ UNCHANGED <<now, outages, restarts, running, marker, file, oldFile, handles, dir, lock, pc, wNow, wOld,
                        wNew, wCur, wFile, wId, nWrites, acked, lost, wStartTick, wEndTick, createdBy, failedCreates, rd, cand, solo, stale, retried, retried2>>
\* Stop / Start only with no write in progress (premise of the properties)
Stop == /\ running /\ Idle /\ restarts < MaxRestarts
        /\ handles' = CloseH(CloseH(handles, oldFile), file)
        /\ oldFile' = NULL /\ file' = NULL /\ running' = FALSE
        /\ UNCHANGED <<now, dirUp, outages, restarts, marker, dir, lock, pc, wNow, wOld, wNew, wCur, wFile, wId,
                       nWrites, acked, lost, wStartTick, wEndTick, createdBy, failedCreates, rd, cand, solo, stale, retried, retried2>>
Start == /\ ~running /\ Idle /\ dirUp
         /\ OpenFile(now) /\ file' = Len(handles) + 1 /\ marker' = Ivl(now)
         /\ running' = TRUE /\ restarts' = restarts + 1
         /\ UNCHANGED <<now, dirUp, outages, oldFile, lock, pc, wNow, wOld, wNew, wCur, wFile, wId, nWrites, acked,
                        lost, wStartTick, wEndTick, createdBy, failedCreates, rd, cand, solo, stale, retried, retried2>>

(********************************* a write *********************************)
Goto(w, l) == pc' = [pc EXCEPT ![w] = l]
\* unchanged helpers
UEnv == UNCHANGED <<now, dirUp, outages, restarts, running>>

Begin(w) ==                      \* idle -> "clock": the call starts
  /\ pc[w] = "idle" /\ running /\ nWrites < MaxWrites
  /\ nWrites' = nWrites + 1 /\ wId' = [wId EXCEPT ![w] = nWrites + 1]
  /\ wStartTick' = Append(wStartTick, now)
  \* a write runs alone if no other call is in progress when it starts and none starts before it returns
  /\ cand' = IF \A v \in Writers : pc[v] = "idle" THEN {nWrites + 1} ELSE {}
  /\ Goto(w, "clock")
  /\ UEnv /\ UNCHANGED <<marker, file, oldFile, handles, dir, lock, wNow, wOld, wNew, wCur, wFile, acked, lost,
                         wEndTick, createdBy, failedCreates, rd, solo, stale, retried, retried2>>

ReadClock(w) ==                  \* "clock" -> p1: now := clock; oldTime := marker
  /\ pc[w] = "clock"
  /\ wNow' = [wNow EXCEPT ![w] = now] /\ wOld' = [wOld EXCEPT ![w] = marker]
  /\ rd' = [rd EXCEPT ![wId[w]] = now]
  /\ Goto(w, "p1")
  /\ UEnv /\ UNCHANGED <<marker, file, oldFile, handles, dir, lock, wNew, wCur, wFile, wId, nWrites, acked, lost,
                         wStartTick, wEndTick, createdBy, failedCreates, cand, solo, stale, retried, retried2>>

CompareAndSwap(w) ==             \* p1 -> p2 (rotation won) | p20 (nothing to do / somebody else rotates)
  /\ pc[w] = "p1"
  /\ IF Ivl(wNow[w]) > wOld[w] /\ marker = wOld[w] /\ (UseLock => lock = NULL)
     THEN marker' = Ivl(wNow[w]) /\ lock' = (IF UseLock THEN w ELSE lock) /\ Goto(w, "p2")
     ELSE marker' = marker /\ lock' = lock /\ Goto(w, "p20")
  /\ UEnv /\ UNCHANGED <<file, oldFile, handles, dir, wNow, wOld, wNew, wCur, wFile, wId, nWrites, acked, lost,
                         wStartTick, wEndTick, createdBy, failedCreates, rd, cand, solo, stale, retried, retried2>>

CloseOlder(w) ==                 \* p2 -> p3: close the file of two rotations ago
  /\ pc[w] = "p2"
  /\ handles' = CloseH(handles, oldFile) /\ oldFile' = NULL
  /\ Goto(w, "p3")
  /\ UEnv /\ UNCHANGED <<marker, file, dir, lock, wNow, wOld, wNew, wCur, wFile, wId, nWrites, acked, lost, wStartTick,
                         wEndTick, createdBy, failedCreates, rd, cand, solo, stale, retried, retried2>>

CreateAndLoad(w) ==              \* p3 -> p4 (created; cur := file) | p20 (creation failed, report, return)
  /\ pc[w] = "p3"
  /\ IF dirUp
     THEN /\ OpenFile(wNow[w])
          /\ wNew' = [wNew EXCEPT ![w] = Len(handles) + 1]
          /\ wCur' = [wCur EXCEPT ![w] = file]
          /\ createdBy' = Append(createdBy, [w |-> wId[w], name |-> wNow[w], readAt |-> wNow[w]])
          /\ Goto(w, "p4") /\ UNCHANGED <<lock, failedCreates, stale>>
     ELSE /\ failedCreates' = failedCreates + 1
          /\ stale' = stale \cup {Ivl(wNow[w])}
          /\ lock' = (IF lock = w THEN NULL ELSE lock)
          /\ Goto(w, "p20") /\ UNCHANGED <<handles, dir, wNew, wCur, createdBy>>
  /\ UEnv /\ UNCHANGED <<marker, file, oldFile, wNow, wOld, wFile, wId, nWrites, acked, lost, wStartTick, wEndTick,
                         rd, cand, solo, retried, retried2>>

PublishOld(w) ==                 \* p4 -> p5
  /\ pc[w] = "p4" /\ oldFile' = wCur[w] /\ Goto(w, "p5")
  /\ UEnv /\ UNCHANGED <<marker, file, handles, dir, lock, wNow, wOld, wNew, wCur, wFile, wId, nWrites, acked, lost,
                         wStartTick, wEndTick, createdBy, failedCreates, rd, cand, solo, stale, retried, retried2>>
PublishNew(w) ==                 \* p5 -> p6
  /\ pc[w] = "p5" /\ file' = wNew[w] /\ Goto(w, "p6")
  /\ UEnv /\ UNCHANGED <<marker, oldFile, handles, dir, lock, wNow, wOld, wNew, wCur, wFile, wId, nWrites, acked, lost,
                         wStartTick, wEndTick, createdBy, failedCreates, rd, cand, solo, stale, retried, retried2>>
PublishTime(w) ==                \* p6 -> p7: the pinned tree stores the marker again (it may move backwards)
  /\ pc[w] = "p6"
  /\ marker' = IF UseLock THEN marker ELSE Ivl(wNow[w])
  /\ Goto(w, "p7")
  /\ UEnv /\ UNCHANGED <<file, oldFile, handles, dir, lock, wNow, wOld, wNew, wCur, wFile, wId, nWrites, acked, lost,
                         wStartTick, wEndTick, createdBy, failedCreates, rd, cand, solo, stale, retried, retried2>>
EndRotate(w) ==                  \* p7 -> p20: unlock, spawn cleanup, return from rotate
  /\ pc[w] = "p7" /\ lock' = (IF lock = w THEN NULL ELSE lock) /\ Goto(w, "p20")
  /\ UEnv /\ UNCHANGED <<marker, file, oldFile, handles, dir, wNow, wOld, wNew, wCur, wFile, wId, nWrites, acked, lost,
                         wStartTick, wEndTick, createdBy, failedCreates, rd, cand, solo, stale, retried, retried2>>

LoadForWrite(w) ==               \* p20 -> p21 | p22 (no file: dropped silently, as after Stop)
  /\ pc[w] = "p20"
  /\ wFile' = [wFile EXCEPT ![w] = file]
  /\ IF file = NULL THEN Goto(w, "p22") /\ lost' = lost \cup {wId[w]}
     ELSE Goto(w, "p21") /\ lost' = lost
  /\ UEnv /\ UNCHANGED <<marker, file, oldFile, handles, dir, lock, wNow, wOld, wNew, wCur, wId, nWrites, acked,
                         wStartTick, wEndTick, createdBy, failedCreates, rd, cand, solo, stale, retried, retried2>>

DoWrite(w) ==                    \* p21 -> p22 (landed, or lost on a closed file) | p21 (retry on the current file)
  /\ pc[w] = "p21"
  /\ LET h == wFile[w] IN
     IF handles[h].open
     THEN /\ dir' = [dir EXCEPT ![handles[h].name] = Append(@, wId[w])]
          /\ Goto(w, "p22") /\ UNCHANGED <<lost, wFile, retried, retried2>>
     ELSE IF Retry
          THEN IF file = NULL
               THEN Goto(w, "p22") /\ lost' = lost \cup {wId[w]} /\ UNCHANGED <<dir, wFile, retried, retried2>>
               ELSE /\ wFile' = [wFile EXCEPT ![w] = file] /\ retried' = retried \cup {wId[w]}
                    /\ retried2' = IF wId[w] \in retried THEN retried2 \cup {wId[w]} ELSE retried2
                    /\ Goto(w, "p21") /\ UNCHANGED <<dir, lost>>
          ELSE Goto(w, "p22") /\ lost' = lost \cup {wId[w]} /\ UNCHANGED <<dir, wFile, retried, retried2>>
  /\ UEnv /\ UNCHANGED <<marker, file, oldFile, handles, lock, wNow, wOld, wNew, wCur, wId, nWrites, acked,
                         wStartTick, wEndTick, createdBy, failedCreates, rd, cand, solo, stale>>

Return(w) ==                     \* p22 -> idle
  /\ pc[w] = "p22"
  /\ acked' = acked \cup {wId[w]} /\ wEndTick' = Append(wEndTick, [id |-> wId[w], at |-> now])
  /\ solo' = IF wId[w] \in cand THEN solo \cup {wId[w]} ELSE solo
  /\ cand' = cand \ {wId[w]}
  /\ Goto(w, "idle")
  /\ UEnv /\ UNCHANGED <<marker, file, oldFile, handles, dir, lock, wNow, wOld, wNew, wCur, wFile, wId, nWrites, lost,
                         wStartTick, createdBy, failedCreates, rd, stale, retried, retried2>>

WriterStep(w) == Begin(w) \/ ReadClock(w) \/ CompareAndSwap(w) \/ CloseOlder(w) \/ CreateAndLoad(w)
                 \/ PublishOld(w) \/ PublishNew(w) \/ PublishTime(w) \/ EndRotate(w)
                 \/ LoadForWrite(w) \/ DoWrite(w) \/ Return(w)
Env == Tick \/ DirDown \/ DirUp \/ Stop \/ Start
Next == (\E w \in Writers : WriterStep(w)) \/ Env
Spec == Init /\ [][Next]_vars

(******************************** properties *******************************)
TypeOK == /\ file \in {NULL} \cup DOMAIN handles /\ oldFile \in {NULL} \cup DOMAIN handles
          /\ lock \in {NULL} \cup Writers
Occurrences(id) == FoldLeft(LAMBDA a, n : a + Cardinality({ i \in DOMAIN dir[n] : dir[n][i] = id }),
                            0, SetToSeq(DOMAIN dir))
\* C13: every returned write is in exactly one file exactly once (writes dropped because the appender
\* was stopped are not "accepted": they only exist when a call starts while running and Stop intervenes,
\* which the environment excludes)
ExactlyOnce == \A id \in acked : Occurrences(id) = 1
NothingLost == lost = {}
NoDuplicateAnywhere == \A id \in 1..nWrites : Occurrences(id) <= 1
\* a file never holds a write that completed before the tick in its name
EndOf(id) == LET S == { i \in DOMAIN wEndTick : wEndTick[i].id = id } IN wEndTick[CHOOSE i \in S : TRUE].at
NotBeforeName == \A n \in DOMAIN dir : \A i \in DOMAIN dir[n] :
                    dir[n][i] \in acked => EndOf(dir[n][i]) >= n
\* C13: issued one at a time, a write after a boundary goes to a file created in the new interval
\* (unless creation for that interval failed: then C19 applies and the previous file keeps being used)
FileOf(id) == CHOOSE n \in DOMAIN dir : \E i \in DOMAIN dir[n] : dir[n][i] = id
SequentialFresh == \A id \in solo :
                     (id \notin lost /\ Ivl(rd[id]) \notin stale) => Ivl(FileOf(id)) = Ivl(rd[id])
\* names are the creator's own clock reading
NameLaw == \A i \in DOMAIN createdBy : createdBy[i].name = createdBy[i].readAt
\* C05: descriptors
FdBound == (running /\ Idle) => Cardinality(OpenHandles) <= 2
FdZeroAfterStop == ~running => OpenHandles = {}
\* the marker never moves backwards
MarkerMonotone == [][marker' >= marker]_vars
\* C19: a failed creation leaves the current file in place
FailKeepsFile == [][ (failedCreates' > failedCreates) => (file' = file /\ dir' = dir) ]_vars
\* no step of a writer is ever disabled except the mutex: calls cannot block for ever because the lock
\* holder always has an enabled step
HolderCanProceed == lock # NULL => ENABLED WriterStep(lock)
NonLockStepsEnabled == \A w \in Writers : (pc[w] \notin {"idle", "p2"}) => ENABLED WriterStep(w)

=============================================================================
