CONSTANTS G = {1, 2}  MaxCalls = 3  WriteThrough = TRUE
SPECIFICATION Spec
INVARIANTS AckedSurvive NoUserBuffer Emit
CHECK_DEADLOCK FALSE
