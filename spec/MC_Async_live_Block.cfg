CONSTANTS Cap = 2  Producers = {1}  MaxItems = 3  Policy = "Block"  Kinds = {"ev"}  Prefill = {2}
SPECIFICATION FairSpec
INVARIANTS TypeOK
PROPERTIES StopTerminates
CHECK_DEADLOCK FALSE
