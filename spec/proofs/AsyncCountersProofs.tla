------------------------- MODULE AsyncCountersProofs -------------------------
(***************************************************************************)
(* TLAPS proof that IndInv of AsyncCounters.tla is inductive, for every    *)
(* capacity and policy (the same obligation Apalache discharges by SMT     *)
(* unrolling; here it is a machine-checked proof).                         *)
(***************************************************************************)
EXTENDS AsyncCounters, TLAPS

ASSUME ConstAssump == Cap \in Nat /\ Cap >= 1 /\ Policy \in {"Block", "Discard", "DiscardOldest"}

THEOREM InitInv == Init => IndInv
  BY ConstAssump DEF Init, IndInv, TypeOK, Conservation, Bounded, PolicyStates, BlockNeverDiscards, StopShape, Pending, Occupied

THEOREM StepInv == IndInv /\ [Next]_vars => IndInv'
<1> SUFFICES ASSUME IndInv, [Next]_vars PROVE IndInv'
  OBVIOUS
<1> USE ConstAssump DEF IndInv, TypeOK, Conservation, Bounded, PolicyStates, BlockNeverDiscards, StopShape, Pending, Occupied, HasSpace
<1>1. CASE Submit
  <2>1. CASE HasSpace  BY <1>1, <2>1, SMTT(60) DEF Submit
  <2>2. CASE ~HasSpace /\ Policy = "Discard"  BY <1>1, <2>2, SMTT(60) DEF Submit
  <2>3. CASE ~HasSpace /\ Policy = "Block"  BY <1>1, <2>3, SMTT(60) DEF Submit
  <2>4. CASE ~HasSpace /\ Policy = "DiscardOldest"  BY <1>1, <2>4, SMTT(60) DEF Submit
  <2> QED BY <2>1, <2>2, <2>3, <2>4
<1>2. CASE Discard   BY <1>2 DEF Discard
<1>3. CASE BlockSend BY <1>3 DEF BlockSend
<1>4. CASE DOTry
  <2>1. CASE HasSpace  BY <1>4, <2>1, SMTT(60) DEF DOTry
  <2>2. CASE ~HasSpace  BY <1>4, <2>2, SMTT(60) DEF DOTry
  <2> QED BY <2>1, <2>2
<1>5. CASE DOPop
  <2>1. CASE qlen > 0  BY <1>5, <2>1, SMTT(60) DEF DOPop
  <2>2. CASE ~(qlen > 0)  BY <1>5, <2>2, SMTT(60) DEF DOPop
  <2> QED BY <2>1, <2>2
<1>6. CASE Take
  <2> DEFINE Rest == <<nFull, nBlock, nTry, nPop, submitted, delivered, discards, stop>>
  <2>0. ~workerStopped /\ holding = 0 /\ UNCHANGED Rest  BY <1>6 DEF Take
  <2>1. CASE markerIn /\ ahead = 0 /\ workerStopped' = TRUE /\ markerIn' = FALSE /\ UNCHANGED <<qlen, holding, ahead>>
        BY <2>0, <2>1, SMTT(120) DEF Rest
  <2>2. CASE qlen > 0 /\ (markerIn => ahead > 0) /\ qlen' = qlen - 1 /\ holding' = 1
             /\ ahead' = (IF markerIn THEN ahead - 1 ELSE ahead) /\ UNCHANGED <<workerStopped, markerIn>>
    <3>1. CASE markerIn
      <4>1. ahead' = ahead - 1 /\ ahead > 0 /\ ahead = qlen /\ stop = "sent"  BY <2>2, <3>1
      <4>2. TypeOK'  BY <2>0, <2>2, <3>1, <4>1 DEF Rest
      <4>3. Conservation'  BY <2>0, <2>2, <3>1, <4>1 DEF Rest
      <4>4. Bounded'  BY <2>0, <2>2, <3>1, <4>1 DEF Rest
      <4>5. PolicyStates' /\ BlockNeverDiscards'  BY <2>0, <2>2, <3>1, <4>1 DEF Rest
      <4>6. StopShape'  BY <2>0, <2>2, <3>1, <4>1 DEF Rest
      <4> QED BY <4>2, <4>3, <4>4, <4>5, <4>6
    <3>2. CASE ~markerIn
      <4>1. ahead' = ahead  BY <2>2, <3>2
      <4> QED BY <2>0, <2>2, <3>2, <4>1, SMTT(120) DEF Rest
    <3> QED BY <3>1, <3>2
  <2> QED BY <1>6, <2>1, <2>2 DEF Take
<1>7. CASE Deliver
  <2>1. TypeOK'  BY <1>7 DEF Deliver
  <2>2. Conservation'  BY <1>7 DEF Deliver
  <2>3. Bounded'  BY <1>7 DEF Deliver
  <2>4. PolicyStates' /\ BlockNeverDiscards'  BY <1>7 DEF Deliver
  <2>5. StopShape'  BY <1>7 DEF Deliver
  <2> QED BY <2>1, <2>2, <2>3, <2>4, <2>5
<1>8. CASE StopSend  BY <1>8 DEF StopSend
<1>9. CASE StopWait  BY <1>9 DEF StopWait
<1>10. CASE UNCHANGED vars BY <1>10 DEF vars
<1> QED BY <1>1, <1>2, <1>3, <1>4, <1>5, <1>6, <1>7, <1>8, <1>9, <1>10 DEF Next

THEOREM Safety == Spec => []IndInv
  BY InitInv, StepInv, PTL DEF Spec

THEOREM FlushedFollows == IndInv => Flushed
  BY ConstAssump DEF IndInv, TypeOK, Conservation, StopShape, Flushed, Pending
=============================================================================
