---------------------------- MODULE AsyncHistory ----------------------------
(***************************************************************************)
(* Direction B for C04 / C05 / C06: the laws of AsyncLogger.tla evaluated  *)
(* by TLC on histories recorded from real multi-producer runs (ndjson, one *)
(* run per line: per-producer submissions in call order, delivery order at *)
(* the appender, the discard counter read right after Stop returned).      *)
(* The operators are the history form of ConservationAtStop, NoDuplicates, *)
(* DisabledIgnored, BlockNeverDiscards and ProducerFIFO.                   *)
(***************************************************************************)
EXTENDS Naturals, Sequences, FiniteSets, SequencesExt, TLC, Json, IOUtils

Runs == ndJsonDeserialize(IOEnv.VERIF_RUNS)

Rng(s) == { s[i] : i \in DOMAIN s }
Producer(id) == id \div 1000000

NoDuplicates(r) == Cardinality(Rng(r.delivered)) = Len(r.delivered)
SubmittedSet(r) == UNION { Rng(r.submitted[p]) : p \in DOMAIN r.submitted }
NSubmitted(r) == FoldLeft(LAMBDA a, s : a + Len(s), 0, r.submitted)
OnlySubmitted(r) == Rng(r.delivered) \subseteq SubmittedSet(r)
DisabledIgnored(r) == Rng(r.delivered) \cap Rng(r.disabled) = {}
ConservationAtStop(r) == Len(r.delivered) + r.discards = NSubmitted(r)
BlockNeverDiscards(r) == r.policy = "Block" => (r.discards = 0 /\ Rng(r.delivered) = SubmittedSet(r))
\* per-producer FIFO: ids of one producer increase in submission order, so delivery must be increasing
FifoFold(r) ==
  FoldLeft(LAMBDA acc, id :
             IF ~acc.ok THEN acc
             ELSE LET p == Producer(id) IN
                  IF id <= acc.last[p] THEN [acc EXCEPT !.ok = FALSE]
                  ELSE [acc EXCEPT !.last[p] = id],
           [ok |-> TRUE, last |-> [p \in 0..(r.producers + 1) |-> 0]],
           r.delivered)
ProducerFIFO(r) == FifoFold(r).ok

RunOK(r) == /\ NoDuplicates(r) /\ OnlySubmitted(r) /\ DisabledIgnored(r)
            /\ ConservationAtStop(r) /\ BlockNeverDiscards(r) /\ ProducerFIFO(r)

VARIABLE i
Init == i = 1
Next == i <= Len(Runs) /\ i' = i + 1
Spec == Init /\ [][Next]_i
\* invariant: the run at the current position satisfies every law
Checked == i <= Len(Runs) => RunOK(Runs[i])
Report == (i <= Len(Runs) /\ ~RunOK(Runs[i])) =>
             PrintT(<<"EMIT", ToJson([bad_run |-> i,
                        nodup |-> NoDuplicates(Runs[i]), only |-> OnlySubmitted(Runs[i]),
                        disabled |-> DisabledIgnored(Runs[i]), conservation |-> ConservationAtStop(Runs[i]),
                        block |-> BlockNeverDiscards(Runs[i]), fifo |-> ProducerFIFO(Runs[i])])>>)
=============================================================================
