CONSTANTS MaxCalls = 7  MaxDepth = 3
SPECIFICATION Spec
INVARIANTS WellFormedJSON TextIsRewrittenJSON TextDepthSane Emit
CHECK_DEADLOCK FALSE
