CONSTANTS MaxHist = 8
SPECIFICATION Spec
INVARIANTS AllTagsExact InvalidNeverRegistered SameObject Emit
CHECK_DEADLOCK FALSE
