-------------------------- MODULE AsyncCountersRef --------------------------
(***************************************************************************)
(* AsyncLogger.tla implements AsyncCounters.tla under the counting mapping:*)
(* every step of the detailed model is a step (or a stuttering step) of    *)
(* the counter abstraction whose inductive invariant Apalache proves for   *)
(* all capacities, producers and item counts.                              *)
(***************************************************************************)
EXTENDS AsyncLogger, Integers

NonMarker == { i \in DOMAIN buf : buf[i] # Marker }
MarkerPos == { i \in DOMAIN buf : buf[i] = Marker }
InState(s) == Cardinality({ p \in Producers : pc[p] = s })

AC == INSTANCE AsyncCounters WITH
        qlen <- Cardinality(NonMarker),
        nFull <- InState("full"), nBlock <- InState("block"), nTry <- InState("dotry"), nPop <- InState("dopop"),
        holding <- IF worker = "holding" THEN 1 ELSE 0,
        submitted <- Cardinality({ y \in Items : Enabled(y) }),
        delivered <- Len(delivered),
        discards <- discards,
        stop <- stop,
        markerIn <- MarkerPos # {},
        ahead <- IF MarkerPos # {} THEN (CHOOSE i \in MarkerPos : TRUE) - 1 ELSE 0,
        workerStopped <- worker = "stopped"

ImplementsCounters == AC!Spec
CountersInv == AC!IndInv
=============================================================================
