CONSTANTS Cap = 100  Producers = {1}  MaxItems = 6  Policy = "DiscardOldest"  Kinds = {"raw"}  Prefill = {98, 99, 100}  MaxOps = 6
SPECIFICATION GenSpec
INVARIANTS TypeOK NoDuplicates Conservation DisabledIgnored BlockNeverDiscards ConservationAtStop ProducerFIFO GenEmit
CHECK_DEADLOCK FALSE
