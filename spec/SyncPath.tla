------------------------------ MODULE SyncPath ------------------------------
(***************************************************************************)
(* C03 - the synchronous path from a log call to a sink, with the two      *)
(* object pools of go-spring/log (events, layout buffers), and a sink that *)
(* consumes a line in several chunks.                                      *)
(*                                                                         *)
(* A goroutine formats its event into a pooled buffer, hands bytes to the  *)
(* sink, and the buffer goes back to the pool.  With CopyOut the bytes     *)
(* handed to the sink are a private copy (the repaired tree); without it   *)
(* they alias the buffer that has already been pooled (the pinned tree),   *)
(* so another goroutine can take and overwrite it while the sink is still  *)
(* reading - TLC finds the mixed line with 2 goroutines and 1 buffer.      *)
(* Buffers whose capacity grew beyond BufferCap are not pooled.            *)
(***************************************************************************)
EXTENDS Naturals, Sequences, FiniteSets, TLC

CONSTANTS G,        \* goroutines
          NBuf,     \* buffers that may exist
          K,        \* chunks the sink reads per line
          MaxEv,    \* events per goroutine
          CopyOut   \* TRUE: ToBytes returns a copy

Bufs == 1..NBuf
NoBuf == 0

VARIABLES pool,      \* free buffers
          made,      \* buffers created so far
          content,   \* buffer -> event id whose line it holds (0 = empty)
          big,       \* buffer -> capacity exceeds BufferCap
          pc, buf, ev, src, chunk, line, nev,
          sink       \* completed lines: sequences of chunk owners
vars == <<pool, made, content, big, pc, buf, ev, src, chunk, line, nev, sink>>

EvId(g, n) == g * 10 + n

Init == /\ pool = {} /\ made = 0 /\ content = [b \in Bufs |-> 0] /\ big = [b \in Bufs |-> FALSE]
        /\ pc = [g \in G |-> "idle"] /\ buf = [g \in G |-> NoBuf] /\ ev = [g \in G |-> 0]
        /\ src = [g \in G |-> NoBuf] /\ chunk = [g \in G |-> 0] /\ line = [g \in G |-> <<>>]
        /\ nev = [g \in G |-> 0] /\ sink = {}

Begin(g) == /\ pc[g] = "idle" /\ nev[g] < MaxEv
            /\ nev' = [nev EXCEPT ![g] = @ + 1] /\ ev' = [ev EXCEPT ![g] = EvId(g, nev[g] + 1)]
            /\ pc' = [pc EXCEPT ![g] = "get"]
            /\ UNCHANGED <<pool, made, content, big, buf, src, chunk, line, sink>>

GetBuffer(g) ==
  /\ pc[g] = "get"
  /\ \/ \E b \in pool : /\ pool' = pool \ {b} /\ buf' = [buf EXCEPT ![g] = b] /\ made' = made
     \/ /\ made < NBuf /\ made' = made + 1 /\ buf' = [buf EXCEPT ![g] = made + 1] /\ pool' = pool
  /\ pc' = [pc EXCEPT ![g] = "format"]
  /\ UNCHANGED <<content, big, ev, src, chunk, line, nev, sink>>

\* formatting may grow the buffer beyond the reuse cap
Format(g, grows) ==
  /\ pc[g] = "format"
  /\ content' = [content EXCEPT ![buf[g]] = ev[g]]
  /\ big' = [big EXCEPT ![buf[g]] = @ \/ grows]
  /\ pc' = [pc EXCEPT ![g] = "release"]
  /\ UNCHANGED <<pool, made, buf, ev, src, chunk, line, nev, sink>>

\* ToBytes returns: the buffer is pooled (unless too big); the sink will read `src`
\* (0 = a private copy holding the caller's own line, otherwise the aliased buffer)
Release(g) ==
  /\ pc[g] = "release"
  /\ pool' = IF big[buf[g]] THEN pool ELSE pool \cup {buf[g]}
  /\ src' = [src EXCEPT ![g] = IF CopyOut THEN NoBuf ELSE buf[g]]
  /\ buf' = [buf EXCEPT ![g] = NoBuf]
  /\ chunk' = [chunk EXCEPT ![g] = 0] /\ line' = [line EXCEPT ![g] = <<>>]
  /\ pc' = [pc EXCEPT ![g] = "write"]
  /\ UNCHANGED <<made, content, big, ev, nev, sink>>

\* the sink consumes one chunk: it sees whatever the source holds now
SinkChunk(g) ==
  /\ pc[g] = "write" /\ chunk[g] < K
  /\ line' = [line EXCEPT ![g] = Append(@, IF src[g] = NoBuf THEN ev[g] ELSE content[src[g]])]
  /\ chunk' = [chunk EXCEPT ![g] = @ + 1]
  /\ UNCHANGED <<pool, made, content, big, pc, buf, ev, src, nev, sink>>

SinkDone(g) ==
  /\ pc[g] = "write" /\ chunk[g] = K
  /\ sink' = sink \cup {[ev |-> ev[g], chunks |-> line[g]]}
  /\ pc' = [pc EXCEPT ![g] = "idle"] /\ src' = [src EXCEPT ![g] = NoBuf]
  /\ UNCHANGED <<pool, made, content, big, buf, ev, chunk, line, nev>>

Next == \E g \in G : Begin(g) \/ GetBuffer(g) \/ (\E x \in BOOLEAN : Format(g, x)) \/ Release(g)
                     \/ SinkChunk(g) \/ SinkDone(g)
Spec == Init /\ [][Next]_vars

(******************************* properties ********************************)
\* a buffer is never in the pool while a goroutine holds it, nor held by two goroutines
PoolDiscipline == /\ \A g \in G : buf[g] # NoBuf => buf[g] \notin pool
                  /\ \A g, h \in G : (g # h /\ buf[g] # NoBuf) => buf[g] # buf[h]
\* no sink read is in flight on memory that is pooled or owned by somebody else
NoAliasedReuse == \A g \in G : (pc[g] = "write" /\ src[g] # NoBuf) =>
                     (src[g] \notin pool /\ \A h \in G : buf[h] # src[g])
\* every line the sink completed is whole and unmixed
WholeLines == \A l \in sink : \A i \in DOMAIN l.chunks : l.chunks[i] = l.ev
\* one line per event
OneLinePerEvent == \A l, m \in sink : l.ev = m.ev => l = m
OverCapNotPooled == \A b \in pool : ~big[b]
=============================================================================
