CONSTANTS Cap = 2  Producers = {1, 2}  MaxItems = 2  Policy = "DiscardOldest"  Kinds = {"ev", "off"}  Prefill = {1, 2}
SPECIFICATION Spec
PROPERTIES Refines
CHECK_DEADLOCK FALSE
