CONSTANTS MaxHist = 4
SPECIFICATION Spec
INVARIANTS AllTagsExact InvalidNeverRegistered SameObject Emit
PROPERTIES PanicChangesNothing
CHECK_DEADLOCK FALSE
