------------------------------ MODULE CamelKey ------------------------------
(***************************************************************************)
(* The key normalisation behind C15's "keys written in camelCase,          *)
(* kebab-case or snake_case are equivalent": a one-pass transducer over    *)
(* character classes                                                       *)
(*   "l" lower-case letter  "U" upper-case letter  "d" digit               *)
(*   "." path separator     "-" "_" word separators    "o" anything else   *)
(* The first character is lower-cased and never treated as a separator; a  *)
(* '.' is kept and lower-cases the next character; '-' and '_' are        *)
(* dropped and upper-case the next character; a pending lower-casing takes *)
(* precedence over a pending upper-casing (which then stays pending).      *)
(* Output tokens: "keep" (unchanged), "lower", "upper" (case forced - a    *)
(* no-op on characters that have no case), nothing for dropped separators. *)
(***************************************************************************)
EXTENDS Naturals, Sequences, FiniteSets, SequencesExt, TLC, Json

CONSTANT MaxLen
Class == {"l", "U", "d", ".", "-", "_", "o"}

VARIABLES s, out, lowerNext, upperNext
vars == <<s, out, lowerNext, upperNext>>

Init == s = <<>> /\ out = <<>> /\ lowerNext = FALSE /\ upperNext = FALSE

Tok(c, how) == [c |-> c, how |-> how]

Feed(c) ==
  /\ Len(s) < MaxLen /\ s' = Append(s, c)
  /\ IF s = <<>>
     THEN /\ out' = <<Tok(c, IF c = "U" THEN "lower" ELSE "keep")>> /\ UNCHANGED <<lowerNext, upperNext>>
     ELSE IF c = "."
     THEN /\ out' = Append(out, Tok(c, "keep")) /\ lowerNext' = TRUE /\ UNCHANGED upperNext
     ELSE IF c \in {"-", "_"}
     THEN /\ upperNext' = TRUE /\ UNCHANGED <<out, lowerNext>>
     ELSE IF lowerNext
     THEN /\ out' = Append(out, Tok(c, IF c = "U" THEN "lower" ELSE "keep"))
          /\ lowerNext' = FALSE /\ UNCHANGED upperNext
     ELSE IF upperNext
     THEN /\ out' = Append(out, Tok(c, IF c = "l" THEN "upper" ELSE "keep"))
          /\ upperNext' = FALSE /\ UNCHANGED lowerNext
     ELSE /\ out' = Append(out, Tok(c, "keep")) /\ UNCHANGED <<lowerNext, upperNext>>
Next == \E c \in Class : Feed(c)
Spec == Init /\ [][Next]_vars

\* class of an output token
OutClass(t) == CASE t.how = "lower" -> "l" [] t.how = "upper" -> "U" [] OTHER -> t.c
OutSeq == [i \in DOMAIN out |-> OutClass(out[i])]
\* the output never holds a word separator except in first position, and never an upper-case letter
\* right after a '.' or in first position
NoSeparatorsLeft == \A i \in DOMAIN out : i > 1 => OutSeq[i] \notin {"-", "_"}
SegmentsStartLower == /\ (Len(out) > 0 => OutSeq[1] # "U")
                      \* (a '.' in first position is copied like any first character and has no such effect)
                      /\ \A i \in 2..(Len(out)-1) : OutSeq[i] = "." => OutSeq[i+1] # "U"
Emit == PrintT(<<"EMIT", ToJson([s |-> s, out |-> out])>>)
=============================================================================
