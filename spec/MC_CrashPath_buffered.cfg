CONSTANTS G = {1, 2}  MaxCalls = 3  WriteThrough = FALSE  D = {1}  Offsets = "append"  PoisonEvery = 0
SPECIFICATION Spec
INVARIANTS AckedSurvive
CHECK_DEADLOCK FALSE
