CONSTANTS G = {1, 2}  MaxCalls = 3  WriteThrough = FALSE  D = {1}  Offsets = "append"
SPECIFICATION Spec
INVARIANTS AckedSurvive
CHECK_DEADLOCK FALSE
