CONSTANTS G = {1, 2}  MaxCalls = 3  WriteThrough = FALSE
SPECIFICATION Spec
INVARIANTS AckedSurvive
CHECK_DEADLOCK FALSE
