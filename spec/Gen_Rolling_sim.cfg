CONSTANTS Writers = {1, 2}  MaxWrites = 6  MaxTick = 12  TPI = 2  MaxOutages = 2  MaxRestarts = 1  UseLock = TRUE  Retry = TRUE
          MaxSteps = 120  Goal = ""
SPECIFICATION GenSpec
INVARIANTS TypeOK SequentialFresh ExactlyOnce NothingLost NoDuplicateAnywhere NotBeforeName NameLaw FdBound FdZeroAfterStop GenEmit
CHECK_DEADLOCK FALSE
