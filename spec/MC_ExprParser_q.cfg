CONSTANTS MaxTokens = 8  MaxNest = 2  OnlyValid = FALSE  Small = FALSE
SPECIFICATION Spec
INVARIANTS AcceptHasType AcceptBalanced Emit EmitPrefix
CHECK_DEADLOCK FALSE
