CONSTANTS Writers = {1, 2}  MaxWrites = 3  MaxTick = 4  TPI = 2  MaxOutages = 0  MaxRestarts = 0  UseLock = FALSE  Retry = FALSE
          Goal = "lost"
SPECIFICATION Spec
INVARIANTS NotGoal
CHECK_DEADLOCK FALSE
