CONSTANTS MaxLen = 5
SPECIFICATION Spec
INVARIANTS Emit
CHECK_DEADLOCK FALSE
