CONSTANTS MaxLen = 5
  Ops = {"RefreshA","RefreshB","RefreshN","Destroy","GetHandle","Write"}
SPECIFICATION Spec
INVARIANTS TypeOK LiveHandlesAreConfigured NoCfgMeansConsole RoutesAsConfigured Emit
PROPERTIES SecondRefreshRejected
CHECK_DEADLOCK FALSE
