CONSTANTS MaxSeq = 3
SPECIFICATION Spec
INVARIANTS HitEqualsMiss DisabledIsEmpty EnabledIsExpected Emit
CHECK_DEADLOCK FALSE
