CONSTANTS MaxEntries = 3
SPECIFICATION Spec
INVARIANTS CleanupExact SecondScanKeeps Emit
CHECK_DEADLOCK FALSE
