CONSTANTS MaxEntries = 3
SPECIFICATION Spec
INVARIANTS CleanupExact Emit
CHECK_DEADLOCK FALSE
