CONSTANTS Alpha = {"a","b"}  MaxSeg = 4  MaxLoggers = 4  MaxPats = 8
SPECIFICATION Spec
INVARIANTS LookupIsServe ExactlyOneServer Emit
CHECK_DEADLOCK FALSE
