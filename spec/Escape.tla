------------------------------- MODULE Escape -------------------------------
(***************************************************************************)
(* C09 - the string escaper of go-spring/log (WriteLogString) as a         *)
(* transducer over byte classes.                                           *)
(*                                                                         *)
(* The byte alphabet is partitioned into the 21 classes on which both the  *)
(* escaping rule and UTF-8 well-formedness (Unicode Table 3-7) are         *)
(* constant.  The transducer consumes 1..4 bytes per step and emits one    *)
(* output token per step; its guards are the *definition* of a well-formed *)
(* UTF-8 sequence, not the library's decoder.  TLC enumerates every class  *)
(* string up to MaxLen (the escaper is memoryless with at most four bytes  *)
(* of look-ahead), checks the output invariants and emits                  *)
(* (input classes, output tokens) for the replayer.                        *)
(***************************************************************************)
EXTENDS Naturals, Sequences, FiniteSets, SequencesExt, TLC, Json

CONSTANTS MaxLen,      \* all class strings up to this length ...
          LongLeads    \* ... plus, when TRUE, those of length MaxLen+1 that start with a 4-byte lead

Ctl   == {"c0"}                       \* 00-08 0B 0C 0E-1F
Short == {"tab", "lf", "cr", "quo", "bsl"}
Ascii == {"asc", "del"}               \* 20-7E without " and \ ; 7F
Cont  == {"80", "90", "a0"}           \* 80-8F 90-9F A0-BF
Lead2 == {"c2"}                       \* C2-DF
Lead3 == {"e0", "e1", "ed", "ee"}     \* E0 E1-EC ED EE-EF
Lead4 == {"f0", "f1", "f4"}           \* F0 F1-F3 F4
Never == {"c0x", "f5"}                \* C0-C1 F5-FF: never part of a well-formed sequence
Class == Ctl \cup Short \cup Ascii \cup Cont \cup Lead2 \cup Lead3 \cup Lead4 \cup Never

ASSUME Cardinality(Class) = 21

(* second-byte ranges of Table 3-7 *)
Second(lead) == CASE lead = "e0" -> {"a0"}
                  [] lead = "ed" -> {"80", "90"}
                  [] lead = "f0" -> {"90", "a0"}
                  [] lead = "f4" -> {"80"}
                  [] OTHER       -> Cont

At(s, i) == IF i <= Len(s) THEN s[i] ELSE "eof"

\* number of bytes of the well-formed sequence starting at position i (0 = none)
WF(s, i) ==
  LET b == At(s, i) IN
  CASE b \in Lead2 /\ At(s, i+1) \in Cont -> 2
    [] b \in Lead3 /\ At(s, i+1) \in Second(b) /\ At(s, i+2) \in Cont -> 3
    [] b \in Lead4 /\ At(s, i+1) \in Second(b) /\ At(s, i+2) \in Cont /\ At(s, i+3) \in Cont -> 4
    [] OTHER -> 0

VARIABLES s,     \* the input (sequence of classes), fixed
          i,     \* next input position
          out    \* output tokens
vars == <<s, i, out>>

Inputs == UNION { [1..n -> Class] : n \in 0..MaxLen }
          \cup (IF LongLeads
                THEN { <<l>> \o t : l \in Lead4, t \in [1..MaxLen -> Class] }
                ELSE {})

Init == s \in Inputs /\ i = 1 /\ out = <<>>

Emit(tok, n) == /\ out' = Append(out, tok) /\ i' = i + n /\ UNCHANGED s

EmitSelf        == i <= Len(s) /\ s[i] \in Ascii /\ Emit([t |-> "self", c |-> <<s[i]>>], 1)
EmitShortEscape == i <= Len(s) /\ s[i] \in Short /\ Emit([t |-> "short", c |-> <<s[i]>>], 1)
EmitU00XX       == i <= Len(s) /\ s[i] \in Ctl   /\ Emit([t |-> "u00", c |-> <<s[i]>>], 1)
EmitRune        == i <= Len(s) /\ WF(s, i) > 0
                   /\ Emit([t |-> "rune", c |-> SubSeq(s, i, i + WF(s, i) - 1)], WF(s, i))
EmitFFFD        == i <= Len(s) /\ s[i] \notin (Ascii \cup Short \cup Ctl) /\ WF(s, i) = 0
                   /\ Emit([t |-> "fffd", c |-> <<s[i]>>], 1)

Next == EmitSelf \/ EmitShortEscape \/ EmitU00XX \/ EmitRune \/ EmitFFFD
Spec == Init /\ [][Next]_vars

Done == i = Len(s) + 1

(********************************* properties ******************************)
TypeOK == i \in 1..(Len(s)+1)
\* totality: the transducer is never stuck before the end of the input, and is deterministic
Total == ~Done => ENABLED Next
Deterministic ==
  Cardinality({a \in {"self","short","u00","rune","fffd"} :
      \/ a = "self"  /\ ENABLED EmitSelf
      \/ a = "short" /\ ENABLED EmitShortEscape
      \/ a = "u00"   /\ ENABLED EmitU00XX
      \/ a = "rune"  /\ ENABLED EmitRune
      \/ a = "fffd"  /\ ENABLED EmitFFFD}) <= 1

\* the bytes an output token puts on the wire, as classes: a raw control byte, quote or backslash can
\* only appear through "self"/"rune" tokens, which never carry one.
RawClasses(tok) == IF tok.t \in {"self", "rune"} THEN ToSet(tok.c) ELSE {}
NoRawControl == \A k \in 1..Len(out) :
                   RawClasses(out[k]) \cap (Ctl \cup Short) = {}
\* valid UTF-8 on the wire: every raw non-ASCII byte is inside a well-formed "rune" token
WireIsUTF8 == \A k \in 1..Len(out) :
                 /\ out[k].t = "self" => out[k].c[1] \in Ascii
                 /\ out[k].t = "rune" => WF(out[k].c, 1) = Len(out[k].c)
\* decoding: the token sequence read back as a JSON string gives the input with one U+FFFD per
\* invalid byte - i.e. the tokens partition the input, one per character/escape, in order.
Consumed(tok) == Len(tok.c)
Partition == LET n == FoldLeft(LAMBDA a, t : a + Consumed(t), 0, out) IN n = i - 1
             /\ FlattenSeq([k \in 1..Len(out) |-> out[k].c]) = SubSeq(s, 1, i - 1)
OneFFFDPerInvalidByte == \A k \in 1..Len(out) : out[k].t = "fffd" => Len(out[k].c) = 1

EmitCase == Done => PrintT(<<"EMIT", ToJson([s |-> s, out |-> out])>>)
=============================================================================
