CONSTANTS MaxTokens = 17  MaxNest = 2  OnlyValid = TRUE  Small = TRUE
SPECIFICATION Spec
INVARIANTS AcceptHasType AcceptBalanced Emit
CHECK_DEADLOCK FALSE
