CONSTANTS Alpha = {"a","b"}  MaxSeg = 3  MaxLoggers = 3  MaxPats = 3
SPECIFICATION Spec
INVARIANTS LookupIsServe ExactlyOneServer Emit
CHECK_DEADLOCK FALSE
