---------------------------- MODULE RollingGoals ----------------------------
(***************************************************************************)
(* Witness generator for Rolling.tla: NotGoal is checked as an invariant,  *)
(* so TLC's counterexample is a shortest behaviour that reaches the goal   *)
(* state; bin/check converts the dumped trace into a replayable history.   *)
(***************************************************************************)
EXTENDS Rolling
CONSTANT Goal

Reached ==
  CASE Goal = "retry"      -> retried \cap acked # {} /\ Idle
    [] Goal = "lost"       -> lost # {} /\ Idle
    [] Goal = "leak"       -> Idle /\ running /\ Cardinality(OpenHandles) > 2
    [] Goal = "backwards"  -> \E w \in Writers : pc[w] = "p7" /\ Ivl(wNow[w]) < marker
    [] Goal = "failcreate" -> failedCreates > 0 /\ Idle /\ nWrites = MaxWrites /\ Cardinality(DOMAIN dir) >= 2
    [] Goal = "contend"    -> \E w, v \in Writers : w # v /\ pc[w] \in {"p2","p3","p4","p5","p6","p7"} /\ pc[v] = "p20"
                                                    /\ Ivl(wNow[v]) > wOld[v]
    [] Goal = "threefiles" -> Cardinality(DOMAIN dir) >= 3 /\ Idle /\ nWrites = MaxWrites
    [] Goal = "restart"    -> restarts > 0 /\ Idle /\ nWrites = MaxWrites /\ running
    [] Goal = "stalewrite" -> \E w \in Writers : pc[w] = "p22" /\ wFile[w] # NULL /\ wFile[w] # file /\ wId[w] \notin lost
    [] OTHER -> FALSE
NotGoal == ~Reached
=============================================================================
