---------------------------- MODULE RollingGoals ----------------------------
(***************************************************************************)
(* Witness generator for Rolling.tla: NotGoal is checked as an invariant,  *)
(* so TLC's counterexample is a shortest behaviour that reaches the goal   *)
(* state; bin/check converts the dumped trace into a replayable history.   *)
(***************************************************************************)
EXTENDS Rolling
CONSTANT Goal

Reached ==
  CASE Goal = "retry"      -> retried \cap acked # {} /\ Idle
    [] Goal = "retry2"     -> retried2 \cap acked # {} /\ Idle     \* one write outlived two pairs of rotations
    [] Goal = "lost"       -> lost # {} /\ Idle
    [] Goal = "leak"       -> Idle /\ running /\ Cardinality(OpenHandles) > 2
    [] Goal = "backwards"  -> \E w \in Writers : pc[w] = "p7" /\ Ivl(wNow[w]) < marker
    [] Goal = "failcreate" -> failedCreates > 0 /\ Idle /\ nWrites = MaxWrites /\ Cardinality(DOMAIN dir) >= 2
    [] Goal = "contend"    -> \E w, v \in Writers : w # v /\ pc[w] \in {"p2","p3","p4","p5","p6","p7"} /\ pc[v] = "p20"
                                                    /\ Ivl(wNow[v]) > wOld[v]
    [] Goal = "threefiles" -> Cardinality(DOMAIN dir) >= 3 /\ Idle /\ nWrites = MaxWrites
    [] Goal = "restart"    -> restarts > 0 /\ Idle /\ nWrites = MaxWrites /\ running
    [] Goal = "stalewrite" -> \E w \in Writers : pc[w] = "p22" /\ wFile[w] # NULL /\ wFile[w] # file /\ wId[w] \notin lost
    [] OTHER -> FALSE
NotGoal == ~Reached
\* deep goals are searched along one lane of the interleaving space (a CONSTRAINT, so only the search is narrowed -
\* whatever is found is still a behaviour of Rolling.tla): everybody but writer 2 moves only while writer 2 is parked
\* between loading the file and writing to it
Lane == Goal = "retry2" =>
          /\ \A w \in Writers : (w # 2 /\ pc[w] # "idle") => (pc[2] = "p21" /\ now % TPI = 0)
          /\ (nWrites > 0 => wId[2] = 1)              \* writer 2 issues the first write and holds it
          /\ (pc[2] \notin {"p21", "idle"} => now = 0 \/ now = MaxTick)
=============================================================================
