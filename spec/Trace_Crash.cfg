SPECIFICATION Spec
INVARIANTS Report Conforms AckedSurvive
CHECK_DEADLOCK FALSE
