----------------------------- MODULE SinkFaults -----------------------------
(***************************************************************************)
(* C19, second sentence: I/O failures of any appender never surface as a   *)
(* panic or a blocked log call.  For each appender kind the target can be  *)
(* healthy, closed, failing (every write returns an error) or missing      *)
(* (directory absent when Start runs).  Every operation is total: Start    *)
(* returns ok or an error; Append / Write / Stop return.  What reaches the  *)
(* target is only specified while it is healthy.                           *)
(***************************************************************************)
EXTENDS Naturals, Sequences, TLC, Json

CONSTANT MaxOps
Kinds   == {"file", "console", "rolling"}
Targets == {"ok", "failing", "missing"}

VARIABLES kind, target, t0, started, hist, delivered
vars == <<kind, target, t0, started, hist, delivered>>

\* a console stream can fail and recover at any time; a file target is failing from the start (a device
\* that rejects every write, for the rolling appender: the file it opens for the current interval is such a device)
Init == /\ kind \in Kinds /\ target \in (CASE kind = "console" -> {"ok", "failing"}
                                            [] OTHER -> Targets)
        /\ t0 = target /\ started = FALSE /\ hist = <<>> /\ delivered = 0

Rec(op, res) == hist' = Append(hist, [op |-> op, res |-> res, del |-> delivered'])

Start == /\ ~started
         /\ IF target = "missing" /\ kind # "console"
            THEN UNCHANGED <<started, delivered>> /\ Rec("start", "error")
            ELSE started' = TRUE /\ UNCHANGED delivered /\ Rec("start", "ok")
         /\ UNCHANGED <<kind, target, t0>>
\* an event or raw bytes handed to the appender: always returns; lands iff started and healthy
\* (the console appender needs no Start: it writes to the process-wide stream)
Put(op) == /\ delivered' = IF (started \/ kind = "console") /\ target = "ok" THEN delivered + 1 ELSE delivered
           /\ Rec(op, "returns") /\ UNCHANGED <<kind, target, t0, started>>
Stop == /\ started' = FALSE /\ UNCHANGED <<kind, target, t0, delivered>> /\ Rec("stop", "returns")
\* the environment breaks / repairs the target while the appender is running
Break == /\ kind = "console" /\ target = "ok" /\ target' = "failing" /\ UNCHANGED <<kind, t0, started, delivered>> /\ Rec("break", "env")
Repair == /\ kind = "console" /\ target = "failing" /\ target' = "ok" /\ UNCHANGED <<kind, t0, started, delivered>> /\ Rec("repair", "env")

Next == /\ Len(hist) < MaxOps
        /\ (Start \/ Put("append") \/ Put("write") \/ Stop \/ Break \/ Repair)
Spec == Init /\ [][Next]_vars

Total == \A i \in DOMAIN hist : hist[i].res \in {"ok", "error", "returns", "env"}    \* "panic"/"blocked" are not results
Emit == (Len(hist) = MaxOps) => PrintT(<<"EMIT", ToJson([kind |-> kind, target0 |-> t0, hist |-> hist])>>)
=============================================================================
