----------------------------- MODULE Retention -----------------------------
(***************************************************************************)
(* C14 - the retention scan of the rolling file appender.                  *)
(*                                                                         *)
(* A directory population is a set of entries; an entry has a name class,  *)
(* a kind (regular file / directory) and an age relative to the cut-off    *)
(* now - maxAge hours.  Own(e) is the statement of the property: the name  *)
(* is "<name>." followed by exactly 14 digits.  Cleanup removes exactly    *)
(* the own, regular, expired entries; everything else survives.            *)
(***************************************************************************)
EXTENDS Naturals, FiniteSets, Sequences, SequencesExt, TLC, Json

CONSTANTS MaxEntries

NameClasses == {"own", "own2", "wf", "audit", "bak", "gz", "d13", "d15", "prefixx", "unrelated", "alnum",
                "emptysuffix", "dotted", "dashdate", "commav", "bare", "dotsub", "insub", "fracdot", "fraccomma"}
\* own / own2: <name>.<14 digits> (two different timestamps); wf: <name>.wf.<14 digits>;
\* audit: <name>.audit.<14 digits>; bak: <name>.bak; gz: <name>.1.gz; d13 / d15: 13 / 15 digits;
\* prefixx: <name>x.<14 digits>; unrelated: other.txt; alnum: 13 digits and a letter;
\* emptysuffix: "<name>."; dotted: <name>.<14 digits>.gz; dashdate: <name>-20240101; commav: <name>,v;
\* bare: <name> itself (these three sort before "<name>." in a directory listing);
\* dotsub: <name> with its dots replaced by another character, then .<14 digits> (a sibling appender's files);
\* insub: <name>.<14 digits> inside a sub-directory of the log directory;
\* fracdot / fraccomma: <name>.<14 digits>.123 / <name>.<14 digits>,5 (what a lenient time parser reads as a fraction)
OwnClass(c) == c \in {"own", "own2"}
Kinds == {"file", "dir"}
Ages  == {"older", "younger",
          "future",      \* modification time ahead of this machine's clock (file server clock, clock stepped back)
          "rewritten"}   \* young at the first scan, written again afterwards; the second scan runs when its first
                         \* modification time has fallen behind the cut-off - it is still young
Entry == [name : NameClasses, kind : Kinds, age : Ages]

Removed(e) == OwnClass(e.name) /\ e.kind = "file" /\ e.age = "older"

VARIABLES pop, phase, survivors, survivors2
vars == <<pop, phase, survivors, survivors2>>

\* populations are built one entry at a time; two entries cannot share a name
Init == pop = {} /\ phase = "build" /\ survivors = {} /\ survivors2 = {}
Add(e) == /\ phase = "build" /\ Cardinality(pop) < MaxEntries
          /\ \A x \in pop : x.name # e.name
          /\ (e.age \in {"rewritten", "future"} => OwnClass(e.name) /\ e.kind = "file")     \* only there does the age matter
          /\ pop' = pop \cup {e} /\ UNCHANGED <<phase, survivors, survivors2>>
Cleanup == /\ phase = "build" /\ pop # {}
           /\ survivors' = { e \in pop : ~Removed(e) } /\ phase' = "cleaned" /\ UNCHANGED <<pop, survivors2>>
\* a later scan by the same appender: nothing new has expired (rewritten files were written again)
Cleanup2 == /\ phase = "cleaned" /\ \E e \in pop : e.age = "rewritten"
            /\ survivors2' = { e \in survivors : ~Removed(e) } /\ phase' = "cleaned2" /\ UNCHANGED <<pop, survivors>>
Next == (\E e \in Entry : Add(e)) \/ Cleanup \/ Cleanup2
Spec == Init /\ [][Next]_vars

SecondScanKeeps == phase = "cleaned2" => survivors2 = survivors
CleanupExact == phase \in {"cleaned", "cleaned2"} =>
   /\ \A e \in pop : (e \in survivors) = ~(OwnClass(e.name) /\ e.kind = "file" /\ e.age = "older")
   /\ \A e \in pop : e.kind = "dir" => e \in survivors                 \* never sub-directories
   /\ \A e \in pop : e.age \in {"younger", "future", "rewritten"} => e \in survivors   \* never files younger than the maximum age
   /\ \A e \in pop : ~OwnClass(e.name) => e \in survivors              \* never files that merely share the prefix
\* a population with rewritten entries is emitted once, after its second scan
Emit == ((phase = "cleaned" /\ \A e \in pop : e.age # "rewritten") \/ phase = "cleaned2") =>
          PrintT(<<"EMIT", ToJson([pop |-> SetToSeq(pop), survivors |-> SetToSeq(survivors), twoscans |-> phase = "cleaned2"])>>)
=============================================================================
