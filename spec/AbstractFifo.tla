---------------------------- MODULE AbstractFifo ----------------------------
(***************************************************************************)
(* What an asynchronous logger is, abstractly: a FIFO of accepted items    *)
(* that may lose items - an arriving one (Reject) or one already queued    *)
(* (Lose) - and hands the others to the appenders in queue order.          *)
(* AsyncLogger.tla refines this specification under the mapping given in   *)
(* AsyncRefinement.tla; TLC checks the refinement on the small configs.    *)
(***************************************************************************)
EXTENDS Naturals, Sequences, FiniteSets

CONSTANT Items
VARIABLES aq, adel, adrop
avars == <<aq, adel, adrop>>

InQueue == { aq[i] : i \in DOMAIN aq }
Delivered == { adel[i] : i \in DOMAIN adel }
Fresh(x) == x \notin InQueue /\ x \notin Delivered /\ x \notin adrop

Enq(x)    == Fresh(x) /\ aq' = Append(aq, x) /\ UNCHANGED <<adel, adrop>>
Reject(x) == Fresh(x) /\ adrop' = adrop \cup {x} /\ UNCHANGED <<aq, adel>>
Lose(i)   == /\ i \in DOMAIN aq
             /\ aq' = [j \in 1..(Len(aq)-1) |-> IF j < i THEN aq[j] ELSE aq[j+1]]
             /\ adrop' = adrop \cup {aq[i]} /\ UNCHANGED adel
Deq       == aq # <<>> /\ adel' = Append(adel, Head(aq)) /\ aq' = Tail(aq) /\ UNCHANGED adrop

ANext == (\E x \in Items : Enq(x) \/ Reject(x)) \/ (\E i \in DOMAIN aq : Lose(i)) \/ Deq
\* the initial queue content is arbitrary (pre-filled items)
AInit == adel = <<>> /\ adrop = {} /\ \A i, j \in DOMAIN aq : aq[i] = aq[j] => i = j
ASpec == AInit /\ [][ANext]_avars
=============================================================================
