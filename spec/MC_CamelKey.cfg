CONSTANTS MaxLen = 5
SPECIFICATION Spec
INVARIANTS NoSeparatorsLeft SegmentsStartLower Emit
CHECK_DEADLOCK FALSE
