------------------------------ MODULE CrashPath ------------------------------
(***************************************************************************)
(* C20 - synchronous file logging is write-through.                        *)
(*                                                                         *)
(* Each goroutine g issues calls (g,1), (g,2), ...; a call formats its     *)
(* line, the appender hands it to the operating system (SysWrite: the line *)
(* is in `kernel`, it survives the process) and the call returns (the line *)
(* is `acked` to the caller).  With WriteThrough = FALSE the appender      *)
(* first collects lines in a user-space buffer that is flushed later - the *)
(* design the property forbids; it is kept so that TLC demonstrates the    *)
(* invariant is not vacuous.  Crash (SIGKILL or os.Exit) may strike in     *)
(* every state: it stops all goroutines and discards user-space buffers.   *)
(*                                                                         *)
(* The target is a file: a sequence of records.  A logger may hold several *)
(* appenders (descriptors D) on the same file; a call writes its line      *)
(* through each of them before it returns.  With Offsets = "append" every  *)
(* write lands at the current end of the file (O_APPEND); with "private"   *)
(* each descriptor keeps its own offset, positioned at the end when it was *)
(* opened - the second forbidden design: a later write through another     *)
(* descriptor overwrites an acknowledged line ("... and stays there").     *)
(***************************************************************************)
EXTENDS Naturals, Sequences, FiniteSets, TLC, Json

CONSTANTS G, MaxCalls, WriteThrough,
          D,          \* descriptors (appenders) on the one target file
          Offsets,    \* "append" | "private"
          PoisonEvery \* every PoisonEvery-th call of a goroutine carries a value that cannot be encoded (0: none)

VARIABLES pc, n, todo, userBuf, file, off, acked, crashed, how
vars == <<pc, n, todo, userBuf, file, off, acked, crashed, how>>

\* what survives the process: the records in the file, <<descriptor, line>>
kernel == { file[i] : i \in DOMAIN file }

Line(g) == <<g, n[g]>>
\* calls <<g, i>> whose fields cannot be encoded: formatting panics in the caller
Unencodable == IF PoisonEvery = 0 THEN {} ELSE { <<g, i>> : g \in G, i \in { j \in 1..MaxCalls : j % PoisonEvery = 0 } }

Init == /\ pc = [g \in G |-> "idle"] /\ n = [g \in G |-> 0]
        /\ todo = [g \in G |-> {}] /\ file = <<>> /\ off = [d \in D |-> 1]
        /\ userBuf = <<>> /\ acked = {} /\ crashed = FALSE /\ how = "none"

Call(g) == /\ ~crashed /\ pc[g] = "idle" /\ n[g] < MaxCalls /\ <<g, n[g] + 1>> \notin Unencodable
           /\ n' = [n EXCEPT ![g] = @ + 1] /\ pc' = [pc EXCEPT ![g] = "formatted"]
           /\ todo' = [todo EXCEPT ![g] = D]
           /\ UNCHANGED <<userBuf, file, off, acked, crashed, how>>
\* a call that cannot be encoded panics while formatting: nothing is written, and nothing is acknowledged -
\* the caller sees the panic, not a return (a design that swallowed the panic would acknowledge a line that is nowhere)
Panic(g) == /\ ~crashed /\ pc[g] = "idle" /\ n[g] < MaxCalls /\ <<g, n[g] + 1>> \in Unencodable
            /\ n' = [n EXCEPT ![g] = @ + 1]
            /\ UNCHANGED <<pc, todo, userBuf, file, off, acked, crashed, how>>
\* the record rec written through descriptor d: at the end of the file, or at d's private offset
Put(f, d, rec) == IF Offsets = "append" \/ off[d] > Len(f) THEN Append(f, rec)
                  ELSE [f EXCEPT ![off[d]] = rec]
\* one write(2) carrying the complete line, through one of the call's descriptors
SysWrite(g, d) == /\ ~crashed /\ pc[g] = "formatted" /\ WriteThrough /\ d \in todo[g]
                  /\ file' = Put(file, d, <<d, Line(g)>>)
                  /\ off' = IF Offsets = "append" THEN off ELSE [off EXCEPT ![d] = @ + 1]
                  /\ todo' = [todo EXCEPT ![g] = @ \ {d}]
                  /\ pc' = [pc EXCEPT ![g] = IF todo[g] = {d} THEN "written" ELSE "formatted"]
                  /\ UNCHANGED <<n, userBuf, acked, crashed, how>>
BufWrite(g) == /\ ~crashed /\ pc[g] = "formatted" /\ ~WriteThrough
               /\ userBuf' = userBuf \o [i \in 1..Cardinality(D) |-> <<i, Line(g)>>]
               /\ pc' = [pc EXCEPT ![g] = "written"] /\ todo' = [todo EXCEPT ![g] = {}]
               /\ UNCHANGED <<n, file, off, acked, crashed, how>>
Flush == /\ ~crashed /\ userBuf # <<>>
         /\ file' = file \o userBuf /\ userBuf' = <<>>
         /\ UNCHANGED <<pc, n, todo, off, acked, crashed, how>>
LogReturn(g) == /\ ~crashed /\ pc[g] = "written"
                /\ acked' = acked \cup {Line(g)} /\ pc' = [pc EXCEPT ![g] = "idle"]
                /\ UNCHANGED <<n, todo, userBuf, file, off, crashed, how>>
Crash(h) == /\ ~crashed /\ crashed' = TRUE /\ how' = h /\ userBuf' = <<>>
            /\ UNCHANGED <<pc, n, todo, file, off, acked>>

Next == (\E g \in G : Call(g) \/ Panic(g) \/ (\E d \in D : SysWrite(g, d)) \/ BufWrite(g) \/ LogReturn(g)) \/ Flush
        \/ (\E h \in {"kill", "exit"} : Crash(h))
Spec == Init /\ [][Next]_vars
\* in append mode the order of the records plays no role: states are identified up to it
View == <<pc, n, todo, userBuf, IF Offsets = "append" THEN kernel ELSE file, off, acked, crashed, how>>

\* every acknowledged line is in the target, at all times - hence also after a crash
\* (one copy per descriptor of the logger)
AckedSurvive == \A x \in acked, d \in D : <<d, x>> \in kernel
NoUserBuffer == WriteThrough => userBuf = <<>>
NeverAckedUnencodable == acked \cap Unencodable = {}
\* crash placements for the replayer: number of acknowledged calls at the crash, and the kind of crash
Emit == crashed => PrintT(<<"EMIT", ToJson([goroutines |-> Cardinality(G), calls |-> MaxCalls,
                                            k |-> Cardinality(acked), how |-> how, twin |-> Cardinality(D) > 1,
                                                                                        poison |-> PoisonEvery])>>)
=============================================================================
