------------------------------ MODULE CrashPath ------------------------------
(***************************************************************************)
(* C20 - synchronous file logging is write-through.                        *)
(*                                                                         *)
(* Each goroutine g issues calls (g,1), (g,2), ...; a call formats its     *)
(* line, the appender hands it to the operating system (SysWrite: the line *)
(* is in `kernel`, it survives the process) and the call returns (the line *)
(* is `acked` to the caller).  With WriteThrough = FALSE the appender      *)
(* first collects lines in a user-space buffer that is flushed later - the *)
(* design the property forbids; it is kept so that TLC demonstrates the    *)
(* invariant is not vacuous.  Crash (SIGKILL or os.Exit) may strike in     *)
(* every state: it stops all goroutines and discards user-space buffers.   *)
(***************************************************************************)
EXTENDS Naturals, Sequences, FiniteSets, TLC, Json

CONSTANTS G, MaxCalls, WriteThrough

VARIABLES pc, n, userBuf, kernel, acked, crashed, how
vars == <<pc, n, userBuf, kernel, acked, crashed, how>>

Line(g) == <<g, n[g]>>

Init == /\ pc = [g \in G |-> "idle"] /\ n = [g \in G |-> 0]
        /\ userBuf = <<>> /\ kernel = {} /\ acked = {} /\ crashed = FALSE /\ how = "none"

Call(g) == /\ ~crashed /\ pc[g] = "idle" /\ n[g] < MaxCalls
           /\ n' = [n EXCEPT ![g] = @ + 1] /\ pc' = [pc EXCEPT ![g] = "formatted"]
           /\ UNCHANGED <<userBuf, kernel, acked, crashed, how>>
\* one write(2) carrying the complete line
SysWrite(g) == /\ ~crashed /\ pc[g] = "formatted" /\ WriteThrough
               /\ kernel' = kernel \cup {Line(g)} /\ pc' = [pc EXCEPT ![g] = "written"]
               /\ UNCHANGED <<n, userBuf, acked, crashed, how>>
BufWrite(g) == /\ ~crashed /\ pc[g] = "formatted" /\ ~WriteThrough
               /\ userBuf' = Append(userBuf, Line(g)) /\ pc' = [pc EXCEPT ![g] = "written"]
               /\ UNCHANGED <<n, kernel, acked, crashed, how>>
Flush == /\ ~crashed /\ userBuf # <<>>
         /\ kernel' = kernel \cup {userBuf[i] : i \in DOMAIN userBuf} /\ userBuf' = <<>>
         /\ UNCHANGED <<pc, n, acked, crashed, how>>
LogReturn(g) == /\ ~crashed /\ pc[g] = "written"
                /\ acked' = acked \cup {Line(g)} /\ pc' = [pc EXCEPT ![g] = "idle"]
                /\ UNCHANGED <<n, userBuf, kernel, crashed, how>>
Crash(h) == /\ ~crashed /\ crashed' = TRUE /\ how' = h /\ userBuf' = <<>>
            /\ UNCHANGED <<pc, n, kernel, acked>>

Next == (\E g \in G : Call(g) \/ SysWrite(g) \/ BufWrite(g) \/ LogReturn(g)) \/ Flush
        \/ (\E h \in {"kill", "exit"} : Crash(h))
Spec == Init /\ [][Next]_vars

\* every acknowledged line is in the target, at all times - hence also after a crash
AckedSurvive == acked \subseteq kernel
NoUserBuffer == WriteThrough => userBuf = <<>>
\* crash placements for the replayer: number of acknowledged calls at the crash, and the kind of crash
Emit == crashed => PrintT(<<"EMIT", ToJson([goroutines |-> Cardinality(G), calls |-> MaxCalls,
                                            k |-> Cardinality(acked), how |-> how])>>)
=============================================================================
