SPECIFICATION Spec
INVARIANTS Report Conforms
CHECK_DEADLOCK FALSE
