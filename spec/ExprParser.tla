----------------------------- MODULE ExprParser -----------------------------
(***************************************************************************)
(* C17 - the configuration-expression parser of go-spring/log at token     *)
(* level: a pushdown recogniser for                                        *)
(*    root      : expr EOF                                                 *)
(*    expr      : IDENT '{' ( inner (',' inner)* ','? )? '}'               *)
(*    inner     : path '=' value                                           *)
(*    path      : IDENT ( '.' IDENT | '[' INTEGER ']' )*                   *)
(*    value     : IDENT | STRING | INTEGER | FLOAT | expr                  *)
(* together with the flattening semantics as state: on entering an         *)
(* expression "<prefix>.type" is set to its type name, then every          *)
(* path = value assigns "<prefix>.<path text>" the value text, in document *)
(* order, so later assignments win.                                        *)
(*                                                                         *)
(* TLC grows every token string one token at a time: a token the grammar   *)
(* admits extends the string, any other token ends it with verdict         *)
(* "reject" (so every viable prefix is followed by every wrong token once);*)
(* a string that closes the outermost expression gets verdict "accept"     *)
(* with the result map.  Every such string is emitted for the replayer.    *)
(***************************************************************************)
EXTENDS Naturals, Sequences, FiniteSets, SequencesExt, TLC, Json

CONSTANTS MaxTokens, MaxNest,
          OnlyValid,   \* TRUE: grow viable strings only (used with -simulate for long expressions)
          Small        \* TRUE: a reduced alphabet (one field name, one type, one scalar kind, no indices), with which
                       \*       all viable strings of twice the length can be enumerated - long enough for a nested
                       \*       block followed by a dotted path into it

Idents   == IF Small THEN {"a"} ELSE {"a", "b", "type"}  \* field names; a field may itself be called "type" and then competes with the implicit key
Types    == IF Small THEN {"T"} ELSE {"T", "U"}          \* type names (identifiers too)
Scalars  == IF Small THEN {"INTEGER"} ELSE {"STRING", "INTEGER", "FLOAT"}
Punct    == IF Small THEN {"{", "}", ",", "=", "."} ELSE {"{", "}", ",", "=", ".", "[", "]"}
\* a token is [k |-> kind, t |-> text]; IDENT texts range over Idents \cup Types
Tokens   == { [k |-> "IDENT", t |-> x] : x \in Idents \cup Types }
            \cup { [k |-> s, t |-> s] : s \in Scalars }
            \cup { [k |-> p, t |-> p] : p \in Punct }
            \cup (IF Small THEN { [k |-> "INTEGER", t |-> "I2"] }     \* a second integer text (values must differ to tell which assignment won)
                  ELSE { [k |-> "INTEGER", t |-> "IDX"] })            \* ... used inside [ ]

VARIABLES toks,     \* token string so far
          st,       \* parser state
          stack,    \* prefixes of the enclosing expressions (innermost last)
          path,     \* path text being read (sequence of token texts)
          pendId,   \* identifier read as a value, which may still turn out to start a nested expression
          result,   \* sequence of <<key, value>> assignments in document order
          verdict   \* "" | "accept" | "reject"
vars == <<toks, st, stack, path, pendId, result, verdict>>

\* keys are sequences of token positions (1-based, so that the replayer concretises exactly the occurrence
\* that was read); 0 stands for the literal "type" and DOT for a "." inserted between prefix and path
DOT == 1000
Join(p, k) == IF p = <<>> THEN k ELSE p \o <<DOT>> \o k
Prefix == IF stack = <<>> THEN <<>> ELSE stack[Len(stack)]

Init == toks = <<>> /\ st = "type" /\ stack = <<>> /\ path = <<>> /\ pendId = 0 /\ result = <<>> /\ verdict = ""
Here == Len(toks) + 1      \* position of the token being consumed

\* which token kinds the grammar admits in each state
Admits(s, tk) ==
  CASE s = "type"    -> tk.k = "IDENT"                                 \* the outermost type name
    [] s = "open"    -> tk.k = "{"
    [] s = "member"  -> tk.k \in {"IDENT", "}"}                        \* after '{' or ','
    [] s = "path"    -> tk.k \in {".", "[", "="}
    [] s = "dot"     -> tk.k = "IDENT"
    [] s = "index"   -> tk.k = "INTEGER"
    [] s = "close]"  -> tk.k = "]"
    [] s = "value"   -> tk.k \in {"IDENT"} \cup Scalars
    [] s = "afterId" -> tk.k \in {"{", ",", "}"}                       \* IDENT value, or a nested expression begins
    [] s = "after"   -> tk.k \in {",", "}"}
    [] OTHER         -> FALSE                                          \* "done": only EOF

Assign(k, v) == result' = Append(result, <<k, v>>)

Step(tk) ==
  /\ verdict = "" /\ Len(toks) < MaxTokens
  /\ toks' = Append(toks, tk)
  /\ ~(tk.k = "{" /\ st = "afterId" /\ Len(stack) >= MaxNest)         \* nesting bound of the enumeration
  /\ (OnlyValid => Admits(st, tk))
  /\ IF ~Admits(st, tk)
     THEN /\ verdict' = "reject"
          /\ UNCHANGED <<st, stack, path, pendId, result>>
     ELSE
       CASE st = "type" ->
              /\ st' = "open" /\ pendId' = Here /\ UNCHANGED <<stack, path, result, verdict>>
         [] st = "open" ->        \* entering the outermost expression: "type" := its name
              /\ stack' = <<<<>>>> /\ Assign(<<0>>, pendId) /\ st' = "member" /\ pendId' = 0
              /\ UNCHANGED <<path, verdict>>
         [] st = "member" /\ tk.k = "IDENT" ->
              /\ path' = <<Here>> /\ st' = "path" /\ UNCHANGED <<stack, pendId, result, verdict>>
         [] st \in {"member", "after", "afterId"} /\ tk.k = "}" ->
              \* a pending identifier value is assigned before the expression closes
              /\ IF st = "afterId" THEN Assign(Join(Prefix, path), pendId) ELSE UNCHANGED result
              /\ stack' = Front(stack) /\ pendId' = 0 /\ path' = <<>>
              /\ IF Len(stack) = 1 THEN st' = "done" /\ verdict' = "accept"
                 ELSE st' = "after" /\ UNCHANGED verdict
         [] st = "path" /\ tk.k = "." -> st' = "dot" /\ path' = Append(path, Here) /\ UNCHANGED <<stack, pendId, result, verdict>>
         [] st = "path" /\ tk.k = "[" -> st' = "index" /\ path' = Append(path, Here) /\ UNCHANGED <<stack, pendId, result, verdict>>
         [] st = "path" /\ tk.k = "=" -> st' = "value" /\ UNCHANGED <<stack, path, pendId, result, verdict>>
         [] st = "dot" -> st' = "path" /\ path' = Append(path, Here) /\ UNCHANGED <<stack, pendId, result, verdict>>
         [] st = "index" -> st' = "close]" /\ path' = Append(path, Here) /\ UNCHANGED <<stack, pendId, result, verdict>>
         [] st = "close]" -> st' = "path" /\ path' = Append(path, Here) /\ UNCHANGED <<stack, pendId, result, verdict>>
         [] st = "value" /\ tk.k = "IDENT" ->
              /\ pendId' = Here /\ st' = "afterId" /\ UNCHANGED <<stack, path, result, verdict>>
         [] st = "value" ->       \* STRING / INTEGER / FLOAT
              /\ Assign(Join(Prefix, path), Here) /\ st' = "after" /\ path' = <<>>
              /\ UNCHANGED <<stack, pendId, verdict>>
         [] st = "afterId" /\ tk.k = "{" ->      \* the identifier was the type of a nested expression
              /\ stack' = Append(stack, Join(Prefix, path))
              /\ Assign(Join(Join(Prefix, path), <<0>>), pendId)
              /\ st' = "member" /\ pendId' = 0 /\ path' = <<>> /\ UNCHANGED verdict
         [] st = "afterId" /\ tk.k = "," ->
              /\ Assign(Join(Prefix, path), pendId) /\ st' = "member" /\ pendId' = 0 /\ path' = <<>>
              /\ UNCHANGED <<stack, verdict>>
         [] st = "after" /\ tk.k = "," ->
              /\ st' = "member" /\ UNCHANGED <<stack, path, pendId, result, verdict>>
         [] OTHER -> FALSE

Next == \E tk \in Tokens : Step(tk)
Spec == Init /\ [][Next]_vars

\* (the flattened map is the assignments applied in order: later assignments to the same key text win;
\* key texts are compared by the replayer after concretisation)
AcceptHasType == verdict = "accept" => \E i \in DOMAIN result : result[i][1] = <<0>>
AcceptBalanced == verdict = "accept" => stack = <<>>

Emit == (verdict # "") =>
          PrintT(<<"EMIT", ToJson([toks |-> toks, verdict |-> verdict,
                                   result |-> IF verdict = "accept" THEN result ELSE <<>>])>>)
\* truncated inputs: every proper prefix of an accepted string is rejected (end of input arrives early)
EmitPrefix == (verdict = "" /\ Len(toks) > 0 /\ Len(toks) < MaxTokens) =>
          PrintT(<<"EMIT", ToJson([toks |-> toks, verdict |-> "reject-eof", result |-> <<>>])>>)
=============================================================================
