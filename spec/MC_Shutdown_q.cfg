CONSTANTS L = {1, 2}  A = {1, 2}  MaxItems = 2  Order = "loggersFirst"
SPECIFICATION Spec
INVARIANTS NoLateWrite AllDelivered StopOrder Emit
PROPERTIES Terminates
CHECK_DEADLOCK FALSE
