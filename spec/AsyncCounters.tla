---------------------------- MODULE AsyncCounters ----------------------------
(***************************************************************************)
(* C04 / C05 - the counter abstraction of AsyncLogger.tla, written so that *)
(* Apalache can discharge its conservation invariant inductively, i.e. for *)
(* EVERY capacity, EVERY number of producers and EVERY number of items     *)
(* (TLC checks AsyncLogger.tla only for small constants).                  *)
(*                                                                         *)
(* Producers are anonymous: instead of pc[p] the model counts how many     *)
(* producers are in each non-idle control state (each of them holds one    *)
(* item).  The channel is its length plus "a stop marker is in it, with    *)
(* `ahead` items in front".  One action per action of AsyncLogger.tla,     *)
(* same names.                                                             *)
(*                                                                         *)
(* Binding: AsyncCountersRef.tla instantiates this module over the         *)
(* variables of AsyncLogger.tla (counting mapping) and TLC checks          *)
(* [][Next]_vars of this module on every step of the detailed model, so    *)
(* the inductive invariant proved here transfers to the model that is      *)
(* replayed on the real AsyncLogger.                                       *)
(***************************************************************************)
EXTENDS Integers

CONSTANTS
  \* @type: Int;
  Cap,
  \* @type: Str;
  Policy

VARIABLES
  \* @type: Int;
  qlen,        \* items in the channel, the stop marker not counted
  \* @type: Int;
  nFull,       \* producers that found the channel full under policy Discard
  \* @type: Int;
  nBlock,      \* ... under policy Block (blocked in the send)
  \* @type: Int;
  nTry,        \* ... under DiscardOldest, about to retry the send
  \* @type: Int;
  nPop,        \* ... under DiscardOldest, about to pop the head
  \* @type: Int;
  holding,     \* 1 iff the worker holds an item it has not delivered yet
  \* @type: Int;
  submitted,   \* enabled items created so far
  \* @type: Int;
  delivered,   \* items handed to the appenders
  \* @type: Int;
  discards,    \* the discard counter
  \* @type: Str;
  stop,        \* "no" | "sent" | "done"
  \* @type: Bool;
  markerIn,    \* the stop marker is in the channel
  \* @type: Int;
  ahead,       \* items in front of the marker (meaningful while markerIn)
  \* @type: Bool;
  workerStopped

vars == <<qlen, nFull, nBlock, nTry, nPop, holding, submitted, delivered, discards, stop, markerIn, ahead, workerStopped>>

Pending  == nFull + nBlock + nTry + nPop
Occupied == qlen + (IF markerIn THEN 1 ELSE 0)
HasSpace == Occupied < Cap

ConstInit == Cap \in Nat /\ Cap >= 1 /\ Policy \in {"Block", "Discard", "DiscardOldest"}

\* any initial occupancy (AsyncLogger.tla pre-fills the channel)
Init ==
  /\ qlen \in 0..Cap /\ submitted = qlen
  /\ nFull = 0 /\ nBlock = 0 /\ nTry = 0 /\ nPop = 0 /\ holding = 0
  /\ delivered = 0 /\ discards = 0 /\ stop = "no" /\ markerIn = FALSE /\ ahead = 0 /\ workerStopped = FALSE

Submit ==
  /\ stop = "no"
  /\ submitted' = submitted + 1
  /\ IF HasSpace
     THEN qlen' = qlen + 1 /\ UNCHANGED <<nFull, nBlock, nTry>>
     ELSE /\ qlen' = qlen
          /\ nFull'  = IF Policy = "Discard" THEN nFull + 1 ELSE nFull
          /\ nBlock' = IF Policy = "Block" THEN nBlock + 1 ELSE nBlock
          /\ nTry'   = IF Policy = "DiscardOldest" THEN nTry + 1 ELSE nTry
  /\ UNCHANGED <<nPop, holding, delivered, discards, stop, markerIn, ahead, workerStopped>>

Discard ==
  /\ nFull > 0 /\ nFull' = nFull - 1 /\ discards' = discards + 1
  /\ UNCHANGED <<qlen, nBlock, nTry, nPop, holding, submitted, delivered, stop, markerIn, ahead, workerStopped>>

BlockSend ==
  /\ nBlock > 0 /\ HasSpace /\ nBlock' = nBlock - 1 /\ qlen' = qlen + 1
  /\ UNCHANGED <<nFull, nTry, nPop, holding, submitted, delivered, discards, stop, markerIn, ahead, workerStopped>>

DOTry ==
  /\ nTry > 0 /\ nTry' = nTry - 1
  /\ IF HasSpace THEN qlen' = qlen + 1 /\ nPop' = nPop
                 ELSE qlen' = qlen /\ nPop' = nPop + 1
  /\ UNCHANGED <<nFull, nBlock, holding, submitted, delivered, discards, stop, markerIn, ahead, workerStopped>>

DOPop ==
  /\ nPop > 0 /\ nPop' = nPop - 1 /\ nTry' = nTry + 1
  /\ IF qlen > 0 THEN qlen' = qlen - 1 /\ discards' = discards + 1
                 ELSE qlen' = qlen /\ discards' = discards
  /\ UNCHANGED <<nFull, nBlock, holding, submitted, delivered, stop, markerIn, ahead, workerStopped>>

Take ==
  /\ ~workerStopped /\ holding = 0
  /\ \/ /\ markerIn /\ ahead = 0                                  \* the marker is at the head
        /\ workerStopped' = TRUE /\ markerIn' = FALSE
        /\ UNCHANGED <<qlen, holding, ahead>>
     \/ /\ qlen > 0 /\ (markerIn => ahead > 0)
        /\ qlen' = qlen - 1 /\ holding' = 1
        /\ ahead' = IF markerIn THEN ahead - 1 ELSE ahead
        /\ UNCHANGED <<workerStopped, markerIn>>
  /\ UNCHANGED <<nFull, nBlock, nTry, nPop, submitted, delivered, discards, stop>>

Deliver ==
  /\ holding = 1 /\ holding' = 0 /\ delivered' = delivered + 1
  /\ UNCHANGED <<qlen, nFull, nBlock, nTry, nPop, submitted, discards, stop, markerIn, ahead, workerStopped>>

StopSend ==
  /\ stop = "no" /\ Pending = 0 /\ HasSpace
  /\ markerIn' = TRUE /\ ahead' = qlen /\ stop' = "sent"
  /\ UNCHANGED <<qlen, nFull, nBlock, nTry, nPop, holding, submitted, delivered, discards, workerStopped>>

StopWait ==
  /\ stop = "sent" /\ workerStopped /\ stop' = "done"
  /\ UNCHANGED <<qlen, nFull, nBlock, nTry, nPop, holding, submitted, delivered, discards, markerIn, ahead, workerStopped>>

Next == Submit \/ Discard \/ BlockSend \/ DOTry \/ DOPop \/ Take \/ Deliver \/ StopSend \/ StopWait
Spec == Init /\ [][Next]_vars

(************************** the inductive invariant ************************)
TypeOK ==
  /\ qlen \in Nat /\ nFull \in Nat /\ nBlock \in Nat /\ nTry \in Nat /\ nPop \in Nat
  /\ holding \in {0, 1} /\ submitted \in Nat /\ delivered \in Nat /\ discards \in Nat /\ ahead \in Nat
  /\ stop \in {"no", "sent", "done"} /\ markerIn \in BOOLEAN /\ workerStopped \in BOOLEAN
  /\ Cap \in Nat /\ Cap >= 1 /\ Policy \in {"Block", "Discard", "DiscardOldest"}

\* C04: every enabled item is in exactly one place
Conservation == submitted = delivered + discards + qlen + holding + Pending
Bounded      == Occupied <= Cap
PolicyStates == /\ (Policy # "Discard" => nFull = 0) /\ (Policy # "Block" => nBlock = 0)
                /\ (Policy # "DiscardOldest" => nTry = 0 /\ nPop = 0)
BlockNeverDiscards == Policy = "Block" => discards = 0
StopShape ==
  /\ (stop = "no" => ~markerIn /\ ~workerStopped)
  /\ (stop # "no" => Pending = 0)
  /\ (markerIn => stop = "sent" /\ ahead = qlen /\ ~workerStopped)
  /\ (workerStopped => ~markerIn /\ qlen = 0 /\ holding = 0)
  /\ (stop = "sent" /\ ~markerIn => workerStopped)
  /\ (stop = "done" => workerStopped)

IndInv == TypeOK /\ Conservation /\ Bounded /\ PolicyStates /\ BlockNeverDiscards /\ StopShape

\* C05: when Stop has returned everything accepted has been delivered
Flushed == stop = "done" => (submitted = delivered + discards /\ qlen = 0 /\ holding = 0)
\* C05 (progress argument, safety half): while Stop waits, the worker always has a step
WorkerCanProceed == (stop = "sent" /\ ~workerStopped) => (holding = 1 \/ (markerIn /\ ahead = 0) \/ qlen > 0)
=============================================================================
