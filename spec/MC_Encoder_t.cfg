CONSTANTS MaxCalls = 8  MaxDepth = 4
SPECIFICATION Spec
INVARIANTS WellFormedJSON TextIsRewrittenJSON TextDepthSane Emit
CHECK_DEADLOCK FALSE
