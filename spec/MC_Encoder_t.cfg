CONSTANTS MaxCalls = 10  MaxDepth = 4
SPECIFICATION Spec
INVARIANTS WellFormedJSON TextIsRewrittenJSON TextDepthSane Emit
CHECK_DEADLOCK FALSE
