--------------------------- MODULE RollingHistory ---------------------------
(***************************************************************************)
(* Direction B for C13: the history laws of Rolling.tla evaluated by TLC   *)
(* on runs recorded from a real RollingFileAppender under the real clock   *)
(* (1-second and 2-second intervals, 1-16 writers, idle gaps, stop/start   *)
(* cycles, lines of 1 B - 64 KiB).  One run per ndjson line:               *)
(*   interval   rotation interval in seconds                               *)
(*   writes     [id, w, start, end, file, count]: start/end of the call in *)
(*              milliseconds (taken by the writer itself), `file` the      *)
(*              second in the name of the file that holds the line (0 if   *)
(*              none), `count` the number of times the line occurs in all  *)
(*              files together                                             *)
(*   solo       TRUE when the run issued its writes one at a time          *)
(* No ordering across goroutines is used: every law speaks about one write *)
(* and its own start/end times.                                            *)
(***************************************************************************)
EXTENDS Naturals, Sequences, FiniteSets, TLC, Json, IOUtils

Runs == ndJsonDeserialize(IOEnv.VERIF_RUNS)

Ivl(sec, r) == sec \div r.interval
SecOf(ms) == ms \div 1000

ExactlyOnce(r)   == \A i \in DOMAIN r.writes : r.writes[i].count = 1
\* a file never holds a write that completed before the second in its name
NotBeforeName(r) == \A i \in DOMAIN r.writes : r.writes[i].count >= 1 => r.writes[i]["end"] >= r.writes[i].file * 1000
\* issued one at a time, a write goes to a file created in the interval of a clock reading taken during the call
SequentialFresh(r) == r.solo =>
   \A i \in DOMAIN r.writes : r.writes[i].count >= 1 =>
      /\ Ivl(r.writes[i].file, r) >= Ivl(SecOf(r.writes[i].start), r)
      /\ Ivl(r.writes[i].file, r) <= Ivl(SecOf(r.writes[i]["end"]), r)
\* no file is named after a second later than the end of the run, nor before its start
NamesWithinRun(r) == \A i \in DOMAIN r.files : r.files[i] >= r.t0 /\ r.files[i] <= r.t1

RunOK(r) == ExactlyOnce(r) /\ NotBeforeName(r) /\ SequentialFresh(r) /\ NamesWithinRun(r)

VARIABLE i
Init == i = 1
Next == i <= Len(Runs) /\ i' = i + 1
Spec == Init /\ [][Next]_i
Report == (i <= Len(Runs) /\ ~RunOK(Runs[i])) =>
            PrintT(<<"EMIT", ToJson([bad_run |-> i, once |-> ExactlyOnce(Runs[i]), notbefore |-> NotBeforeName(Runs[i]),
                                     fresh |-> SequentialFresh(Runs[i]), names |-> NamesWithinRun(Runs[i])])>>)
Checked == i <= Len(Runs) => RunOK(Runs[i])
=============================================================================
