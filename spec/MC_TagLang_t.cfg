CONSTANTS MaxLen = 7  MinTag = 3  MaxTag = 36  MaxSegs = 4
SPECIFICATION SSpec
INVARIANTS DfaIsValid DfaIsFold EmitString
CHECK_DEADLOCK FALSE
