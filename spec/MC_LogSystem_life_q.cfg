CONSTANTS MaxLen = 4
  Ops = {"RefreshA","RefreshB","RefreshBadEarly","RefreshBadLate","Destroy","Log","Write","RegisterTag","GetHandle"}
SPECIFICATION Spec
INVARIANTS TypeOK LiveHandlesAreConfigured NoCfgMeansConsole RoutesAsConfigured HooksIffEmitted Emit
PROPERTIES SecondRefreshRejected DestroyIdempotent RegistrationOnlyWithoutLiveCfg
CHECK_DEADLOCK FALSE
