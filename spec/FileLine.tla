------------------------------ MODULE FileLine ------------------------------
(***************************************************************************)
(* C08, last sentence: a file:line of n bytes shown at configured width W. *)
(* Longer than W: "..." plus its last max(W-3, 0) bytes; otherwise in      *)
(* full.  Total for every integer W - no width makes a log call fail.      *)
(***************************************************************************)
EXTENDS Integers, TLC, Json

CONSTANTS MaxN, NegW, MaxW

Max0(x) == IF x > 0 THEN x ELSE 0
Shown(n, W) == IF n <= W THEN [elided |-> FALSE, keep |-> n]
               ELSE [elided |-> TRUE, keep |-> Max0(W - 3)]

VARIABLES n, w
Init == n \in 0..MaxN /\ w \in (0 - NegW)..MaxW
Next == UNCHANGED <<n, w>>
Spec == Init /\ [][Next]_<<n, w>>

\* the slice taken from the original string is always within bounds
InBounds == LET s == Shown(n, w) IN s.keep >= 0 /\ s.keep <= n
LengthLaw == LET s == Shown(n, w) IN
               (IF s.elided THEN 3 + s.keep ELSE s.keep) = (IF n <= w THEN n ELSE 3 + Max0(w - 3))
Emit == PrintT(<<"EMIT", ToJson([n |-> n, w |-> w, elided |-> Shown(n, w).elided, keep |-> Shown(n, w).keep])>>)
=============================================================================
