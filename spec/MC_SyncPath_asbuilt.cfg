CONSTANTS G = {1, 2}  NBuf = 1  K = 2  MaxEv = 2  CopyOut = FALSE
SPECIFICATION Spec
INVARIANTS PoolDiscipline NoAliasedReuse WholeLines OneLinePerEvent OverCapNotPooled
CHECK_DEADLOCK FALSE
