------------------------------- MODULE Caller -------------------------------
(***************************************************************************)
(* C11 - which stack frame a record's file:line comes from.                *)
(*                                                                         *)
(* A log call builds the logical stack (innermost first)                   *)
(*    Callers, FastCaller, record, entry, site, outer1, outer2, outer3     *)
(* ("Callers"/"FastCaller" only exist in fast mode).  The default lookup   *)
(* asks for frame DefaultArg(skip) counted from `record` (= 0); the fast   *)
(* lookup asks for frame FastArg(skip) counted from `Callers` (= 0) and    *)
(* caches the answer per program counter.  The property: both denote the   *)
(* frame `skip` levels above the entry point (skip = 1 is the statement    *)
(* that called the logging function); with lookup disabled the location is *)
(* empty; a cache hit equals a miss.                                       *)
(*                                                                         *)
(* The model is deliberately tiny - it is the skip arithmetic plus the     *)
(* cache - and exists so that the entry-point table, the call shapes and   *)
(* the site sequences the replayer executes are enumerated by TLC from one *)
(* definition; the deciding power for this property is in the replay.      *)
(***************************************************************************)
EXTENDS Integers, Sequences, FiniteSets, TLC, Json

CONSTANTS MaxSeq

Entries == {"Trace","Tracef","Debug","Debugf","Info","Infof","Warn","Warnf","Error","Errorf",
            "Panic","Panicf","Fatal","Fatalf","Record"}
Shapes  == {"plain","closure","deferred","goroutine","methodvalue","generic","inlinable",
            "farline",     \* a call site whose source line number exceeds 65535
            "twofileA", "twofileB",   \* two statements of ONE function that lie in different source files
            "namedlog",               \* a call site in a user file that is itself called log.go
            "colonpath"}              \* a call site whose file path contains colons
Modes   == {"default","fast"}

\* frames are numbered by their distance from the logging entry point:
\*   Callers = -3, FastCaller = -2, record = -1, entry = 0, site = 1, the site's caller = 2, ...
MaxSkip == 10
RecordFrame  == 0 - 1
CallersFrame == 0 - 3
\* frame reached by runtime.Caller(n) evaluated in `record`, and by runtime.Callers(m) evaluated in FastCaller
ByCaller(n)  == RecordFrame + n
ByCallers(m) == CallersFrame + m
DefaultArg(skip) == skip + 1          \* runtime.Caller(skip+1) inside record
FastArg(skip)    == (skip + 1) + 2    \* FastCaller(skip+1) -> runtime.Callers(skip+1+2)
Expected(skip)   == skip              \* skip = 1 is the statement that called the logging function

SkipOf(entry, recSkip) == IF entry = "Record" THEN recSkip ELSE 1

Empty == 0 - 99                       \* the empty location (frame 0 is the entry point itself: Record with skip 0)
Located(mode, enable, skip) ==
  IF ~enable THEN Empty
  ELSE IF mode = "default" THEN ByCaller(DefaultArg(skip))
  ELSE ByCallers(FastArg(skip))

SkipArithmetic == \A m \in Modes, k \in 0..MaxSkip : Located(m, TRUE, k) = Expected(k)
ModesAgree     == \A k \in 0..MaxSkip : Located("default", TRUE, k) = Located("fast", TRUE, k)

(************ site sequences: repeated calls exercise the cache ************)
VARIABLES mode, enable, calls, cache, seen
vars == <<mode, enable, calls, cache, seen>>

Sites == [entry : Entries, shape : Shapes, skip : 0..MaxSkip]
ValidSite(s) == /\ (s.entry = "Record" \/ s.skip = 1) /\ (s.skip = 1 \/ s.shape = "plain")
                /\ (s.shape = "farline" => s.entry \in {"Info", "Debugf"})
                /\ (s.shape \in {"twofileA", "twofileB"} => s.entry = "Info")
                /\ (s.shape = "namedlog" => s.entry \in {"Info", "Record"})
                /\ (s.shape = "colonpath" => s.entry \in {"Info", "Debugf"})

Others == { [entry |-> "Info", shape |-> "plain", skip |-> 1],
            [entry |-> "Record", shape |-> "plain", skip |-> 2],
            [entry |-> "Info", shape |-> "twofileB", skip |-> 1] }

Init == /\ mode \in Modes /\ enable \in BOOLEAN
        /\ calls = <<>> /\ cache = {} /\ seen = <<>>

\* a call from site s: cache lookup keyed by the site (its program counter), result appended
Call(s) ==
  /\ Len(calls) < MaxSeq /\ ValidSite(s)
  /\ (Len(calls) = 1 => (s = calls[1] \/ s \in Others))      \* A A A  or  A B A  (B from a small set)
  /\ (Len(calls) = 2 => s = calls[1])
  /\ calls' = Append(calls, s)
  /\ LET loc == Located(mode, enable, s.skip)
         hit == mode = "fast" /\ enable /\ s \in cache
     IN /\ seen' = Append(seen, [loc |-> loc, hit |-> hit])
        /\ cache' = IF mode = "fast" /\ enable THEN cache \cup {s} ELSE cache
  /\ UNCHANGED <<mode, enable>>

Next == \E s \in Sites : Call(s)
Spec == Init /\ [][Next]_vars

HitEqualsMiss == \A i, j \in DOMAIN calls : calls[i] = calls[j] => seen[i].loc = seen[j].loc
DisabledIsEmpty == ~enable => \A i \in DOMAIN seen : seen[i].loc = Empty
EnabledIsExpected == enable => \A i \in DOMAIN seen : seen[i].loc = Expected(calls[i].skip)

Emit == (Len(calls) = MaxSeq) =>
          PrintT(<<"EMIT", ToJson([mode |-> mode, enable |-> enable, calls |-> calls, seen |-> seen])>>)
ASSUME SkipArithmetic /\ ModesAgree
=============================================================================
