CONSTANTS MaxN = 12  NegW = 5  MaxW = 14
SPECIFICATION Spec
INVARIANTS InBounds LengthLaw Emit
CHECK_DEADLOCK FALSE
