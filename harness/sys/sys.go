// Package sys is the fixture shared by the system-level replayers: a recording appender plugin
// wired through the public plugin registry, a console capture, and configuration-map builders.
package sys

import (
	"bytes"
	"fmt"
	"sort"
	"strconv"
	"strings"
	"sync"
	"time"
	"unsafe"

	"github.com/go-spring/log"
)

// Rec is what a recording appender saw for one delivery.
type Rec struct {
	ID        int64  // id carried by the event / line (-1 if none)
	Level     string // upper-case level name
	Raw       []byte // copy of the bytes for Write deliveries (nil for events)
	IsWrite   bool
	Tag       string
	File      string
	Line      int
	Time      time.Time
	CtxString string
	Keys      []string // ctx field keys then call field keys, in order
	NCtx      int
	EvPtr     uintptr
}

// RecAppender is the recording appender plugin ("Rec").
type RecAppender struct {
	log.AppenderBase
	Layout log.Layout `PluginElement:"Layout?"`

	mu      sync.Mutex
	recs    []Rec
	started int
	stopped int
	late    int           // deliveries that arrived after Stop
	Gate    chan struct{} // when non-nil every delivery first receives from Gate
	Entered chan int64    // when non-nil the id is sent before waiting on Gate
}

var (
	regMu     sync.Mutex
	appenders = map[string]*RecAppender{}
)

func init() {
	log.RegisterPlugin[RecAppender]("Rec", log.PluginTypeAppender)
	log.RegisterPlugin[GateLayout]("GateLayout", log.PluginTypeLayout)
}

// GateLayout is a layout plugin that parks its caller (the async worker) until released; it lets the
// harness single-step loggers whose appenders cannot be replaced (the rolling-file logger).
type GateLayout struct {
	log.TextLayout
}

// LayoutGate is the gate all GateLayout instances use (nil channels = pass through).
var LayoutGate struct {
	Gate    chan struct{}
	Entered chan int64
}

func (l *GateLayout) ToBytes(e *log.Event) []byte {
	id := EventID(e)
	if LayoutGate.Entered != nil {
		LayoutGate.Entered <- id
	}
	if LayoutGate.Gate != nil {
		<-LayoutGate.Gate
	}
	return l.TextLayout.ToBytes(e)
}

// Appender returns the most recently started recording appender of that name.
func Appender(name string) *RecAppender {
	regMu.Lock()
	defer regMu.Unlock()
	return appenders[name]
}

// ResetAppenders forgets every recording appender seen so far.
func ResetAppenders() {
	regMu.Lock()
	appenders = map[string]*RecAppender{}
	regMu.Unlock()
}

// GateNext, when set, is installed as Gate/Entered of appenders at Start (by name).
var GateNext = map[string]*RecAppender{}

func (a *RecAppender) Start() error {
	regMu.Lock()
	if tmpl, ok := GateNext[a.Name]; ok {
		a.Gate, a.Entered = tmpl.Gate, tmpl.Entered
	}
	appenders[a.Name] = a
	regMu.Unlock()
	a.mu.Lock()
	a.started++
	a.mu.Unlock()
	return nil
}

// OnStop, when set, is called by every recording appender from inside its Stop (user code that runs while Destroy is
// under way, e.g. an appender that logs its own shutdown).
var OnStop func(name string)

func (a *RecAppender) Stop() {
	a.mu.Lock()
	a.stopped++
	a.mu.Unlock()
	if f := OnStop; f != nil {
		f(a.Name)
	}
}

func (a *RecAppender) wait(id int64) {
	if a.Entered != nil {
		a.Entered <- id
	}
	if a.Gate != nil {
		<-a.Gate
	}
}

func (a *RecAppender) Append(e *log.Event) {
	a.wait(EventID(e))
	// the event is read after the gate opened: whatever happened to shared data meanwhile shows
	r := Rec{ID: EventID(e), Level: e.Level.Name(), Tag: e.Tag, File: e.File, Line: e.Line, Time: e.Time,
		CtxString: e.CtxString, NCtx: len(e.CtxFields), EvPtr: uintptr(unsafe.Pointer(e))}
	for _, f := range e.CtxFields {
		r.Keys = append(r.Keys, f.Key)
	}
	for _, f := range e.Fields {
		r.Keys = append(r.Keys, f.Key)
	}
	a.mu.Lock()
	a.recs = append(a.recs, r)
	if a.stopped > 0 {
		a.late++
	}
	a.mu.Unlock()
}

func (a *RecAppender) Write(b []byte) {
	r := Rec{IsWrite: true, Raw: append([]byte(nil), b...), ID: -1}
	r.ID, r.Level = ParseLine(b)
	a.wait(r.ID)
	a.mu.Lock()
	a.recs = append(a.recs, r)
	if a.stopped > 0 {
		a.late++
	}
	a.mu.Unlock()
}

// Late returns how many deliveries arrived after the appender had been stopped.
func (a *RecAppender) Late() int {
	a.mu.Lock()
	defer a.mu.Unlock()
	return a.late
}

// Recs returns a copy of what was recorded so far.
func (a *RecAppender) Recs() []Rec {
	a.mu.Lock()
	defer a.mu.Unlock()
	return append([]Rec(nil), a.recs...)
}

func (a *RecAppender) Len() int {
	a.mu.Lock()
	defer a.mu.Unlock()
	return len(a.recs)
}

func (a *RecAppender) Counts() (started, stopped int) {
	a.mu.Lock()
	defer a.mu.Unlock()
	return a.started, a.stopped
}

func fieldString(f log.Field) (string, bool) {
	if f.Type != log.ValueTypeString {
		return "", false
	}
	p, ok := f.Any.(*byte)
	if !ok || p == nil {
		return "", f.Num == 0
	}
	return unsafe.String(p, int(f.Num)), true
}

// EventID extracts the id an event carries: Int("id", n) or Msg("id=<n> ...").
func EventID(e *log.Event) int64 {
	for _, f := range e.Fields {
		if f.Key == "id" && (f.Type == log.ValueTypeInt64 || f.Type == log.ValueTypeUint64) {
			return int64(f.Num)
		}
		if f.Key == log.MsgKey {
			if s, ok := fieldString(f); ok {
				if id, ok := parseIDText(s); ok {
					return id
				}
			}
		}
	}
	return -1
}

func parseIDText(s string) (int64, bool) {
	i := strings.Index(s, "id=")
	if i < 0 {
		return 0, false
	}
	j := i + 3
	for j < len(s) && s[j] >= '0' && s[j] <= '9' {
		j++
	}
	if j == i+3 {
		return 0, false
	}
	n, err := strconv.ParseInt(s[i+3:j], 10, 64)
	return n, err == nil
}

// ParseLine extracts id and level from a formatted line (text "[LEVEL]..." or JSON "level":"..").
func ParseLine(b []byte) (int64, string) {
	s := string(b)
	id := int64(-1)
	if n, ok := parseIDText(s); ok {
		id = n
	} else if i := strings.Index(s, `"id":`); i >= 0 {
		j := i + 5
		k := j
		for k < len(s) && s[k] >= '0' && s[k] <= '9' {
			k++
		}
		if k > j {
			id, _ = strconv.ParseInt(s[j:k], 10, 64)
		}
	}
	lvl := ""
	if strings.HasPrefix(s, "[") {
		if k := strings.Index(s, "]"); k > 0 {
			lvl = s[1:k]
		}
	} else if i := strings.Index(s, `"level":"`); i >= 0 {
		rest := s[i+9:]
		if k := strings.Index(rest, `"`); k >= 0 {
			lvl = strings.ToUpper(rest[:k])
		}
	}
	return id, lvl
}

// Console captures log.Stdout.
type Console struct {
	mu  sync.Mutex
	buf bytes.Buffer
}

func (c *Console) Write(b []byte) (int, error) {
	c.mu.Lock()
	defer c.mu.Unlock()
	return c.buf.Write(b)
}

func (c *Console) Take() string {
	c.mu.Lock()
	defer c.mu.Unlock()
	s := c.buf.String()
	c.buf.Reset()
	return s
}

// InstallConsole replaces log.Stdout by a capture and returns it.
func InstallConsole() *Console {
	c := &Console{}
	log.Stdout = c
	return c
}

// Cfg is a configuration map under construction.
type Cfg map[string]string

// Ref is one appender reference of a logger.
type Ref struct {
	Ref   string
	Level string
}

// AddRec adds a recording appender.
func (c Cfg) AddRec(name string) {
	c["appender."+name+".type"] = "Rec"
}

// AddLogger adds a logger of the given plugin type with refs; indexed spelling when len(refs) > 1
// or when forceIndexed.
func (c Cfg) AddLogger(name, typ, level, tags string, refs []Ref, forceIndexed bool, extra map[string]string) {
	p := "logger." + name + "."
	c[p+"type"] = typ
	if level != "" {
		c[p+"level"] = level
	}
	if tags != "\x00" {
		c[p+"tags"] = tags
	}
	if len(refs) == 1 && !forceIndexed {
		c[p+"appenderRef.ref"] = refs[0].Ref
		if refs[0].Level != "" {
			c[p+"appenderRef.level"] = refs[0].Level
		}
	} else {
		for i, r := range refs {
			k := fmt.Sprintf("%sappenderRef[%d].", p, i)
			c[k+"ref"] = r.Ref
			if r.Level != "" {
				c[k+"level"] = r.Level
			}
		}
	}
	for k, v := range extra {
		c[p+k] = v
	}
}

func (c Cfg) String() string {
	keys := make([]string, 0, len(c))
	for k := range c {
		keys = append(keys, k)
	}
	sort.Strings(keys)
	var sb strings.Builder
	for _, k := range keys {
		fmt.Fprintf(&sb, "%s=%q ", k, c[k])
	}
	return sb.String()
}

// Map returns a fresh map with the same content (so insertion order differs between calls).
func (c Cfg) Map(order []int) map[string]string {
	keys := make([]string, 0, len(c))
	for k := range c {
		keys = append(keys, k)
	}
	sort.Strings(keys)
	m := make(map[string]string, len(c))
	if len(order) == len(keys) {
		for _, i := range order {
			m[keys[i]] = c[keys[i]]
		}
		return m
	}
	for _, k := range keys {
		m[k] = c[k]
	}
	return m
}
