// Package sites holds generated call sites for the caller-location property (C11).
package sites

import (
	"runtime"

	"github.com/go-spring/log"
)

// loc records the file:line of its caller - the logging statement it is an argument of.
func loc(f *string, l *int) log.Field {
	_, *f, *l, _ = runtime.Caller(1)
	return log.String("own", "x")
}

// locs is loc for the formatted entry points.
func locs(f *string, l *int) string {
	_, *f, *l, _ = runtime.Caller(1)
	return ""
}
