// Package hx holds what every replayer/recorder of the verification harness shares:
// case input (ndjson emitted by TLC), result output, seeded randomness, panic capture.
package hx

import (
	"bufio"
	"encoding/json"
	"fmt"
	"math/rand"
	"os"
	"strconv"
	"strings"
	"sync"
	"sync/atomic"
	"time"
)

// Violation is one observed deviation of the real code from the specification.
type Violation struct {
	Key  string `json:"key"`  // stable class key (matched against KNOWN_FINDINGS.txt)
	What string `json:"what"` // human readable: case, expected, got
	Case any    `json:"case,omitempty"`
}

// Result is written as JSON to the --out file.
type Result struct {
	mu          sync.Mutex
	Evaluations int64          `json:"evaluations"`
	Distinct    int64          `json:"distinct_nontrivial"`
	Traces      int64          `json:"traces"`
	Samples     []any          `json:"samples"`
	Violations  []Violation    `json:"violations"`
	Infra       string         `json:"infra,omitempty"`
	Extra       map[string]any `json:"extra,omitempty"`
	seen        map[string]int
	total       int
}

func NewResult() *Result { return &Result{seen: map[string]int{}, Extra: map[string]any{}} }

func (r *Result) Eval(n int64)       { r.mu.Lock(); r.Evaluations += n; r.mu.Unlock() }
func (r *Result) NonTrivial(n int64) { r.mu.Lock(); r.Distinct += n; r.mu.Unlock() }
func (r *Result) Trace(n int64)      { r.mu.Lock(); r.Traces += n; r.mu.Unlock() }

func (r *Result) Sample(s any) {
	r.mu.Lock()
	if len(r.Samples) < 6 {
		r.Samples = append(r.Samples, s)
	}
	r.mu.Unlock()
}

// Violate records a deviation; at most 20 per key are kept.
func (r *Result) Violate(key string, c any, format string, a ...any) {
	r.mu.Lock()
	defer r.mu.Unlock()
	r.seen[key]++
	r.total++
	// a deviation that costs a watchdog timeout each time, or a flood of deviations, ends the replay
	// early: the verdict is already decided and the remaining cases would only burn time
	if r.total >= 60 || (r.seen[key] >= 3 && (strings.Contains(key, "blocked") || strings.Contains(key, "stalled") || strings.Contains(key, "-failed"))) {
		atomic.StoreInt32(&StopEarly, 1)
	}
	if r.seen[key] > 20 {
		return
	}
	r.Violations = append(r.Violations, Violation{Key: key, What: fmt.Sprintf(format, a...), Case: c})
}

func (r *Result) NViol() int { r.mu.Lock(); defer r.mu.Unlock(); return len(r.Violations) }

func (r *Result) SetInfra(format string, a ...any) {
	r.mu.Lock()
	// once the replay has been cut short by a flood of deviations the verdict is decided by them; what
	// the truncated run can no longer do (read the rest of its cases, ...) is a consequence, not a fault
	if r.Infra == "" && !(Stopped() && len(r.Violations) > 0) {
		r.Infra = fmt.Sprintf(format, a...)
	}
	r.mu.Unlock()
}

func (r *Result) Write(path string) {
	r.mu.Lock()
	defer r.mu.Unlock()
	if r.Traces == 0 {
		r.Traces = r.Evaluations
	}
	b, err := json.Marshal(r)
	if err != nil {
		b = []byte(fmt.Sprintf(`{"infra":%q}`, err.Error()))
	}
	if err := os.WriteFile(path, b, 0o644); err != nil {
		fmt.Fprintln(os.Stderr, "cannot write result:", err)
		os.Exit(3)
	}
}

// StopEarly is set when continuing the replay is pointless (see Violate).
var StopEarly int32

// Stopped reports whether the replay should end early.
func Stopped() bool { return atomic.LoadInt32(&StopEarly) != 0 }

// ReadCases streams ndjson records from path into fn.
func ReadCases(path string, fn func(raw json.RawMessage) error) error {
	f, err := os.Open(path)
	if err != nil {
		return err
	}
	defer f.Close()
	sc := bufio.NewScanner(f)
	sc.Buffer(make([]byte, 1<<20), 1<<28)
	for sc.Scan() {
		b := sc.Bytes()
		if len(b) == 0 {
			continue
		}
		if atomic.LoadInt32(&StopEarly) != 0 {
			break
		}
		cp := make([]byte, len(b))
		copy(cp, b)
		if err := fn(cp); err != nil {
			return err
		}
	}
	return sc.Err()
}

// Seed returns VERIF_SEED (default 1).
func Seed() int64 {
	if s := os.Getenv("VERIF_SEED"); s != "" {
		if n, err := strconv.ParseInt(s, 10, 64); err == nil {
			return n
		}
	}
	return 1
}

func Tier() string {
	if os.Getenv("VERIF_TIER") == "thorough" {
		return "thorough"
	}
	return "quick"
}

func Thorough() bool { return Tier() == "thorough" }

func Rand(salt int64) *rand.Rand { return rand.New(rand.NewSource(Seed()*1000003 + salt)) }

// Catch runs fn and reports the recovered panic value (nil if none).
func Catch(fn func()) (p any) {
	defer func() {
		if r := recover(); r != nil {
			p = r
		}
	}()
	fn()
	return nil
}

// Within runs fn on its own goroutine and reports whether it returned within d,
// together with the recovered panic (if any).
func Within(d time.Duration, fn func()) (returned bool, p any) {
	done := make(chan any, 1)
	go func() {
		done <- Catch(fn)
	}()
	select {
	case p = <-done:
		return true, p
	case <-time.After(d):
		return false, nil
	}
}

// Flags is a tiny "--k v" parser (the harness has few options).
type Flags map[string]string

func ParseFlags(args []string) Flags {
	f := Flags{}
	for i := 0; i < len(args); i++ {
		a := args[i]
		if len(a) > 2 && a[:2] == "--" {
			if i+1 < len(args) && (len(args[i+1]) < 2 || args[i+1][:2] != "--") {
				f[a[2:]] = args[i+1]
				i++
			} else {
				f[a[2:]] = "true"
			}
		}
	}
	return f
}

func (f Flags) Int(k string, def int) int {
	if v, ok := f[k]; ok {
		if n, err := strconv.Atoi(v); err == nil {
			return n
		}
	}
	return def
}

func (f Flags) Str(k, def string) string {
	if v, ok := f[k]; ok {
		return v
	}
	return def
}
