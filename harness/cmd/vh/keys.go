package main

// Supporting automata of C15: replays the class-string tables of spec/CamelKey.tla (configuration key
// normalisation) and spec/HumanBytes.tla (the size syntax of the bufferCap property) on the real code.

import (
	"encoding/json"
	"fmt"
	"strings"

	"github.com/go-spring/log"

	"verifharness/hx"
)

func init() {
	commands["camelkey"] = cmdCamelKey
	commands["humanbytes"] = cmdHumanBytes
}

var ckChars = map[string][]byte{
	"l": []byte("azm"), "U": []byte("AZM"), "d": []byte("09"), ".": []byte("."), "-": []byte("-"), "_": []byte("_"),
	"o": {'!', '[', ']', ' ', '$', '{', 0xc3, '@', '`'},
}

type ckCase struct {
	S   []string `json:"s"`
	Out []struct {
		C   string `json:"c"`
		How string `json:"how"`
	} `json:"out"`
}

func cmdCamelKey(f hx.Flags, r *hx.Result) {
	rng := hx.Rand(151)
	n := 0
	err := hx.ReadCases(f.Str("cases", ""), func(raw json.RawMessage) error {
		var c ckCase
		if err := json.Unmarshal(raw, &c); err != nil {
			return err
		}
		n++
		for v := 0; v < 3; v++ {
			in := make([]byte, len(c.S))
			for i, cl := range c.S {
				cs := ckChars[cl]
				switch v {
				case 0:
					in[i] = cs[0]
				case 1:
					in[i] = cs[len(cs)-1]
				default:
					in[i] = cs[rng.Intn(len(cs))]
				}
			}
			// expected: walk the output tokens, which name the input characters that survive
			var want []byte
			pos := 0
			for _, t := range c.Out {
				// find the next input character of class t.C that is not a dropped separator
				for pos < len(c.S) && !(c.S[pos] == t.C && !(pos > 0 && (c.S[pos] == "-" || c.S[pos] == "_"))) {
					pos++
				}
				if pos >= len(in) {
					r.SetInfra("camelkey: token/inputs out of step for %v", c.S)
					return nil
				}
				ch := in[pos]
				switch t.How {
				case "lower":
					ch += 'a' - 'A'
				case "upper":
					ch -= 'a' - 'A'
				}
				want = append(want, ch)
				pos++
			}
			var got string
			if p := hx.Catch(func() { got = log.VerifToCamelKey(string(in)) }); p != nil {
				r.Violate("camelkey-panic", map[string]any{"in": string(in)}, "toCamelKey(%q) panicked: %v", in, p)
				continue
			}
			r.Eval(1)
			if got != string(want) {
				r.Violate("camelkey-mismatch", map[string]any{"in": string(in)}, "toCamelKey(%q) = %q, specification: %q", in, got, want)
			}
		}
		if n == 50 {
			r.Sample(c)
		}
		return nil
	})
	if err != nil {
		r.SetInfra("read cases: %v", err)
	}
	r.NonTrivial(int64(n))
	// the equivalence C15 states: every spelling of a camelCase key normalises to it
	for _, k := range []string{"bufferSize", "bufferFullPolicy", "appenderRef[0].ref", "logger.myLogger.fileLineLength", "a.bC.dEF", "x"} {
		for _, style := range []string{"kebab", "snake", "capital", "camel"} {
			sp := respell(k, style)
			if got := log.VerifToCamelKey(sp); got != k {
				r.Violate("camelkey-spelling", map[string]any{"key": k, "spelled": sp}, "toCamelKey(%q) = %q, want %q", sp, got, k)
			}
			r.Eval(1)
		}
	}
}

var hbChars = map[string][]string{
	"d": {"0", "7", "9"}, " ": {" ", "\t"}, "b": {"B", "b"}, "k": {"K", "k"}, "m": {"M", "m"}, "x": {"G", "x", "i"},
	"o": {"-", "+", ".", ",", "_", "٣"},
}

func cmdHumanBytes(f hx.Flags, r *hx.Result) {
	rng := hx.Rand(152)
	n := 0
	err := hx.ReadCases(f.Str("cases", ""), func(raw json.RawMessage) error {
		var c struct {
			S      []string `json:"s"`
			Accept bool     `json:"accept"`
			Unit   string   `json:"unit"`
		}
		if err := json.Unmarshal(raw, &c); err != nil {
			return err
		}
		n++
		for v := 0; v < 2; v++ {
			var sb strings.Builder
			digits := ""
			for _, cl := range c.S {
				cs := hbChars[cl]
				ch := cs[rng.Intn(len(cs))]
				if v == 0 {
					ch = cs[0]
				}
				sb.WriteString(ch)
				if cl == "d" {
					digits += ch
				}
			}
			in := sb.String()
			var got log.HumanizeBytes
			var perr error
			if p := hx.Catch(func() { got, perr = log.ParseHumanizeBytes(in) }); p != nil {
				r.Violate("humanbytes-panic", map[string]any{"in": in}, "ParseHumanizeBytes(%q) panicked: %v", in, p)
				continue
			}
			r.Eval(1)
			if c.Accept != (perr == nil) {
				r.Violate("humanbytes-"+tern(c.Accept, "rejected", "accepted"), map[string]any{"in": in}, "ParseHumanizeBytes(%q): error=%v, specification accept=%v", in, perr, c.Accept)
				continue
			}
			if c.Accept {
				var num int64
				fmt.Sscanf(digits, "%d", &num)
				mult := map[string]int64{"B": 1, "KB": 1024, "MB": 1024 * 1024}[c.Unit]
				if int64(got) != num*mult {
					r.Violate("humanbytes-value", map[string]any{"in": in}, "ParseHumanizeBytes(%q) = %d, want %d", in, got, num*mult)
				}
			}
		}
		return nil
	})
	if err != nil {
		r.SetInfra("read cases: %v", err)
	}
	r.NonTrivial(int64(n))
}
