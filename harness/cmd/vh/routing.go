package main

// C02 - replays the configurations enumerated by TLC from spec/Routing.tla through Refresh and
// observes, per registered tag, which logger's recording appender (or the console) gets an event.

import (
	"context"
	"encoding/json"
	"fmt"
	"math/rand"
	"os"
	"path/filepath"
	"strings"
	"time"

	"github.com/go-spring/log"

	"verifharness/hx"
	"verifharness/sys"
)

func init() { commands["routing"] = cmdRouting }

type routePat struct {
	N []string `json:"n"`
	K string   `json:"k"`
}

type routeLogger struct {
	Used  bool       `json:"used"`
	Empty bool       `json:"empty"`
	Pats  []routePat `json:"pats"`
}

type routeServe struct {
	Tag []string `json:"tag"`
	By  int      `json:"by"`
}

type routeCase struct {
	Loggers []routeLogger `json:"loggers"`
	Root    string        `json:"root"`
	OK      bool          `json:"ok"`
	Serve   []routeServe  `json:"serve"`
}

type segMap map[string]string

func (m segMap) name(syms []string) string {
	var sb strings.Builder
	for _, s := range syms {
		if v, ok := m[s]; ok {
			sb.WriteString(v)
		} else {
			sb.WriteString(s)
		}
	}
	return sb.String()
}

// anyLoggerType draws a logger plugin type for configurations that Refresh must reject: the tag rules hold for
// every type, with or without appender references ("" = keep the plain synchronous logger).
func anyLoggerType(rng *rand.Rand, app string) (string, []sys.Ref, map[string]string) {
	dir := filepath.Join(os.Getenv("VERIF_SCRATCH"), "routing-files")
	_ = os.MkdirAll(dir, 0o755)
	log.RegisterTimeRotation("rth", log.TimeRotation{Interval: time.Hour})
	switch rng.Intn(7) {
	case 0:
		return "AsyncLogger", []sys.Ref{{Ref: app}}, map[string]string{"bufferSize": "128"}
	case 1:
		return "Console", nil, nil
	case 2:
		return "Discard", nil, nil
	case 3:
		return "File", nil, map[string]string{"fileDir": dir, "fileName": "r.log"}
	case 4:
		return "RollingFile", nil, map[string]string{"fileDir": dir, "fileName": "rr.log", "rotation": "rth"}
	}
	return "", nil, nil
}

func cmdRouting(f hx.Flags, r *hx.Result) {
	defer rootAcrossGenerations(r)
	defer rootNameIsExact(r)
	rng := hx.Rand(2)
	repeats := f.Int("repeats", 3)
	segChoices := []segMap{
		{"a": "abc", "b": "x9z"},
		{"a": "a1", "b": "zz"},
		{"a": "q", "b": "7"},
		{"a": "aaaaaaaa", "b": "b"},
		// one segment a string prefix of the other: "P_*" must match whole segments, not characters
		{"a": "db", "b": "dbx"},
		{"a": "v10", "b": "v1"},
		{"a": "kk", "b": "k"},
		// tags of exactly 36 characters (the upper bound): "a_b" and "b_a"
		{"a": strings.Repeat("a", 18), "b": strings.Repeat("b", 17)},
	}
	console := sys.InstallConsole()
	ctx := context.Background()

	var universe map[string]*log.Tag
	var curMap segMap
	setup := func(m segMap, tags [][]string) {
		log.Destroy()
		log.VerifReset()
		universe = map[string]*log.Tag{}
		curMap = m
		for _, t := range tags {
			n := m.name(t)
			if p := hx.Catch(func() { universe[n] = log.RegisterTag(n) }); p != nil {
				delete(universe, n) // e.g. a one-segment tag shorter than 3 characters: not registrable
			}
		}
	}

	// the tag universe: optional leading underscore x 1..maxseg segments over {a,b}
	maxseg := f.Int("maxseg", 3)
	var tags [][]string
	var gen func(prefix []string, depth int)
	gen = func(prefix []string, depth int) {
		if depth > 0 {
			for _, lead := range []bool{false, true} {
				var t []string
				if lead {
					t = append(t, "_")
				}
				for i, sgm := range prefix {
					if i > 0 {
						t = append(t, "_")
					}
					t = append(t, sgm)
				}
				tags = append(tags, t)
			}
		}
		if depth == maxseg {
			return
		}
		for _, sym := range []string{"a", "b"} {
			gen(append(append([]string(nil), prefix...), sym), depth+1)
		}
	}
	gen(nil, 0)

	n := 0
	nontriv := map[string]bool{}
	err := hx.ReadCases(f.Str("cases", ""), func(raw json.RawMessage) error {
		var c routeCase
		if err := json.Unmarshal(raw, &c); err != nil {
			return err
		}
		if n%400 == 0 {
			setup(segChoices[rng.Intn(len(segChoices))], tags)
		}
		n++
		runRouteCase(r, rng, ctx, console, &c, curMap, universe, repeats, nontriv)
		if n <= 2 || n == 1000 {
			r.Sample(c)
		}
		return nil
	})
	if err != nil {
		r.SetInfra("read cases: %v", err)
	}
	log.Destroy()
	r.NonTrivial(int64(len(nontriv)))
}

func blanks(rng *rand.Rand) string { return []string{"", "", " ", "  ", "\t"}[rng.Intn(5)] }

func runRouteCase(r *hx.Result, rng *rand.Rand, ctx context.Context, console *sys.Console, c *routeCase,
	m segMap, universe map[string]*log.Tag, repeats int, nontriv map[string]bool) {

	// logger names in a seeded order so that "first processed" varies
	names := []string{"lga", "lgb", "lgc", "lgd", "lge"}
	rng.Shuffle(len(names), func(i, j int) { names[i], names[j] = names[j], names[i] })
	cfg := sys.Cfg{}
	sig := c.Root
	for i, lg := range c.Loggers {
		if !lg.Used {
			continue
		}
		app := fmt.Sprintf("rec%d", i+1)
		cfg.AddRec(app)
		var toks []string
		for _, p := range lg.Pats {
			var s string
			switch p.K {
			case "bad_star":
				s = "*"
			case "bad_mid":
				s = m.name([]string{"a", "_", "*", "_", "b"})
			case "bad_nosep":
				s = m.name([]string{"a", "*"})
			default:
				s = m.name(p.N)
			}
			toks = append(toks, s)
			if rng.Intn(4) == 0 { // duplicates within one logger are legal
				toks = append(toks, s)
			}
			sig += "|" + p.K + ":" + strings.Join(p.N, "")
		}
		rng.Shuffle(len(toks), func(a, b int) { toks[a], toks[b] = toks[b], toks[a] })
		for k := range toks {
			toks[k] = blanks(rng) + toks[k] + blanks(rng)
			if rng.Intn(6) == 0 {
				toks[k] += "," // empty entries are skipped
			}
		}
		tags := strings.Join(toks, ",")
		if lg.Empty {
			tags = []string{"", " ", ",", " , ,", "\x00"}[rng.Intn(5)]
			sig += "|empty"
		}
		if typ, refs, extra := anyLoggerType(rng, app); !c.OK && typ != "" {
			// a configuration that must be rejected: whatever plugin type declares the logger
			cfg.AddLogger(names[i], typ, "", tags, refs, false, extra)
		} else {
			cfg.AddLogger(names[i], "Logger", "", tags, []sys.Ref{{Ref: app}}, rng.Intn(2) == 0, nil)
		}
	}
	switch c.Root {
	case "plain":
		cfg.AddRec("recroot")
		cfg.AddLogger("root", "Logger", "", "\x00", []sys.Ref{{Ref: "recroot"}}, false, nil)
	case "withtags":
		cfg.AddRec("recroot")
		if typ, refs, extra := anyLoggerType(rng, "recroot"); typ != "" {
			cfg.AddLogger("root", typ, "", m.name([]string{"a", "_", "b"}), refs, false, extra)
		} else {
			cfg.AddLogger("root", "Logger", "", m.name([]string{"a", "_", "b"}), []sys.Ref{{Ref: "recroot"}}, false, nil)
		}
	}
	if len(cfg) == 0 || !hasAppender(cfg) {
		// no logger and no root: Refresh requires an appender section; give it an unused appender
		cfg.AddRec("unused")
	}
	nontriv[sig] = true

	for rep := 0; rep < repeats; rep++ {
		perm := rng.Perm(len(cfg))
		var err error
		p := hx.Catch(func() { err = log.Refresh(cfg.Map(perm)) })
		r.Eval(1)
		info := map[string]any{"config": cfg.String(), "expect_ok": c.OK}
		if p != nil {
			r.Violate("refresh-panic", info, "Refresh panicked: %v", p)
			log.Destroy()
			log.VerifReset()
			return
		}
		if !c.OK {
			if err == nil {
				r.Violate("bad-config-accepted", info, "Refresh accepted a configuration the specification rejects (root=%s)", c.Root)
			}
			log.Destroy()
			continue
		}
		if err != nil {
			r.Violate("good-config-rejected", info, "Refresh rejected a valid configuration: %v", firstLine(err.Error()))
			log.Destroy()
			return
		}
		console.Take()
		// log one event per tag
		id := int64(0)
		want := map[int64]int{}
		tagOf := map[int64]string{}
		for _, s := range c.Serve {
			tn := m.name(s.Tag)
			tg, ok := universe[tn]
			if !ok {
				continue
			}
			id++
			want[id] = s.By
			tagOf[id] = tn
			log.Info(ctx, tg, log.Int("id", id))
		}
		// collect
		got := map[int64][]string{}
		for i := range c.Loggers {
			if a := sys.Appender(fmt.Sprintf("rec%d", i+1)); a != nil && c.Loggers[i].Used {
				for _, rec := range a.Recs() {
					got[rec.ID] = append(got[rec.ID], fmt.Sprintf("logger%d", i+1))
				}
			}
		}
		if c.Root == "plain" {
			if a := sys.Appender("recroot"); a != nil {
				for _, rec := range a.Recs() {
					got[rec.ID] = append(got[rec.ID], "root")
				}
			}
		}
		for _, line := range strings.Split(console.Take(), "\n") {
			if line == "" {
				continue
			}
			lid, _ := sys.ParseLine([]byte(line))
			// console lines carry "id=<n>" as a field
			if lid < 0 {
				if i := strings.Index(line, "id="); i >= 0 {
					fmt.Sscanf(line[i+3:], "%d", &lid)
				}
			}
			got[lid] = append(got[lid], "builtin")
		}
		for k := int64(1); k <= id; k++ {
			exp := fmt.Sprintf("logger%d", want[k])
			if want[k] == 0 {
				if c.Root == "plain" {
					exp = "root"
				} else {
					exp = "builtin"
				}
			}
			g := got[k]
			if len(g) != 1 || g[0] != exp {
				r.Violate("wrong-server", map[string]any{"config": cfg.String(), "tag": tagOf[k]},
					"tag %q: served by %v, specification says %s", tagOf[k], g, exp)
			}
		}
		log.Destroy()
		// fresh appenders next round: recording appenders are re-created by Refresh
	}
}

func hasAppender(c sys.Cfg) bool {
	for k := range c {
		if strings.HasPrefix(k, "appender.") {
			return true
		}
	}
	return false
}

func firstLine(s string) string {
	if i := strings.Index(s, "\n"); i >= 0 {
		return s[:i]
	}
	return s
}

// rootAcrossGenerations: which logger is "root" is a matter of the live configuration alone.  Generation 1 configures
// a root (ERROR and above), generation 2 configures none (the built-in console logger serves unlisted tags, every
// level), generation 3 configures the root again.
func rootAcrossGenerations(r *hx.Result) {
	console := sys.InstallConsole()
	ctx := context.Background()
	log.Destroy()
	log.VerifReset()
	sys.ResetAppenders()
	listed, unlisted := log.RegisterTag("sr_listed"), log.RegisterTag("sr_unlisted")
	withRoot := func(gen int) sys.Cfg {
		cfg := sys.Cfg{}
		cfg.AddRec(fmt.Sprintf("srl%d", gen))
		cfg.AddRec(fmt.Sprintf("srroot%d", gen))
		cfg.AddLogger("lg", "Logger", "", "sr_listed", []sys.Ref{{Ref: fmt.Sprintf("srl%d", gen)}}, false, nil)
		cfg.AddLogger("root", "Logger", "ERROR", "\x00", []sys.Ref{{Ref: fmt.Sprintf("srroot%d", gen)}}, false, nil)
		return cfg
	}
	noRoot := func(gen int) sys.Cfg {
		cfg := sys.Cfg{}
		cfg.AddRec(fmt.Sprintf("srl%d", gen))
		cfg.AddLogger("lg", "Logger", "", "sr_listed", []sys.Ref{{Ref: fmt.Sprintf("srl%d", gen)}}, false, nil)
		return cfg
	}
	count := func(app string, id int64) int {
		n := 0
		if a := sys.Appender(app); a != nil {
			for _, rc := range a.Recs() {
				if rc.ID == id {
					n++
				}
			}
		}
		return n
	}
	for gen, cfg := range []sys.Cfg{withRoot(1), noRoot(2), withRoot(3), noRoot(4)} {
		gen++
		desc := map[string]any{"generation": gen, "root_configured": gen%2 == 1, "history": "Refresh(root: ERROR..) Destroy Refresh(no root) Destroy Refresh(root) Destroy Refresh(no root)"}
		var rerr error
		if p := hx.Catch(func() { rerr = log.Refresh(cfg.Map(nil)) }); p != nil || rerr != nil {
			r.Violate("good-config-rejected", desc, "Refresh of generation %d: panic=%v err=%v", gen, p, rerr)
			log.Destroy()
			log.VerifReset()
			return
		}
		console.Take()
		base := int64(gen * 100)
		p := hx.Catch(func() {
			log.Info(ctx, unlisted, log.Int("id", base+1))
			log.Error(ctx, unlisted, log.Int("id", base+2))
			log.Info(ctx, listed, log.Int("id", base+3))
		})
		log.Destroy()
		r.Eval(3)
		if p != nil {
			r.Violate("log-panic:generations", desc, "logging panicked: %v", p)
			continue
		}
		out := console.Take()
		onConsole := func(id int64) int {
			n := 0
			for _, line := range strings.Split(out, "\n") {
				if lid, _ := sys.ParseLine([]byte(line)); lid == id {
					n++
				}
			}
			return n
		}
		// where each event must be: the listed tag's logger, the configured root (ERROR and above), or the console
		wantRootInfo, wantRootErr, wantConInfo, wantConErr := 0, 1, 0, 0
		if gen%2 == 0 {
			wantRootInfo, wantRootErr, wantConInfo, wantConErr = 0, 0, 1, 1
		}
		gotRootInfo, gotRootErr := 0, 0
		for g := 1; g <= 4; g++ { // any root appender of any generation
			gotRootInfo += count(fmt.Sprintf("srroot%d", g), base+1)
			gotRootErr += count(fmt.Sprintf("srroot%d", g), base+2)
		}
		if gotRootInfo != wantRootInfo || gotRootErr != wantRootErr || onConsole(base+1) != wantConInfo || onConsole(base+2) != wantConErr {
			r.Violate("wrong-server:root-across-generations", desc,
				"tag served by root, generation %d: INFO reached root appenders %d x / console %d x (want %d / %d), ERROR %d x / %d x (want %d / %d)",
				gen, gotRootInfo, onConsole(base+1), wantRootInfo, wantConInfo, gotRootErr, onConsole(base+2), wantRootErr, wantConErr)
		}
		if c := count(fmt.Sprintf("srl%d", gen), base+3); c != 1 {
			r.Violate("wrong-server:root-across-generations", desc, "listed tag, generation %d: its logger's appender holds the event %d times", gen, c)
		}
	}
	log.VerifReset()
}

// rootNameIsExact: only the logger called "root" is the root.  A logger whose name merely looks like it ("rooT",
// "ROOT", "roots") is an ordinary logger: without tags it makes Refresh fail, with tags it serves exactly those tags.
func rootNameIsExact(r *hx.Result) {
	sys.InstallConsole()
	ctx := context.Background()
	for _, name := range []string{"rooT", "ROOT", "rOOt", "roots", "root2"} {
		for _, withTags := range []bool{false, true} {
			log.Destroy()
			log.VerifReset()
			sys.ResetAppenders()
			listed, other := log.RegisterTag("rn_listed"), log.RegisterTag("rn_other")
			cfg := sys.Cfg{}
			cfg.AddRec("rn1")
			tags := "\x00"
			if withTags {
				tags = "rn_listed"
			}
			cfg.AddLogger(name, "Logger", "", tags, []sys.Ref{{Ref: "rn1"}}, false, nil)
			desc := map[string]any{"logger_name": name, "lists_tags": withTags}
			var rerr error
			if p := hx.Catch(func() { rerr = log.Refresh(cfg.Map(nil)) }); p != nil {
				r.Violate("refresh-panic", desc, "Refresh panicked: %v", p)
				continue
			}
			r.Eval(1)
			if !withTags {
				if rerr == nil {
					r.Violate("bad-config-accepted", desc, "a logger named %q that lists no tags was accepted (only \"root\" may do without)", name)
				}
				log.Destroy()
				continue
			}
			if rerr != nil {
				r.Violate("good-config-rejected", desc, "a logger named %q with a tag list was rejected: %v", name, firstLine(rerr.Error()))
				continue
			}
			log.Info(ctx, listed, log.Int("id", 1))
			log.Info(ctx, other, log.Int("id", 2))
			log.Destroy()
			n1, n2 := 0, 0
			for _, rc := range sys.Appender("rn1").Recs() {
				if rc.ID == 1 {
					n1++
				}
				if rc.ID == 2 {
					n2++
				}
			}
			if n1 != 1 || n2 != 0 {
				r.Violate("wrong-server", desc, "logger %q: its listed tag reached it %d x, an unlisted tag %d x (want 1 / 0: it is not the root)", name, n1, n2)
			}
		}
	}
	log.VerifReset()
}
