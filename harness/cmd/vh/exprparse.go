package main

// C17 - replays the token strings enumerated by TLC from spec/ExprParser.tla on expr.Parse: tokens are
// concretised (identifiers, integers with sign / hex, floats in every grammar form, string literals with
// every escape the lexer admits, raw non-ASCII and raw line breaks) with arbitrary spacing; accepted
// strings must yield exactly the specification's flattened map, rejected ones an error and no map.
// Totality is exercised on random and mutated inputs up to 64 KiB under a watchdog.

import (
	"bytes"
	"encoding/json"
	"fmt"
	"math/rand"
	"strings"
	"time"

	"github.com/go-spring/log/expr"

	"verifharness/hx"
)

func init() { commands["exprparse"] = cmdExprParse }

type exTok struct {
	K string `json:"k"`
	T string `json:"t"`
}

type exCase struct {
	Toks    []exTok             `json:"toks"`
	Verdict string              `json:"verdict"`
	Result  [][]json.RawMessage `json:"result"`
}

var exIdents = []string{"level", "x_1", "A9_", "_u", "fileName", "T", "Logger", "e", "x", "E5", "a0xF", "true", "nil",
	"abcdefghijklmnopqrstuvwxyz", "ABCDEFGHIJKLMNOPQRSTUVWXYZ", "_0123456789", "f", "F", "xf", "typeOf"}
var exInts = []string{"42", "-17", "+5", "0xFF", "007", "0", "0x0", "9223372036854775808", "-0", "0xff", "0xdeadbeef", "0x1f", "0xCafe",
	"0x0123456789abcdefABCDEF", "1234567890", "-9876543210"}
var exIdx = []string{"0", "1", "12", "007"}
var exFloats = []string{"3.14", "-0.5", "+2E10", ".25e-2", "1e5", "6.0E+3", "-.5", "0.0", "1E-9", "12.50e+02", "0123456789.0123456789e-0123456789", "9.9"}

type exStr struct{ lit, val string }

var exStrings = []exStr{
	{`"hello"`, "hello"}, {`""`, ""}, {`"a\"b"`, `a"b`}, {`"back\\slash"`, `back\slash`}, {`"sl\/ash"`, "sl/ash"},
	{`"\b\f\n\r\t"`, "\b\f\n\r\t"}, {"\"raw \n line break\"", "raw \n line break"}, {"\"tab\there\"", "tab\there"},
	{`"ünï ✓ 日本"`, "ünï ✓ 日本"}, {`"{ , = } [ ] ."`, "{ , = } [ ] ."}, {`"//comment?"`, "//comment?"}, {`"'single'"`, "'single'"},
	{`"${prop}"`, "${prop}"}, {"\" !#$%&'()*+,-./0123456789:;<=>?@ABCDEFGHIJKLMNOPQRSTUVWXYZ[]^_`abcdefghijklmnopqrstuvwxyz{|}~\"", " !#$%&'()*+,-./0123456789:;<=>?@ABCDEFGHIJKLMNOPQRSTUVWXYZ[]^_`abcdefghijklmnopqrstuvwxyz{|}~"}, {`"\\\""`, `\"`},
	// an escaped backslash followed by a letter that would itself be an escape
	{`"C:\\new\\table\\report.log"`, `C:\new\table\report.log`}, {`"\\n"`, `\n`}, {`"\\\\"`, `\\`}, {`"\\b\\f\\r\\/"`, `\b\f\r\/`},
	{`"\\\n"`, "\\\n"},
	// escapes next to characters outside ASCII, runs of blanks and other white space inside a value
	{`"é\n日本\t✓"`, "é\n日本\t✓"}, {`"naïve \"quote\" 🙂"`, `naïve "quote" 🙂`}, {`"\\ü\/ß"`, `\ü/ß`}, {`"%d  %msg   end"`, "%d  %msg   end"},
	{"\"nb\u00a0sp \u2003em\"", "nb\u00a0sp \u2003em"}, {"\" lead and trail  \"", " lead and trail  "}, {"\"a\r\n\r\nb\"", "a\r\n\r\nb"},
}

func cmdExprParse(f hx.Flags, r *hx.Result) {
	rng := hx.Rand(17)
	variants := f.Int("variants", 2)
	n := 0
	sigs := map[string]bool{}
	err := hx.ReadCases(f.Str("cases", ""), func(raw json.RawMessage) error {
		var c exCase
		if err := json.Unmarshal(raw, &c); err != nil {
			return err
		}
		n++
		sig := c.Verdict
		for _, t := range c.Toks {
			sig += " " + t.K
		}
		sigs[sig] = true
		for v := 0; v < variants; v++ {
			exRunCase(r, rng, &c)
		}
		if n == 5 || n == 5000 {
			r.Sample(c)
		}
		return nil
	})
	if err != nil {
		r.SetInfra("read cases: %v", err)
	}
	r.NonTrivial(int64(len(sigs)))
	exTotality(r, rng, f.Int("fuzz", 3000))
}

func exRunCase(r *hx.Result, rng *rand.Rand, c *exCase) {
	// consistent identifier mapping within the case
	idmap := map[string]string{}
	perm := rng.Perm(len(exIdents))
	for i, a := range []string{"a", "b", "T", "U"} {
		idmap[a] = exIdents[perm[i]]
	}
	idmap["type"] = "type"
	vals := map[string]string{} // token text rendering of scalar tokens -> value text, per occurrence
	var sb strings.Builder
	conc := make([]string, len(c.Toks)) // value text contributed by token i (for keys / values)
	ws := func() string {
		switch rng.Intn(6) {
		case 0:
			return ""
		case 1:
			return "  "
		case 2:
			return "\n"
		case 3:
			return "\t "
		case 4:
			return " \r\n  "
		}
		return " "
	}
	isPunct := func(k string) bool { return strings.Contains("{},=[]", k) && len(k) == 1 }
	prevK := ""
	sb.WriteString(ws())
	for i, t := range c.Toks {
		var lit string
		switch t.K {
		case "IDENT":
			lit = idmap[t.T]
			conc[i] = lit
		case "INTEGER":
			if t.T == "IDX" {
				lit = exIdx[rng.Intn(len(exIdx))]
			} else {
				lit = exInts[rng.Intn(len(exInts))]
			}
			conc[i] = lit
		case "FLOAT":
			lit = exFloats[rng.Intn(len(exFloats))]
			conc[i] = lit
		case "STRING":
			s := exStrings[rng.Intn(len(exStrings))]
			lit, conc[i] = s.lit, s.val
		default:
			lit = t.T
			conc[i] = t.T
		}
		if i > 0 {
			sep := ws()
			// two adjacent tokens must not fuse into one lexeme
			if sep == "" && !(isPunct(prevK) || isPunct(t.K)) {
				sep = " "
			}
			sb.WriteString(sep)
		}
		sb.WriteString(lit)
		prevK = t.K
	}
	sb.WriteString(ws())
	_ = vals
	input := sb.String()
	var got map[string]string
	var perr error
	ret, p := hx.Within(5*time.Second, func() { got, perr = expr.Parse(input) })
	r.Eval(1)
	desc := map[string]any{"input": clip(input, 300), "verdict": c.Verdict}
	if !ret {
		r.Violate("parse-blocked", desc, "expr.Parse did not return within 5 s")
		return
	}
	if p != nil {
		r.Violate("parse-panic", desc, "expr.Parse panicked: %v", p)
		return
	}
	if got != nil && perr != nil {
		r.Violate("map-and-error", desc, "expr.Parse returned both a map and an error")
		return
	}
	if c.Verdict != "accept" {
		if perr == nil {
			r.Violate("malformed-accepted:"+c.Verdict, desc, "expr.Parse accepted a malformed expression and returned %v", got)
		}
		return
	}
	if perr != nil {
		key := "wellformed-rejected"
		if strings.Contains(input, `\/`) {
			key += ":escaped-slash"
		} else if strings.Contains(input, "raw \n") || strings.Contains(input, "tab\there") {
			key += ":raw-control-in-string"
		}
		r.Violate(key, desc, "expr.Parse rejected a well-formed expression: %s", firstLine(perr.Error()))
		return
	}
	// expected map: the specification's assignments reference token positions; later wins
	want := map[string]string{}
	text := func(pos int) string {
		switch {
		case pos == 0:
			return "type"
		case pos == 1000:
			return "."
		case pos >= 1 && pos <= len(c.Toks):
			return conc[pos-1]
		}
		return "?"
	}
	for _, kv := range c.Result {
		var keyParts []int
		var val int
		_ = json.Unmarshal(kv[0], &keyParts)
		_ = json.Unmarshal(kv[1], &val)
		var kb strings.Builder
		for _, part := range keyParts {
			kb.WriteString(text(part))
		}
		want[kb.String()] = text(val)
	}
	if len(got) != len(want) {
		r.Violate("flatten-mismatch", desc, "expr.Parse returned %v, specification: %v", got, want)
		return
	}
	for k, v := range want {
		if gv, ok := got[k]; !ok || gv != v {
			r.Violate("flatten-mismatch", desc, "key %q: got %q (present=%v), specification %q; full result %v", k, gv, ok, v, got)
			return
		}
	}
	// the result is the caller's: whatever the caller does to it, the same text parsed again (here with other white
	// space around it) flattens to the same map
	if rng.Intn(4) == 0 {
		for k := range got {
			got[k] = "edited by the caller"
		}
		delete(got, "type")
		got["added.by.the.caller"] = "x"
		var again map[string]string
		ret, p := hx.Within(5*time.Second, func() { again, perr = expr.Parse("\t" + strings.TrimSpace(input) + " \n") })
		r.Eval(1)
		if !ret || p != nil || perr != nil {
			r.Violate("second-parse-failed", desc, "the same expression parsed a second time: returned=%v panic=%v err=%v", ret, p, perr)
			return
		}
		if len(again) != len(want) {
			r.Violate("flatten-mismatch:second-parse", desc, "parsed a second time (after the caller edited the first result) expr.Parse returned %v, specification: %v", again, want)
			return
		}
		for k, v := range want {
			if gv, ok := again[k]; !ok || gv != v {
				r.Violate("flatten-mismatch:second-parse", desc, "parsed a second time (after the caller edited the first result): key %q: got %q (present=%v), specification %q", k, gv, ok, v)
				return
			}
		}
	}
}

// exTotality: arbitrary inputs never panic, never block, never return both results.
func exTotality(r *hx.Result, rng *rand.Rand, rounds int) {
	seeds := []string{`T{a="x",b=U{c=1,d=[2]}}`, `Logger { level = "info", path = /var/log }`, `A{b.c[0].d=1e5,}`, `X{y=Z{w=V{}}}`}
	alphabet := []byte("{}[],=.\"\\ \n\tabcxE019+-_/*!\x00\xff\xc3")
	for i := 0; i < rounds; i++ {
		var in []byte
		switch i % 4 {
		case 0:
			n := rng.Intn(200)
			if i%400 == 0 {
				n = 65536
			}
			in = make([]byte, n)
			for j := range in {
				in[j] = byte(rng.Intn(256))
			}
		case 1:
			n := rng.Intn(300)
			if i%401 == 1 {
				n = 65536
			}
			in = make([]byte, n)
			for j := range in {
				in[j] = alphabet[rng.Intn(len(alphabet))]
			}
		case 2:
			s := []byte(seeds[rng.Intn(len(seeds))])
			for k := 0; k < 1+rng.Intn(4); k++ {
				if len(s) == 0 {
					break
				}
				p := rng.Intn(len(s))
				switch rng.Intn(3) {
				case 0:
					s = append(s[:p], s[p+1:]...)
				case 1:
					s[p] = alphabet[rng.Intn(len(alphabet))]
				default:
					s = append(s[:p], append([]byte{alphabet[rng.Intn(len(alphabet))]}, s[p:]...)...)
				}
			}
			in = s
		default:
			depth := 1 + rng.Intn(40)
			if i%403 == 3 {
				depth = 3000
			}
			in = []byte(strings.Repeat("T{a=", depth) + "1" + strings.Repeat("}", depth))
			if i%13 == 3 { // cut off inside: error recovery walks the whole context chain (quadratic, ~1 s at depth 1500)
				in = in[:4*min(depth, 1500)]
			}
		}
		if i < 256*6 {
			// homogeneous inputs: one byte value repeated, at lengths around typical internal limits; every third one
			// followed by a well-formed expression
			in = bytes.Repeat([]byte{byte(i % 256)}, []int{1, 255, 256, 257, 300, 1025}[i/256])
			if i%3 == 0 {
				in = append(in, []byte(" T{a=1}")...)
			}
		}
		var got map[string]string
		var perr error
		ret, p := hx.Within(20*time.Second, func() { got, perr = expr.Parse(string(in)) })
		r.Eval(1)
		desc := map[string]any{"input": clip(fmt.Sprintf("%q", in), 200), "len": len(in)}
		switch {
		case !ret:
			r.Violate("parse-blocked", desc, "expr.Parse did not return within 20 s on a %d-byte input", len(in))
			return
		case p != nil:
			r.Violate("parse-panic", desc, "expr.Parse panicked: %v", p)
		case got != nil && perr != nil:
			r.Violate("map-and-error", desc, "expr.Parse returned both a map and an error")
		}
	}
}
