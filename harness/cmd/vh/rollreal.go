package main

// C13, direction B: a real RollingFileAppender under the real clock (no hooks): 1-16 writers cross
// several 1-2 s interval boundaries, with idle gaps and stop/start cycles, lines of 1 B - 64 KiB.
// Every writer notes the start and end time of each of its own calls; afterwards the directory is
// read and one history per run is written as ndjson for spec/RollingHistory.tla.

import (
	"encoding/json"
	"fmt"
	"math/rand"
	"os"
	"path/filepath"
	"strings"
	"sync"
	"sync/atomic"
	"time"

	"github.com/go-spring/log"

	"verifharness/hx"
)

func init() { commands["rollreal"] = cmdRollReal }

type rrWrite struct {
	ID    int64 `json:"id"`
	W     int   `json:"w"`
	Start int64 `json:"start"`
	End   int64 `json:"end"`
	File  int64 `json:"file"`
	Count int   `json:"count"`
}

type rrRun struct {
	Interval int       `json:"interval"`
	Solo     bool      `json:"solo"`
	T0       int64     `json:"t0"`
	T1       int64     `json:"t1"`
	Files    []int64   `json:"files"`
	Writes   []rrWrite `json:"writes"`
	Desc     string    `json:"desc"`
}

func cmdRollReal(f hx.Flags, r *hx.Result) {
	rng := hx.Rand(13)
	tmp, err := os.MkdirTemp(os.Getenv("VERIF_SCRATCH"), "rl-")
	if err != nil {
		r.SetInfra("mkdtemp: %v", err)
		return
	}
	defer os.RemoveAll(tmp)
	nruns := f.Int("runs", 4)
	// the zone the process lives in (file names carry local time; the retention scan compares ages) and the retention
	rrMaxAge = int32(f.Int("maxage", 1000))
	switch f.Str("zone", "") {
	case "west":
		time.Local = time.FixedZone("WEST", -11*3600)
	case "east":
		time.Local = time.FixedZone("EAST", 13*3600+45*60)
	}
	seconds := f.Int("seconds", 4)
	runs := make([]*rrRun, nruns)
	var wg sync.WaitGroup
	for k := 0; k < nruns; k++ {
		wg.Add(1)
		seed := rng.Int63()
		go func(k int, seed int64) {
			defer wg.Done()
			runs[k] = rollRealOne(r, filepath.Join(tmp, fmt.Sprintf("run%d", k)), k, seed, seconds)
		}(k, seed)
	}
	wg.Wait()
	out, err := os.Create(f.Str("dump", filepath.Join(tmp, "runs.ndjson")))
	if err != nil {
		r.SetInfra("dump: %v", err)
		return
	}
	defer out.Close()
	for _, run := range runs {
		if run == nil {
			continue
		}
		b, _ := json.Marshal(run)
		out.Write(append(b, '\n'))
		r.Eval(int64(len(run.Writes)))
		r.NonTrivial(1)
		r.Trace(1)
	}
	if runs[0] != nil {
		short := *runs[0]
		if len(short.Writes) > 5 {
			short.Writes = short.Writes[:5]
		}
		r.Sample(short)
	}
}

var rrMaxAge int32 = 1000

// file names of the runs: plain, and with characters that mean something to a formatter
var rrFileNames = []string{"rt.log", "web%2Fapi.log", "rt.log", "x%.0s.log", "rt.log", "100%.log", "a%%b%d.log"}

func rollRealOne(r *hx.Result, dir string, k int, seed int64, seconds int) *rrRun {
	fileName := rrFileNames[k%len(rrFileNames)]
	_ = os.MkdirAll(dir, 0o755)
	rng := rand.New(rand.NewSource(seed))
	interval := 1 + k%2
	writers := []int{1, 1, 2, 4, 8, 16}[k%6]
	solo := writers == 1
	app := &log.RollingFileAppender{Layout: &log.TextLayout{BaseLayout: log.BaseLayout{FileLineLength: 48}}, FileDir: dir, FileName: fileName,
		Rotation: log.TimeRotation{Interval: time.Duration(interval) * time.Second}, MaxAge: rrMaxAge}
	// a file of the same name may already exist: its content must survive the Start
	run := &rrRun{Interval: interval, Solo: solo, Desc: fmt.Sprintf("%d writers, interval %ds, file name %q, zone %s, maxAge %d h", writers, interval, fileName, time.Local, rrMaxAge)}
	run.Files, run.Writes = []int64{}, []rrWrite{} // never null in the dump, even when the directory ends up empty
	run.T0 = time.Now().Unix()
	if err := app.Start(); err != nil {
		r.SetInfra("rolling start: %v", err)
		return nil
	}
	var mu sync.Mutex
	var nextID int64
	var oneByte, emptyLines int64
	deadline := time.Now().Add(time.Duration(seconds) * time.Second)
	sizes := []int{1, 10, 100, 1000, 8000, 65536}
	writePhase := func(until time.Time) {
		var wg sync.WaitGroup
		for w := 0; w < writers; w++ {
			wg.Add(1)
			wseed := rng.Int63()
			go func(w int, wseed int64) {
				defer wg.Done()
				wr := rand.New(rand.NewSource(wseed))
				for time.Now().Before(until) {
					mu.Lock()
					nextID++
					id := nextID
					mu.Unlock()
					size := sizes[wr.Intn(len(sizes))]
					line := []byte(fmt.Sprintf("W id=%d %s end=%d\n", id, strings.Repeat("p", size), id))
					if wr.Intn(8) == 0 { // the smallest write there is: one byte (an empty line); counted, not identified
						atomic.AddInt64(&oneByte, 1)
						if p := hx.Catch(func() { app.Write([]byte("\n")) }); p != nil {
							r.Violate("write-panic:rolling", run.Desc, "Write of one byte panicked: %v", p)
							return
						}
					}
					t0 := time.Now()
					p := hx.Catch(func() { app.Write(line) })
					t1 := time.Now()
					if p != nil {
						r.Violate("write-panic:rolling", run.Desc, "Write panicked: %v", p)
						return
					}
					mu.Lock()
					run.Writes = append(run.Writes, rrWrite{ID: id, W: w, Start: t0.UnixMilli(), End: t1.UnixMilli()})
					mu.Unlock()
					switch wr.Intn(6) {
					case 0: // idle across a whole interval
						time.Sleep(time.Duration(interval)*time.Second + 50*time.Millisecond)
					case 1, 2:
						time.Sleep(time.Duration(wr.Intn(300)) * time.Millisecond)
					default:
						time.Sleep(time.Duration(wr.Intn(20)) * time.Millisecond)
					}
				}
			}(w, wseed)
		}
		wg.Wait()
	}
	// burst: every writer writes 64 KiB lines back to back (whole, unmixed lines even under contention)
	if writers > 1 {
		var wg sync.WaitGroup
		until := time.Now().Add(300 * time.Millisecond)
		for w := 0; w < max(writers, 4); w++ {
			wg.Add(1)
			go func(w int) {
				defer wg.Done()
				for time.Now().Before(until) {
					mu.Lock()
					nextID++
					id := nextID
					mu.Unlock()
					line := []byte(fmt.Sprintf("W id=%d %s end=%d\n", id, strings.Repeat(string(rune('a'+w%26)), 65536+int(id%7)), id))
					t0 := time.Now()
					app.Write(line)
					t1 := time.Now()
					mu.Lock()
					run.Writes = append(run.Writes, rrWrite{ID: id, W: w, Start: t0.UnixMilli(), End: t1.UnixMilli()})
					mu.Unlock()
				}
			}(w)
		}
		wg.Wait()
	}
	half := time.Now().Add(time.Until(deadline) / 2)
	writePhase(half)
	// stop/start cycle with no write in progress, inside one second
	if ret, p := hx.Within(8*time.Second, func() { app.Stop() }); !ret || p != nil {
		r.Violate("blocked:stop:rolling", map[string]any{"phase": "restart"}, "Stop returned=%v panic=%v", ret, p)
		return nil
	}
	if err := app.Start(); err != nil {
		r.SetInfra("rolling restart: %v", err)
		return nil
	}
	writePhase(deadline)
	if ret, p := hx.Within(8*time.Second, func() { app.Stop(); app.Stop() }); !ret || p != nil {
		r.Violate("blocked:stop:rolling", map[string]any{"phase": "end, stopped twice"}, "Stop returned=%v panic=%v", ret, p)
		return nil
	}
	run.T1 = time.Now().Unix()
	// read the directory
	ents, _ := os.ReadDir(dir)
	type loc struct {
		file  int64
		count int
	}
	where := map[int64]*loc{}
	for _, e := range ents {
		name := e.Name()
		ts := strings.TrimPrefix(name, fileName+".")
		tm, err := time.ParseInLocation("20060102150405", ts, time.Local)
		if !strings.HasPrefix(name, fileName+".") || len(ts) != 14 || err != nil {
			r.Violate("file-name-law", run.Desc, "unexpected file name %q in the log directory", name)
			continue
		}
		run.Files = append(run.Files, tm.Unix())
		b, _ := os.ReadFile(filepath.Join(dir, name))
		lines := strings.Split(string(b), "\n")
		for li, line := range lines {
			if line == "" {
				if li < len(lines)-1 {
					emptyLines++ // a one-byte write (what follows the file's last line break is not a line)
				}
				continue
			}
			var id, end int64
			if _, err := fmt.Sscanf(line, "W id=%d", &id); err != nil {
				r.Violate("torn-line", run.Desc, "file %s holds a line that no writer wrote: %.60q", name, line)
				continue
			}
			tail := line[strings.LastIndex(line, " ")+1:]
			fmt.Sscanf(tail, "end=%d", &end)
			body := line[strings.Index(line, " ")+1:]
			if sp := strings.Index(body, " "); sp > 0 {
				pad := body[strings.Index(body, " ")+1:]
				if k := strings.LastIndex(pad, " "); k > 0 {
					pad = pad[:k]
					if strings.Trim(pad, pad[:1]) != "" {
						r.Violate("torn-line", run.Desc, "file %s: the line of write %d mixes bytes of different writes", name, id)
						continue
					}
				}
			}
			if end != id {
				r.Violate("torn-line", run.Desc, "file %s holds a torn line for write %d: %.40q ... %.20q", name, id, line, tail)
				continue
			}
			l := where[id]
			if l == nil {
				l = &loc{}
				where[id] = l
			}
			l.file = tm.Unix()
			l.count++
		}
	}
	if emptyLines != atomic.LoadInt64(&oneByte) {
		r.Violate("one-byte-writes", run.Desc, "%d writes of one byte (a line break) were issued, the files hold %d empty lines", oneByte, emptyLines)
	}
	for i := range run.Writes {
		if l := where[run.Writes[i].ID]; l != nil {
			run.Writes[i].File, run.Writes[i].Count = l.file, l.count
		}
	}
	os.RemoveAll(dir)
	// TLC's integers are 32 bit: make every time relative to the minute in which the run started
	// (a multiple of both intervals, so interval arithmetic is unchanged)
	base := run.T0 - run.T0%60
	for i := range run.Writes {
		run.Writes[i].Start -= base * 1000
		run.Writes[i].End -= base * 1000
		if run.Writes[i].Count > 0 {
			run.Writes[i].File -= base
		}
	}
	for i := range run.Files {
		run.Files[i] -= base
	}
	run.T0 -= base
	run.T1 -= base
	return run
}
