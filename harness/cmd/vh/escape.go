package main

// C09 - replays the (class string -> output tokens) table emitted by TLC from spec/Escape.tla
// against log.WriteLogString and the key/value paths of both encoders.

import (
	"bytes"
	"encoding/json"
	"fmt"
	"math/rand"
	"strings"
	"sync"
	"unicode/utf8"

	"github.com/go-spring/log"

	"verifharness/hx"
)

func init() { commands["escape"] = cmdEscape }

type escTok struct {
	T string   `json:"t"`
	C []string `json:"c"`
}

type escCase struct {
	S   []string `json:"s"`
	Out []escTok `json:"out"`
}

// byte ranges of the 21 classes of Escape.tla
var escClassBytes = map[string][]byte{}
var escClassOf [256]string

func init() {
	add := func(name string, lo, hi int) {
		for b := lo; b <= hi; b++ {
			escClassBytes[name] = append(escClassBytes[name], byte(b))
			escClassOf[b] = name
		}
	}
	add("c0", 0x00, 0x1f) // refined below
	add("asc", 0x20, 0x7e)
	add("del", 0x7f, 0x7f)
	add("80", 0x80, 0x8f)
	add("90", 0x90, 0x9f)
	add("a0", 0xa0, 0xbf)
	add("c0x", 0xc0, 0xc1)
	add("c2", 0xc2, 0xdf)
	add("e0", 0xe0, 0xe0)
	add("e1", 0xe1, 0xec)
	add("ed", 0xed, 0xed)
	add("ee", 0xee, 0xef)
	add("f0", 0xf0, 0xf0)
	add("f1", 0xf1, 0xf3)
	add("f4", 0xf4, 0xf4)
	add("f5", 0xf5, 0xff)
	single := map[byte]string{0x09: "tab", 0x0a: "lf", 0x0d: "cr", 0x22: "quo", 0x5c: "bsl"}
	for b, n := range single {
		old := escClassOf[b]
		lst := escClassBytes[old][:0:0]
		for _, x := range escClassBytes[old] {
			if x != b {
				lst = append(lst, x)
			}
		}
		escClassBytes[old] = lst
		escClassBytes[n] = []byte{b}
		escClassOf[b] = n
	}
}

const hexLower = "0123456789abcdef"

// render turns the specification's tokens into wire bytes, given the concrete input bytes.
func escRender(dst []byte, toks []escTok, in []byte) []byte {
	pos := 0
	for _, t := range toks {
		n := len(t.C)
		switch t.T {
		case "self", "rune":
			dst = append(dst, in[pos:pos+n]...)
		case "short":
			dst = append(dst, '\\')
			switch in[pos] {
			case '\t':
				dst = append(dst, 't')
			case '\n':
				dst = append(dst, 'n')
			case '\r':
				dst = append(dst, 'r')
			default:
				dst = append(dst, in[pos])
			}
		case "u00":
			dst = append(dst, '\\', 'u', '0', '0', hexLower[in[pos]>>4], hexLower[in[pos]&0xf])
		case "fffd":
			dst = append(dst, '\\', 'u', 'f', 'f', 'f', 'd')
		}
		pos += n
	}
	return dst
}

type escTable map[string][]escTok

func classKey(b []byte) string {
	var sb strings.Builder
	for _, x := range b {
		sb.WriteString(escClassOf[x])
		sb.WriteByte(',')
	}
	return sb.String()
}

// expectLong runs the table as a sliding-window transducer over an arbitrarily long input.
func (tb escTable) expectLong(in []byte, maxWin int) ([]byte, error) {
	var out []byte
	for i := 0; i < len(in); {
		w := 3
		if c := escClassOf[in[i]]; c == "f0" || c == "f1" || c == "f4" {
			w = 4
		}
		if w > maxWin {
			w = maxWin
		}
		if i+w > len(in) {
			w = len(in) - i
		}
		toks, ok := tb[classKey(in[i:i+w])]
		if !ok || len(toks) == 0 {
			return nil, fmt.Errorf("window %x not in TLC table", in[i:i+w])
		}
		out = escRender(out, toks[:1], in[i:])
		i += len(toks[0].C)
	}
	return out, nil
}

func realEscape(in []byte) []byte {
	var buf bytes.Buffer
	log.WriteLogString(&buf, string(in))
	return buf.Bytes()
}

// oracle: independent of both the library and the specification.
func escOracle(in, out []byte) string {
	if !utf8.Valid(out) {
		return "output is not valid UTF-8"
	}
	for _, b := range out {
		if b < 0x20 {
			return fmt.Sprintf("raw control byte %#x in output", b)
		}
	}
	var dec string
	q := make([]byte, 0, len(out)+2)
	q = append(q, '"')
	q = append(q, out...)
	q = append(q, '"')
	if err := json.Unmarshal(q, &dec); err != nil {
		return "not a JSON string literal: " + err.Error()
	}
	if dec != string([]rune(string(in))) {
		return fmt.Sprintf("decodes to %q, want %q", dec, string([]rune(string(in))))
	}
	return ""
}

func escCheck(r *hx.Result, in, want []byte, src string) {
	got := realEscape(in)
	r.Eval(1)
	if !bytes.Equal(got, want) {
		key := "escape-mismatch"
		if msg := escOracle(in, got); msg == "" {
			// the library's output is a correct escaping, merely a different one from the spec's
			// canonical form (e.g. \u0009 for \t): the property does not forbid it.
			return
		} else {
			r.Violate(key, map[string]any{"in_hex": fmt.Sprintf("%x", in), "src": src},
				"WriteLogString(% x) = %q, specification: %q; independent decoder: %s", in, got, want, msg)
		}
		return
	}
	if msg := escOracle(in, got); msg != "" {
		r.SetInfra("specification and code agree on %x -> %q but the independent oracle says: %s", in, got, msg)
	}
}

func cmdEscape(f hx.Flags, r *hx.Result) {
	rng := hx.Rand(9)
	// first of all, before anything else has been escaped in this process: repeated keys through pooled buffers
	escLayouts(r, rng, f.Int("layoutrounds", 1500)/2)
	table := escTable{}
	var cases []escCase
	maxWin := 0
	err := hx.ReadCases(f.Str("cases", ""), func(raw json.RawMessage) error {
		var c escCase
		if err := json.Unmarshal(raw, &c); err != nil {
			return err
		}
		cases = append(cases, c)
		table[strings.Join(c.S, ",")+tern(len(c.S) > 0, ",", "")] = c.Out
		if len(c.S) > maxWin {
			maxWin = len(c.S)
		}
		return nil
	})
	if err != nil {
		r.SetInfra("read cases: %v", err)
		return
	}
	variants := f.Int("variants", 3)
	nontriv := 0
	for ci, c := range cases {
		if len(c.S) >= 2 {
			nontriv++
		}
		for v := 0; v < variants; v++ {
			in := make([]byte, len(c.S))
			for i, cl := range c.S {
				bs := escClassBytes[cl]
				switch v {
				case 0:
					in[i] = bs[0]
				case 1:
					in[i] = bs[len(bs)-1]
				default:
					in[i] = bs[rng.Intn(len(bs))]
				}
			}
			want := escRender(nil, c.Out, in)
			escCheck(r, in, want, "class-table")
			if v == 0 && ci%7 == 0 {
				escEncoders(r, in, want)
			}
		}
		if ci == 5 || ci == len(cases)/2 || ci == len(cases)-1 {
			r.Sample(map[string]any{"classes": c.S, "tokens": c.Out})
		}
	}
	r.NonTrivial(int64(nontriv))

	// self-test: a wrong expectation must be noticed (binding demonstration)
	probe := hx.NewResult()
	escCheck(probe, []byte("a\nb"), []byte("a\nb"), "selftest")
	if probe.NViol() != 0 {
		r.SetInfra("self-test: equal-but-wrong expectation should not be reported through the oracle path")
	}
	probe2 := hx.NewResult()
	if msg := escOracle([]byte("a\nb"), []byte("a\nb")); msg == "" {
		_ = probe2
		r.SetInfra("self-test failed: oracle accepted a raw newline")
	}

	// exhaustive sweep of the full byte alphabet up to length n through the table
	if n := f.Int("sweep", 0); n > 0 {
		var wg sync.WaitGroup
		var mu sync.Mutex
		total := int64(0)
		for first := 0; first < 256; first++ {
			wg.Add(1)
			go func(first int) {
				defer wg.Done()
				cnt := int64(0)
				buf := make([]byte, n)
				buf[0] = byte(first)
				var rec func(d, L int)
				rec = func(d, L int) {
					if d == L {
						want, err := table.expectLong(buf[:L], maxWin)
						if err != nil {
							r.SetInfra("%v", err)
							return
						}
						got := realEscape(buf[:L])
						cnt++
						if !bytes.Equal(got, want) {
							if msg := escOracle(buf[:L], got); msg != "" {
								r.Violate("escape-mismatch", map[string]any{"in_hex": fmt.Sprintf("%x", buf[:L])},
									"WriteLogString(% x) = %q, specification: %q; independent decoder: %s", buf[:L], got, want, msg)
							}
						}
						return
					}
					for b := 0; b < 256; b++ {
						buf[d] = byte(b)
						rec(d+1, L)
					}
				}
				for L := 1; L <= n; L++ {
					rec(1, L)
				}
				mu.Lock()
				total += cnt
				mu.Unlock()
			}(first)
		}
		wg.Wait()
		r.Eval(total)
		r.Extra["sweep_strings"] = total
	}

	escLayouts(r, rng, f.Int("layoutrounds", 1500))
	// boundary alphabet (class edges) sampled at length <= 6 and long random strings through the window transducer
	edges := []byte{}
	for _, bs := range escClassBytes {
		edges = append(edges, bs[0], bs[len(bs)-1])
	}
	// position sweep: one (or two adjacent) class-edge bytes at every offset of otherwise plain strings whose
	// lengths straddle machine-word and block sizes - word-at-a-time or chunked fast paths must not depend on alignment
	for _, L := range []int{7, 8, 9, 15, 16, 17, 24, 31, 32, 33, 63, 64, 65} {
		for pos := 0; pos < L; pos++ {
			for ei, e := range edges {
				in := bytes.Repeat([]byte{'a'}, L)
				in[pos] = e
				if ei%2 == 1 && pos+1 < L {
					in[pos+1] = edges[(ei+pos)%len(edges)]
				}
				want, err := table.expectLong(in, maxWin)
				if err != nil {
					r.SetInfra("%v", err)
					return
				}
				escCheck(r, in, want, "position-sweep")
			}
		}
	}
	nr := f.Int("random", 3000)
	for k := 0; k < nr; k++ {
		var in []byte
		switch k % 3 {
		case 0:
			in = make([]byte, 1+rng.Intn(6))
			for i := range in {
				in[i] = edges[rng.Intn(len(edges))]
			}
		case 1:
			in = randUTF8ish(rng, 1+rng.Intn(64))
		default:
			L := 1 + rng.Intn(2048)
			if k%300 == 2 {
				L = 65536
			}
			in = randUTF8ish(rng, L)
		}
		want, err := table.expectLong(in, maxWin)
		if err != nil {
			r.SetInfra("%v", err)
			return
		}
		escCheck(r, in, want, "window-transducer")
	}
}

// escLayouts pushes a small pool of escape-class strings again and again, as keys and as values, through both
// layouts (pooled buffers, changing offsets): the escaper must be a pure function of its input, whatever came before.
func escLayouts(r *hx.Result, rng *rand.Rand, rounds int) {
	pool := []string{"k", "a\"b", "nl\nkey", "tab\t", "bs\\", "ctl\x01", "bad\xff", "ünï", "\xe2\x82", "q\"q\"", "plain_key", "\u2028"}
	jl := &log.JSONLayout{BaseLayout: log.BaseLayout{FileLineLength: 48}}
	tl := &log.TextLayout{BaseLayout: log.BaseLayout{FileLineLength: 48}}
	for i := 0; i < rounds; i++ {
		n := 1 + rng.Intn(5)
		var fields []log.Field
		var keys, vals []string
		for j := 0; j < n; j++ {
			k, v := pool[rng.Intn(len(pool))], pool[rng.Intn(len(pool))]
			keys, vals = append(keys, k), append(vals, v)
			fields = append(fields, log.String(k, v))
		}
		e := &log.Event{Level: log.InfoLevel, Tag: "_t", File: strings.Repeat("p/", rng.Intn(20)) + "f.go", Line: i, Fields: fields}
		if i%4 == 1 {
			// the header's own string values are strings of the line too: a source path with multi-byte runes (cut
			// byte-wise by the width), quotes, backslashes
			e.File = []string{strings.Repeat("目录/", 1+rng.Intn(20)) + "文件é.go", `C:\dir\"q"\` + strings.Repeat("s\\", rng.Intn(20)) + "f.go"}[rng.Intn(2)]
		}
		jb := jl.ToBytes(e)
		tb := tl.ToBytes(e)
		r.Eval(1)
		desc := map[string]any{"keys": keys, "values": vals, "round": i}
		var dec map[string]json.RawMessage
		line := bytes.TrimSuffix(jb, []byte("\n"))
		if !json.Valid(line) || !utf8.Valid(line) || json.Unmarshal(line, &dec) != nil {
			r.Violate("layout-escape-mismatch", desc, "JSON line with escaped keys/values is not valid: %.200q", line)
			continue
		}
		// expected tail of the JSON line
		var sb strings.Builder
		for j := range keys {
			sb.WriteByte(',')
			sb.WriteByte('"')
			sb.Write(realEscapeRef(keys[j]))
			sb.WriteString(`":"`)
			sb.Write(realEscapeRef(vals[j]))
			sb.WriteByte('"')
		}
		sb.WriteByte('}')
		if !bytes.HasSuffix(line, []byte(sb.String())) {
			r.Violate("layout-escape-mismatch", desc, "JSON line ends %.200q, want %.200q", line[max(0, len(line)-len(sb.String())-5):], sb.String())
		}
		var tbld strings.Builder
		for j := range keys {
			tbld.WriteString("||")
			tbld.Write(realEscapeRef(keys[j]))
			tbld.WriteByte('=')
			tbld.Write(realEscapeRef(vals[j]))
		}
		tbld.WriteByte('\n')
		if !strings.HasSuffix(string(tb), strings.TrimPrefix(tbld.String(), "||")) {
			r.Violate("layout-escape-mismatch", desc, "text line ends %.200q, want %.200q", tb[max(0, len(tb)-tbld.Len()-5):], tbld.String())
		}
	}
}

// realEscapeRef is the escaping of s computed on a fresh buffer by the function already validated above.
func realEscapeRef(s string) []byte { return realEscape([]byte(s)) }

func tern(c bool, a, b string) string {
	if c {
		return a
	}
	return b
}

// randUTF8ish mixes valid multi-byte runes, ASCII, control bytes and junk.
func randUTF8ish(rng *rand.Rand, n int) []byte {
	out := make([]byte, 0, n+4)
	for len(out) < n {
		switch rng.Intn(6) {
		case 0:
			out = append(out, byte(rng.Intn(256)))
		case 1:
			out = append(out, byte(rng.Intn(0x20)))
		case 2:
			out = utf8.AppendRune(out, rune(rng.Intn(0x10ffff)))
		case 3:
			out = append(out, `"\`[rng.Intn(2)])
		case 4:
			// truncated multi-byte sequence
			b := utf8.AppendRune(nil, rune(0x800+rng.Intn(0x10f000)))
			out = append(out, b[:len(b)-1]...)
		default:
			out = append(out, byte(0x20+rng.Intn(0x5f)))
		}
	}
	return out
}

// escEncoders pushes the string through the key and value paths of both encoders.
func escEncoders(r *hx.Result, in, esc []byte) {
	s := string(in)
	var jb bytes.Buffer
	je := log.NewJSONEncoder(&jb)
	je.AppendKey(s)
	je.AppendString(s)
	wantJ := `"` + string(esc) + `":"` + string(esc) + `"`
	r.Eval(1)
	if jb.String() != wantJ {
		if m := escOracle(in, extractBetween(jb.Bytes())); m != "" || !strings.HasPrefix(jb.String(), `"`) {
			r.Violate("encoder-escape-mismatch", map[string]any{"in_hex": fmt.Sprintf("%x", in)},
				"JSONEncoder key/value of % x = %q, specification %q", in, jb.String(), wantJ)
		}
	}
	var tb bytes.Buffer
	te := log.NewTextEncoder(&tb, "||")
	te.AppendKey(s)
	te.AppendString(s)
	wantT := string(esc) + "=" + string(esc)
	r.Eval(1)
	if tb.String() != wantT {
		r.Violate("encoder-escape-mismatch", map[string]any{"in_hex": fmt.Sprintf("%x", in)},
			"TextEncoder key/value of % x = %q, specification %q", in, tb.String(), wantT)
	}
}

// extractBetween returns the bytes of the first JSON string literal's body in `"..":".."`.
func extractBetween(b []byte) []byte {
	if len(b) < 2 || b[0] != '"' {
		return b
	}
	for i := 1; i < len(b); i++ {
		if b[i] == '\\' {
			i++
			continue
		}
		if b[i] == '"' {
			return b[1:i]
		}
	}
	return b
}
