package main

// C07 / C08 - replays the encoder call streams enumerated by TLC from spec/Encoder.tla: every stream
// is turned into a real field list through the public constructors with concrete boundary / random
// values, a real Event is formatted by JSONLayout and TextLayout, and
//   C07: the JSON line is validated by encoding/json, scanned into an ordered tree and compared with
//        the logged data and with the specification's token sequence;
//   C08: the text line is rebuilt from the real JSON line of the same event (header, then key=value
//        with string-like values unquoted) and compared byte for byte.

import (
	"bytes"
	"context"
	"encoding/json"
	"errors"
	"fmt"
	"math"
	"math/rand"
	"strconv"
	"strings"
	"time"
	"unicode/utf8"

	"github.com/go-spring/log"

	"verifharness/hx"
	"verifharness/sys"
)

func init() { commands["encoder"] = cmdEncoder }

type encCall struct {
	C string `json:"c"`
	K string `json:"k"`
}

type encCase struct {
	Calls []encCall `json:"calls"`
	JSON  []string  `json:"json"`
	Text  []string  `json:"text"`
}

// ---------------------------------------------------------------- expected tree
type xnode struct {
	kind  string // "int" "uint" "float" "bool" "str" "null" "anystr" "raw" "obj" "arr"
	text  string // int/uint: decimal text; raw: exact JSON
	f     float64
	b     bool
	s     string // str: the logged string
	keys  []string
	kids  []*xnode
	quote bool // string-like at top level: the text layout drops the quotes
}

// ---------------------------------------------------------------- JSON scanner (structure + raw spans)
type jnode struct {
	kind string // "str" "num" "lit" "obj" "arr"
	raw  string
	keys []string // raw key literals (with quotes)
	kids []*jnode
}

type jscan struct {
	s string
	i int
}

func (p *jscan) ws() {
	for p.i < len(p.s) && (p.s[p.i] == ' ' || p.s[p.i] == '\t' || p.s[p.i] == '\r' || p.s[p.i] == '\n') {
		p.i++
	}
}

func (p *jscan) str() (string, error) {
	st := p.i
	if p.i >= len(p.s) || p.s[p.i] != '"' {
		return "", errors.New("string expected")
	}
	p.i++
	for p.i < len(p.s) {
		switch p.s[p.i] {
		case '\\':
			p.i += 2
		case '"':
			p.i++
			return p.s[st:p.i], nil
		default:
			p.i++
		}
	}
	return "", errors.New("unterminated string")
}

func (p *jscan) value() (*jnode, error) {
	p.ws()
	if p.i >= len(p.s) {
		return nil, errors.New("value expected")
	}
	st := p.i
	switch c := p.s[p.i]; {
	case c == '"':
		r, err := p.str()
		return &jnode{kind: "str", raw: r}, err
	case c == '{':
		n := &jnode{kind: "obj"}
		p.i++
		p.ws()
		if p.i < len(p.s) && p.s[p.i] == '}' {
			p.i++
			n.raw = p.s[st:p.i]
			return n, nil
		}
		for {
			p.ws()
			k, err := p.str()
			if err != nil {
				return nil, err
			}
			p.ws()
			if p.i >= len(p.s) || p.s[p.i] != ':' {
				return nil, errors.New("colon expected")
			}
			p.i++
			v, err := p.value()
			if err != nil {
				return nil, err
			}
			n.keys = append(n.keys, k)
			n.kids = append(n.kids, v)
			p.ws()
			if p.i < len(p.s) && p.s[p.i] == ',' {
				p.i++
				continue
			}
			if p.i < len(p.s) && p.s[p.i] == '}' {
				p.i++
				n.raw = p.s[st:p.i]
				return n, nil
			}
			return nil, errors.New("',' or '}' expected")
		}
	case c == '[':
		n := &jnode{kind: "arr"}
		p.i++
		p.ws()
		if p.i < len(p.s) && p.s[p.i] == ']' {
			p.i++
			n.raw = p.s[st:p.i]
			return n, nil
		}
		for {
			v, err := p.value()
			if err != nil {
				return nil, err
			}
			n.kids = append(n.kids, v)
			p.ws()
			if p.i < len(p.s) && p.s[p.i] == ',' {
				p.i++
				continue
			}
			if p.i < len(p.s) && p.s[p.i] == ']' {
				p.i++
				n.raw = p.s[st:p.i]
				return n, nil
			}
			return nil, errors.New("',' or ']' expected")
		}
	default:
		for p.i < len(p.s) && !strings.ContainsRune(",]} \t\r\n", rune(p.s[p.i])) {
			p.i++
		}
		raw := p.s[st:p.i]
		if raw == "true" || raw == "false" || raw == "null" {
			return &jnode{kind: "lit", raw: raw}, nil
		}
		return &jnode{kind: "num", raw: raw}, nil
	}
}

func unq(raw string) (string, bool) {
	var s string
	if err := json.Unmarshal([]byte(raw), &s); err != nil {
		return "", false
	}
	return s, true
}

// ---------------------------------------------------------------- value pools
var encStrings = []string{"", "plain", "with \"quotes\"", `back\slash`, "line\nbreak\r\ttab", "ctl\x01\x1f", "del\x7f",
	"bad\xffutf\xc3", "\xe4\xb8", "héllo wörld ✓ 日本語", "valid \ufffd replacement rune", "sep\u2028\u2029 nul\x00", "\U0010ffff\u0080", "pipe||eq=sign", "  ", strings.Repeat("long", 300),
	"ends with the separator||", "||", "|", "a=b||", "=",
	"over\xc0\x80long", "\xc1\xbf", "\xc0\xafslash", "sur\xed\xa0\x80rogate", "\xf4\x90\x80\x80beyond"}

// keys: every escape class on its own inside otherwise plain text (a fast path may single out "plain" keys by a
// check that forgets one class), plus structural characters of the text layout and header names
var encKeys = []string{"k", "key2", "", "a\"b", "x=y", "p|q", "nl\nkey", "bad\xfe", "ключ", "msg", "level", "k",
	`back\slash`, `C:\path`, `trailing\`, "ctl\x01k", "esc\x1b", "tab\tk", "cr\rk", "del\x7f", "nul\x00k", "cut\xe4\xb8", "hi\x80", "ls\u2028", "time", "fileLine", "tag", "ov\xc0\x80", "\xc1\xbfk"}
var encInts = []int64{math.MinInt64, -1, 0, 1, math.MaxInt64, 1234567890123, -42}
var encUints = []uint64{0, 1, math.MaxUint64, math.MaxInt64 + 1, 4294967296}
var encFloats = []float64{0, math.Copysign(0, -1), 1.5, -2.25, 5e-324, math.MaxFloat64, -math.MaxFloat64, 1e21, 1e-7,
	float64(float32(0.1)), math.SmallestNonzeroFloat32, 123456789.123456789, 1e100,
	// whole numbers at and next to the integer types' bounds (2^63, 2^64, 2^53, 2^31, 2^32) and their neighbours
	9223372036854775808, -9223372036854775808, 9223372036854774784, 9223372036854777856, -9223372036854777856,
	18446744073709551616, 18446744073709549568, 9007199254740992, 9007199254740993, -9007199254740992, 2147483648, -2147483649,
	4294967296, 1e15, 1e16, 123456789012345678, 100, -7}
var encNonFin = []float64{math.NaN(), math.Inf(1), math.Inf(-1)}

type tstruct struct {
	A int               `json:"a"`
	B string            `json:"b"`
	C []float64         `json:"c,omitempty"`
	M map[string]string `json:"m,omitempty"`
}

// values with their own MarshalJSON: encoding/json compacts and validates what they return
type badMarshaler struct{}

func (badMarshaler) MarshalJSON() ([]byte, error) { return []byte("{bad json"), nil }

type errMarshaler struct{}

func (errMarshaler) MarshalJSON() ([]byte, error) {
	return nil, errors.New("cannot marshal\nsecond line \"quoted\" back\\slash \x01 ctl")
}

type textErrMarshaler struct{}

func (textErrMarshaler) MarshalText() ([]byte, error) { return nil, errors.New("text\tfailure\r\n") }

type encGen struct {
	rng *rand.Rand
}

func rstr(s string) string { return string([]rune(s)) } // each invalid byte -> U+FFFD

// scalar builds a top-level (or object-member) field of the abstract kind plus its expectation.
func (g *encGen) scalar(key, kind string) (log.Field, *xnode) {
	r := g.rng
	switch kind {
	case "num":
		switch r.Intn(12) {
		case 0:
			v := r.Intn(2) == 0
			switch r.Intn(3) {
			case 0:
				return log.Bool(key, v), &xnode{kind: "bool", b: v}
			case 1:
				return log.BoolPtr(key, &v), &xnode{kind: "bool", b: v}
			}
			return log.Any(key, v), &xnode{kind: "bool", b: v}
		case 1, 2, 3:
			v := encInts[r.Intn(len(encInts))]
			x := &xnode{kind: "int", text: strconv.FormatInt(v, 10)}
			switch r.Intn(5) {
			case 0:
				return log.Int(key, v), x
			case 1:
				return log.IntPtr(key, &v), x
			case 2:
				return log.Any(key, v), x
			case 3:
				return log.Any(key, &v), x
			}
			v8 := int8(v)
			return log.Any(key, v8), &xnode{kind: "int", text: strconv.FormatInt(int64(v8), 10)}
		case 4, 5, 6:
			v := encUints[r.Intn(len(encUints))]
			x := &xnode{kind: "uint", text: strconv.FormatUint(v, 10)}
			switch r.Intn(4) {
			case 0:
				return log.Uint(key, v), x
			case 1:
				return log.UintPtr(key, &v), x
			case 2:
				return log.Any(key, v), x
			}
			v16 := uint16(v)
			return log.Any(key, &v16), &xnode{kind: "uint", text: strconv.FormatUint(uint64(v16), 10)}
		default:
			v := encFloats[r.Intn(len(encFloats))]
			if r.Intn(4) == 0 {
				v = math.Float64frombits(r.Uint64())
				if math.IsNaN(v) || math.IsInf(v, 0) {
					v = 0.1
				}
			}
			x := &xnode{kind: "float", f: v}
			switch r.Intn(5) {
			case 0:
				return log.Float(key, v), x
			case 1:
				return log.FloatPtr(key, &v), x
			case 2:
				return log.Any(key, v), x
			case 3:
				f32 := float32(v)
				if math.IsInf(float64(f32), 0) {
					f32 = 3.25
				}
				return log.Any(key, f32), &xnode{kind: "float", f: float64(f32)}
			}
			return log.Any(key, &v), x
		}
	case "str":
		v := encStrings[r.Intn(len(encStrings))]
		x := &xnode{kind: "str", s: v, quote: true}
		switch r.Intn(4) {
		case 0:
			return log.String(key, v), x
		case 1:
			return log.StringPtr(key, &v), x
		case 2:
			return log.Any(key, v), x
		}
		return log.Any(key, &v), x
	case "nonfin":
		v := encNonFin[r.Intn(3)]
		x := &xnode{kind: "anystr", quote: true}
		switch r.Intn(3) {
		case 0:
			return log.Float(key, v), x
		case 1:
			return log.Any(key, float32(v)), x
		}
		return log.FloatPtr(key, &v), x
	case "reflstr":
		switch r.Intn(6) {
		case 3:
			return log.Reflect(key, badMarshaler{}), &xnode{kind: "anystr", quote: true}
		case 4:
			return log.Any(key, errMarshaler{}), &xnode{kind: "anystr", quote: true}
		case 5:
			return log.Reflect(key, textErrMarshaler{}), &xnode{kind: "anystr", quote: true}
		case 0:
			return log.Reflect(key, make(chan int)), &xnode{kind: "anystr", quote: true}
		case 1:
			return log.Any(key, func() {}), &xnode{kind: "anystr", quote: true}
		}
		return log.Reflect(key, map[string]any{"x": math.NaN()}), &xnode{kind: "anystr", quote: true}
	default: // "refl"
		raw := func(v any) *xnode { b, _ := json.Marshal(v); return &xnode{kind: "raw", text: string(b)} }
		switch r.Intn(11) {
		case 9:
			v := json.RawMessage("{\n  \"a\": [1,\n 2],\t\"b\" : \"x\"\n}")
			return log.Reflect(key, v), raw(v)
		case 10:
			v := struct {
				R json.RawMessage `json:"r"`
				T time.Time       `json:"t"`
			}{json.RawMessage(" [ 1 , 2 ] "), time.Unix(1e9, 0).UTC()}
			return log.Any(key, v), raw(v)
		case 0:
			return log.Nil(key), &xnode{kind: "null"}
		case 1:
			return log.IntPtr[int](key, nil), &xnode{kind: "null"}
		case 2:
			return log.StringPtr(key, nil), &xnode{kind: "null"}
		case 3:
			return log.Any(key, (*float64)(nil)), &xnode{kind: "null"}
		case 4:
			v := tstruct{A: r.Intn(100), B: encStrings[r.Intn(len(encStrings))], C: []float64{1.5, 2}}
			return log.Reflect(key, v), raw(v)
		case 5:
			v := map[string]any{"z": 1, "a": []int{1, 2}, "m": map[string]string{"q": "r"}}
			return log.Any(key, v), raw(v)
		case 6:
			v := []any{1, "two", nil, 3.5}
			return log.Reflect(key, v), raw(v)
		case 7:
			v := time.Duration(r.Intn(1000))
			return log.Any(key, v), raw(v)
		}
		return log.Any(key, nil), &xnode{kind: "null"}
	}
}

// replayArr is an ArrayValue that replays recorded encoder calls (arbitrary nesting).
type replayArr struct {
	ops []func(enc log.Encoder)
}

func (a replayArr) EncodeArray(enc log.Encoder) {
	for _, op := range a.ops {
		op(enc)
	}
}

// elemScalar produces an encoder call for an array element / nested member of the abstract kind.
func (g *encGen) elemScalar(kind string) (func(enc log.Encoder), *xnode) {
	r := g.rng
	switch kind {
	case "num":
		switch r.Intn(4) {
		case 0:
			v := r.Intn(2) == 0
			return func(e log.Encoder) { e.AppendBool(v) }, &xnode{kind: "bool", b: v}
		case 1:
			v := encInts[r.Intn(len(encInts))]
			return func(e log.Encoder) { e.AppendInt64(v) }, &xnode{kind: "int", text: strconv.FormatInt(v, 10)}
		case 2:
			v := encUints[r.Intn(len(encUints))]
			return func(e log.Encoder) { e.AppendUint64(v) }, &xnode{kind: "uint", text: strconv.FormatUint(v, 10)}
		}
		v := encFloats[r.Intn(len(encFloats))]
		return func(e log.Encoder) { e.AppendFloat64(v) }, &xnode{kind: "float", f: v}
	case "str":
		v := encStrings[r.Intn(len(encStrings))]
		return func(e log.Encoder) { e.AppendString(v) }, &xnode{kind: "str", s: v}
	case "nonfin":
		v := encNonFin[r.Intn(3)]
		return func(e log.Encoder) { e.AppendFloat64(v) }, &xnode{kind: "anystr"}
	case "reflstr":
		return func(e log.Encoder) { e.AppendReflect(make(chan int)) }, &xnode{kind: "anystr"}
	}
	v := tstruct{A: r.Intn(9), B: "s"}
	b, _ := json.Marshal(v)
	if r.Intn(3) == 0 {
		return func(e log.Encoder) { e.AppendReflect(nil) }, &xnode{kind: "null"}
	}
	return func(e log.Encoder) { e.AppendReflect(v) }, &xnode{kind: "raw", text: string(b)}
}

// build consumes calls[i:] describing a sequence of keyed members (top level or inside an object built
// with log.Object) until the matching close; returns fields, expectation and the next index.
func (g *encGen) members(calls []encCall, i int, topLevel bool) ([]log.Field, *xnode, int) {
	var fields []log.Field
	x := &xnode{kind: "obj"}
	for i < len(calls) {
		if calls[i].C == "OE" {
			return fields, x, i + 1
		}
		// Key
		key := encKeys[g.rng.Intn(len(encKeys))]
		i++ // the Key call
		v := calls[i]
		switch v.C {
		case "Val":
			f, n := g.scalar(key, v.K)
			if !topLevel {
				n.quote = false
			}
			fields = append(fields, f)
			x.keys = append(x.keys, key)
			x.kids = append(x.kids, n)
			i++
		case "OB":
			sub, n, j := g.members(calls, i+1, false)
			fields = append(fields, log.Object(key, sub...))
			x.keys = append(x.keys, key)
			x.kids = append(x.kids, n)
			i = j
		case "AB":
			f, n, j := g.array(key, calls, i+1)
			fields = append(fields, f)
			x.keys = append(x.keys, key)
			x.kids = append(x.kids, n)
			i = j
		}
	}
	return fields, x, i
}

// array builds the field for an array whose elements start at calls[i]; typed-slice constructors are
// used when the elements are homogeneous scalars, a replaying ArrayValue otherwise.
func (g *encGen) array(key string, calls []encCall, i int) (log.Field, *xnode, int) {
	// find the matching AE and whether all elements are scalars of one kind
	depth, j := 0, i
	flat, kind := true, ""
	for ; j < len(calls); j++ {
		c := calls[j]
		if depth == 0 && c.C == "AE" {
			break
		}
		if c.C == "AB" || c.C == "OB" {
			depth++
			flat = false
		} else if c.C == "AE" || c.C == "OE" {
			depth--
		} else if c.C == "Val" && depth == 0 {
			if kind == "" {
				kind = c.K
			} else if kind != c.K {
				flat = false
			}
		}
	}
	n := j - i
	x := &xnode{kind: "arr"}
	r := g.rng
	if flat && (kind == "num" || kind == "str" || kind == "") && r.Intn(3) != 0 {
		switch {
		case kind == "str":
			vals := make([]string, n)
			for k := range vals {
				vals[k] = encStrings[r.Intn(len(encStrings))]
				x.kids = append(x.kids, &xnode{kind: "str", s: vals[k]})
			}
			if r.Intn(2) == 0 {
				return log.Strings(key, vals), x, j + 1
			}
			return log.Any(key, vals), x, j + 1
		default:
			switch r.Intn(4) {
			case 0:
				vals := make([]int64, n)
				for k := range vals {
					vals[k] = encInts[r.Intn(len(encInts))]
					x.kids = append(x.kids, &xnode{kind: "int", text: strconv.FormatInt(vals[k], 10)})
				}
				if r.Intn(2) == 0 {
					return log.Ints(key, vals), x, j + 1
				}
				return log.Any(key, vals), x, j + 1
			case 1:
				vals := make([]uint64, n)
				for k := range vals {
					vals[k] = encUints[r.Intn(len(encUints))]
					x.kids = append(x.kids, &xnode{kind: "uint", text: strconv.FormatUint(vals[k], 10)})
				}
				if r.Intn(2) == 0 {
					return log.Uints(key, vals), x, j + 1
				}
				return log.Any(key, vals), x, j + 1
			case 2:
				vals := make([]float64, n)
				for k := range vals {
					vals[k] = encFloats[r.Intn(len(encFloats))]
					x.kids = append(x.kids, &xnode{kind: "float", f: vals[k]})
				}
				if r.Intn(2) == 0 {
					return log.Floats(key, vals), x, j + 1
				}
				return log.Any(key, vals), x, j + 1
			}
			vals := make([]bool, n)
			for k := range vals {
				vals[k] = r.Intn(2) == 0
				x.kids = append(x.kids, &xnode{kind: "bool", b: vals[k]})
			}
			if r.Intn(2) == 0 {
				return log.Bools(key, vals), x, j + 1
			}
			return log.Any(key, vals), x, j + 1
		}
	}
	ops, kids, next := g.arrItems(calls, i)
	x.kids = kids
	return log.Array(key, replayArr{ops}), x, next
}

// arrItems parses array elements up to the matching AE: encoder calls to replay and expectations.
func (g *encGen) arrItems(calls []encCall, i int) ([]func(log.Encoder), []*xnode, int) {
	var ops []func(log.Encoder)
	var kids []*xnode
	for i < len(calls) {
		switch c := calls[i]; c.C {
		case "AE":
			return ops, kids, i + 1
		case "Val":
			op, n := g.elemScalar(c.K)
			ops, kids, i = append(ops, op), append(kids, n), i+1
		case "AB":
			sub, skids, j := g.arrItems(calls, i+1)
			ops = append(ops, func(e log.Encoder) {
				e.AppendArrayBegin()
				for _, o := range sub {
					o(e)
				}
				e.AppendArrayEnd()
			})
			kids, i = append(kids, &xnode{kind: "arr", kids: skids}), j
		case "OB":
			sub, x, j := g.objItems(calls, i+1)
			ops = append(ops, func(e log.Encoder) {
				e.AppendObjectBegin()
				for _, o := range sub {
					o(e)
				}
				e.AppendObjectEnd()
			})
			kids, i = append(kids, x), j
		default:
			i++
		}
	}
	return ops, kids, i
}

// objItems parses Key/value pairs emitted by hand (inside a custom ArrayValue) up to the matching OE.
func (g *encGen) objItems(calls []encCall, i int) ([]func(log.Encoder), *xnode, int) {
	var ops []func(log.Encoder)
	x := &xnode{kind: "obj"}
	for i < len(calls) {
		if calls[i].C == "OE" {
			return ops, x, i + 1
		}
		key := encKeys[g.rng.Intn(len(encKeys))]
		ops = append(ops, func(e log.Encoder) { e.AppendKey(key) })
		i++ // the Key call
		x.keys = append(x.keys, key)
		switch c := calls[i]; c.C {
		case "Val":
			op, n := g.elemScalar(c.K)
			ops, i = append(ops, op), i+1
			x.kids = append(x.kids, n)
		case "AB":
			sub, skids, j := g.arrItems(calls, i+1)
			ops = append(ops, func(e log.Encoder) {
				e.AppendArrayBegin()
				for _, o := range sub {
					o(e)
				}
				e.AppendArrayEnd()
			})
			x.kids, i = append(x.kids, &xnode{kind: "arr", kids: skids}), j
		case "OB":
			sub, sx, j := g.objItems(calls, i+1)
			ops = append(ops, func(e log.Encoder) {
				e.AppendObjectBegin()
				for _, o := range sub {
					o(e)
				}
				e.AppendObjectEnd()
			})
			x.kids, i = append(x.kids, sx), j
		}
	}
	return ops, x, i
}

// ---------------------------------------------------------------- comparison
func cmpNode(path string, x *xnode, j *jnode) string {
	switch x.kind {
	case "obj":
		if j.kind != "obj" || len(j.kids) != len(x.kids) {
			return fmt.Sprintf("%s: expected an object with %d members, got %s %.60s", path, len(x.kids), j.kind, j.raw)
		}
		for i := range x.kids {
			k, ok := unq(j.keys[i])
			if !ok || k != rstr(x.keys[i]) {
				return fmt.Sprintf("%s: member %d has key %s, logged key %q", path, i, j.keys[i], x.keys[i])
			}
			if m := cmpNode(path+"."+x.keys[i], x.kids[i], j.kids[i]); m != "" {
				return m
			}
		}
	case "arr":
		if j.kind != "arr" || len(j.kids) != len(x.kids) {
			return fmt.Sprintf("%s: expected an array of %d, got %s %.60s", path, len(x.kids), j.kind, j.raw)
		}
		for i := range x.kids {
			if m := cmpNode(fmt.Sprintf("%s[%d]", path, i), x.kids[i], j.kids[i]); m != "" {
				return m
			}
		}
	case "int", "uint":
		if j.kind != "num" || j.raw != x.text {
			return fmt.Sprintf("%s: integer %s encoded as %.40s", path, x.text, j.raw)
		}
	case "float":
		f, err := strconv.ParseFloat(j.raw, 64)
		if j.kind != "num" || err != nil || math.Float64bits(f) != math.Float64bits(x.f) {
			return fmt.Sprintf("%s: float %v (bits %x) encoded as %.40s", path, x.f, math.Float64bits(x.f), j.raw)
		}
	case "bool":
		if j.raw != strconv.FormatBool(x.b) {
			return fmt.Sprintf("%s: bool %v encoded as %.20s", path, x.b, j.raw)
		}
	case "null":
		if j.raw != "null" {
			return fmt.Sprintf("%s: nil encoded as %.40s", path, j.raw)
		}
	case "str":
		s, ok := unq(j.raw)
		if j.kind != "str" || !ok || s != rstr(x.s) {
			return fmt.Sprintf("%s: string %q encoded as %.80s", path, x.s, j.raw)
		}
	case "anystr":
		if _, ok := unq(j.raw); j.kind != "str" || !ok {
			return fmt.Sprintf("%s: a non-finite / unmarshallable value must be a JSON string, got %.60s", path, j.raw)
		}
	case "raw":
		if j.raw != x.text {
			return fmt.Sprintf("%s: reflected value encoded as %.80s, json.Marshal gives %.80s", path, j.raw, x.text)
		}
	}
	return ""
}

// abstract token sequence of a scanned node, in the alphabet of Encoder.tla
func absTokens(x *xnode, j *jnode, out *[]string) {
	if x != nil && x.kind == "raw" { // a reflected value is one opaque token of the specification
		*out = append(*out, "v")
		return
	}
	switch j.kind {
	case "obj":
		*out = append(*out, "{")
		for i, k := range j.kids {
			if i > 0 {
				*out = append(*out, ",")
			}
			*out = append(*out, "k")
			var xk *xnode
			if x != nil && i < len(x.kids) {
				xk = x.kids[i]
			}
			absTokens(xk, k, out)
		}
		*out = append(*out, "}")
	case "arr":
		*out = append(*out, "[")
		for i, k := range j.kids {
			if i > 0 {
				*out = append(*out, ",")
			}
			var xk *xnode
			if x != nil && i < len(x.kids) {
				xk = x.kids[i]
			}
			absTokens(xk, k, out)
		}
		*out = append(*out, "]")
	default:
		*out = append(*out, "v")
	}
}

func specTokens(toks []string) []string {
	out := make([]string, len(toks))
	for i, t := range toks {
		switch t {
		case "{", "}", "[", "]", ",", "k":
			out[i] = t
		default:
			out[i] = "v"
		}
	}
	return out
}

func cmdEncoder(f hx.Flags, r *hx.Result) {
	rng := hx.Rand(7)
	g := &encGen{rng: rng}
	variants := f.Int("variants", 3)
	levels := []log.Level{log.TraceLevel, log.DebugLevel, log.InfoLevel, log.WarnLevel, log.ErrorLevel, log.PanicLevel, log.FatalLevel,
		log.NoneLevel, log.MaxLevel,
		// user-registered levels: inside the hundred of a built-in one, below zero, next to MAX, and a second name for a built-in code
		log.RegisterLevel(350, "NOTICE"), log.RegisterLevel(450, "ALERT"), log.RegisterLevel(50, "FINE"), log.RegisterLevel(-50, "BELOW"),
		log.RegisterLevel(950, "NEARMAX"), log.RegisterLevel(1000, "BEYOND"), log.RegisterLevel(300, "INFOX"), log.InfoLevel}
	zones := []*time.Location{time.UTC, time.FixedZone("plus", 5*3600+1800), time.FixedZone("minus", -8*3600), time.Local}
	n := 0
	distinct := 0
	err := hx.ReadCases(f.Str("cases", ""), func(raw json.RawMessage) error {
		var c encCase
		if err := json.Unmarshal(raw, &c); err != nil {
			return err
		}
		n++
		distinct++
		instant := time.Unix(rng.Int63n(4e9), int64(rng.Intn(1e9)))
		switch n % 9 {
		case 4: // before the epoch, with a millisecond part
			instant = time.Unix(-rng.Int63n(3e9)-1, int64(1e6+rng.Intn(998e6)))
		case 7: // the first second of 1970, as seen from zones on both sides
			instant = time.Unix(int64(rng.Intn(3))-1, int64(rng.Intn(1e9)))
		}
		for v := 0; v < variants; v++ {
			fields, want, _ := g.members(c.Calls, 0, true)
			e := &log.Event{}
			e.Level = levels[rng.Intn(len(levels))]
			// the variants of one case share the instant but not the zone
			e.Time = instant.In(zones[(n+v)%len(zones)])
			e.File = strings.Repeat("d/", rng.Intn(40)) + "file.go"
			switch rng.Intn(12) {
			case 0, 1:
				e.File = strings.Repeat("x", rng.Intn(300))
			case 2: // a source path with multi-byte runes: byte-wise truncation may cut inside one
				e.File = strings.Repeat("目录/", rng.Intn(12)) + "文件é.go"
			case 3: // characters that need escaping in a JSON string
				e.File = `C:\work\"quoted" dir\` + strings.Repeat("sub\\", rng.Intn(10)) + "f\tile.go"
			}
			e.Line = rng.Intn(5000)
			e.Tag = "_enc_tag"
			// map-sourced fields that expand to nothing must leave no trace (no separator, no comma)
			if rng.Intn(4) == 0 {
				empty := log.FieldsFromMap(map[string]any{})
				if rng.Intn(2) == 0 {
					empty = log.FieldsFromMap(nil)
				}
				at := rng.Intn(len(fields) + 1)
				fields = append(fields[:at:at], append([]log.Field{empty}, fields[at:]...)...)
			}
			e.Fields = fields
			hasCtx := rng.Intn(3) == 0
			if hasCtx {
				e.CtxString = []string{"trace-abc", "a=b||c", "ctx string", "ends-with-separator||", "||", "x|", "tr=1||sp=2||", "=", "[INFO]"}[rng.Intn(9)]
			}
			nctx := 0
			switch rng.Intn(6) {
			case 0, 1:
				e.CtxFields = []log.Field{log.String("trace_id", "t1"), log.Int("span", 7)}
				nctx = 2
			case 2: // context fields that expand to nothing
				e.CtxFields = []log.Field{log.FieldsFromMap(map[string]any{})}
			}
			width := rng.Intn(206) - 5
			jl := &log.JSONLayout{BaseLayout: log.BaseLayout{FileLineLength: width}}
			tl := &log.TextLayout{BaseLayout: log.BaseLayout{FileLineLength: width}}
			var jb, tb []byte
			desc := map[string]any{"calls": c.Calls, "width": width, "variant": v}
			if p := hx.Catch(func() { jb = jl.ToBytes(e) }); p != nil {
				r.Violate(panicKey("json-layout-panic", width), desc, "JSONLayout.ToBytes panicked (width %d): %v", width, p)
				continue
			}
			if p := hx.Catch(func() { tb = tl.ToBytes(e) }); p != nil {
				r.Violate(panicKey("text-layout-panic", width), desc, "TextLayout.ToBytes panicked (width %d): %v", width, p)
				continue
			}
			r.Eval(2)
			desc["json"] = clip(string(jb), 400)
			// ---------------- C07
			if len(jb) == 0 || jb[len(jb)-1] != '\n' || bytes.Count(jb, []byte("\n")) != 1 {
				r.Violate("json-not-one-line", desc, "JSON layout output is not exactly one line")
				continue
			}
			line := string(jb[:len(jb)-1])
			if !json.Valid([]byte(line)) || !utf8.ValidString(line) {
				r.Violate(jsonKey(c.Calls), desc, "JSON layout output is not valid JSON (encoding/json rejects it): %s", clip(line, 300))
				continue
			}
			sc := &jscan{s: line}
			root, perr := sc.value()
			if perr != nil || root.kind != "obj" || sc.i != len(line) {
				r.SetInfra("the harness scanner failed on JSON that encoding/json accepts: %v %s", perr, clip(line, 200))
				continue
			}
			hdr := 4
			if hasCtx {
				hdr = 5
			}
			wantHdr := []string{"level", "time", "fileLine", "tag", "ctxString"}[:hdr]
			if len(root.kids) < hdr+nctx {
				r.Violate("json-header", desc, "JSON line has %d members, fewer than the header", len(root.kids))
				continue
			}
			okHdr := true
			for i, k := range wantHdr {
				if root.keys[i] != strconv.Quote(k) || root.kids[i].kind != "str" {
					okHdr = false
				}
			}
			lv, _ := unq(root.kids[0].raw)
			tm, _ := unq(root.kids[1].raw)
			tg, _ := unq(root.kids[3].raw)
			if !okHdr || lv != strings.ToLower(e.Level.Name()) || tm != e.Time.Format("2006-01-02T15:04:05.000") || tg != e.Tag {
				r.Violate("json-header", desc, "JSON header members wrong: %s", clip(line, 200))
				continue
			}
			if hasCtx {
				if cs, _ := unq(root.kids[4].raw); cs != e.CtxString {
					r.Violate("json-header", desc, "ctxString member %s, want %q", root.kids[4].raw, e.CtxString)
				}
			}
			if nctx == 2 && (root.keys[hdr] != `"trace_id"` || root.keys[hdr+1] != `"span"`) {
				r.Violate("json-ctx-fields-order", desc, "context fields must follow the header: %s", clip(line, 200))
				continue
			}
			body := &jnode{kind: "obj", keys: root.keys[hdr+nctx:], kids: root.kids[hdr+nctx:]}
			if m := cmpNode("$", want, body); m != "" {
				r.Violate("json-data:"+firstWord(m), desc, "JSON line does not decode to the logged data: %s", m)
				continue
			}
			var got []string
			absTokens(want, body, &got)
			if st := specTokens(c.JSON); strings.Join(got, " ") != strings.Join(st, " ") {
				r.Violate("json-token-structure", desc, "token structure %v differs from the specification's %v", got, st)
				continue
			}
			// ---------------- C08: rebuild the text line from the real JSON line
			fileLine, _ := unq(root.kids[2].raw)
			// the header's file:line by the statement: the last max(W-3,0) bytes behind "..." (bytes: the text line shows
			// them as they are, the JSON line as a string with every invalid byte replaced)
			full := e.File + ":" + strconv.Itoa(e.Line)
			wantFL := full
			if len(full) > width {
				keep := width - 3
				if keep < 0 {
					keep = 0
				}
				wantFL = "..." + full[len(full)-keep:]
			}
			var sb strings.Builder
			sb.WriteString("[" + strings.ToUpper(e.Level.Name()) + "][" + e.Time.Format("2006-01-02T15:04:05.000") + "][" + wantFL + "] " + e.Tag + "||")
			if hasCtx {
				sb.WriteString(e.CtxString + "||")
			}
			for i := hdr; i < len(root.kids); i++ {
				if i > hdr {
					sb.WriteString("||")
				}
				k := root.keys[i]
				sb.WriteString(k[1 : len(k)-1]) // the escaped key without its quotes
				sb.WriteByte('=')
				val := root.kids[i].raw
				strip := false
				if i < hdr+nctx {
					strip = root.kids[i].kind == "str"
				} else if xk := want.kids[i-hdr-nctx]; xk.quote {
					strip = true
				}
				if strip && len(val) >= 2 {
					val = val[1 : len(val)-1]
				}
				sb.WriteString(val)
			}
			sb.WriteByte('\n')
			if string(tb) != sb.String() {
				r.Violate("text-differs-from-json-tokens", desc, "text line %s differs from the line rebuilt from the JSON tokens %s", clip(string(tb), 300), clip(sb.String(), 300))
				continue
			}
			hdrEnd := strings.Index(string(tb), "] "+e.Tag+"||") // the header shows the file name as it is; the clause is about keys and values
			for i, b := range tb {
				if i <= hdrEnd {
					continue
				}
				if b < 0x20 && !(b == '\n' && i == len(tb)-1) {
					r.Violate("text-raw-control", desc, "text line contains raw control byte %#x", b)
					break
				}
			}
			// file:line law on the real fileLine member
			if fileLine != rstr(wantFL) {
				r.Violate("file-line-truncation", desc, "fileLine %q for %d bytes at width %d, want %q", fileLine, len(full), width, wantFL)
			}
		}
		if n == 3 || n == 700 {
			r.Sample(c)
		}
		return nil
	})
	if err != nil {
		r.SetInfra("read cases: %v", err)
	}
	r.NonTrivial(int64(distinct))
	encFromMap(r, rng)
	encAnyTable(r)
	encReturnedBytes(r)
	encReentrant(r)
}

// encReturnedBytes: the line a layout returned stays what it was while later events are formatted, for line sizes
// on both sides of every capacity a formatting buffer can have relative to the buffer-reuse cap (1 KiB here: sizes
// in (512, 1024] make the capacity exactly the cap).
func encReturnedBytes(r *hx.Result) {
	old := log.BufferCap.Load()
	defer log.BufferCap.Store(old)
	log.BufferCap.Store(1024)
	for li, lay := range []log.Layout{&log.JSONLayout{BaseLayout: log.BaseLayout{FileLineLength: 48}}, &log.TextLayout{BaseLayout: log.BaseLayout{FileLineLength: 48}}} {
		var prev, prevCopy []byte
		var prevSize int
		for _, size := range []int{10, 300, 460, 500, 700, 900, 950, 40, 1000, 20, 1500, 30, 800, 5000, 600, 610} {
			e := &log.Event{Level: log.InfoLevel, Time: time.Unix(1e9, 0).UTC(), File: "f.go", Line: 1, Tag: "_t",
				Fields: []log.Field{log.Int("id", int64(size)), log.String("pad", strings.Repeat(string(rune('a'+size%26)), size)),
					log.Ints("arr", []int64{1, 2, 3}), log.Object("obj", log.String("k", "v")), log.Int("end", 1)}}
			if size%100 == 0 {
				// a call whose user-supplied encoder panics half-way through a nested value (the caller recovers):
				// whatever the layout keeps between calls must be as good as new afterwards
				pe := &log.Event{Level: log.ErrorLevel, Time: time.Unix(1e9, 0).UTC(), File: "f.go", Line: 2, Tag: "_t",
					Fields: []log.Field{log.String("before", "x"), log.Object("o", log.Array("arr", srPoison{})), log.Int("after", 1)}}
				if p := hx.Catch(func() { lay.ToBytes(pe) }); p != "poison" {
					r.Violate("layout-panic", map[string]any{"size": size}, "formatting an event with a panicking encoder: recovered %v, want the encoder's own panic", p)
					return
				}
			}
			var b []byte
			if p := hx.Catch(func() { b = lay.ToBytes(e) }); p != nil {
				r.Violate("layout-panic", map[string]any{"size": size}, "ToBytes panicked: %v", p)
				return
			}
			r.Eval(1)
			// nested values keep being written, also after lines that were larger than the reuse cap
			wantTail := []string{`"arr":[1,2,3],"obj":{"k":"v"},"end":1}`, `arr=[1,2,3]||obj={"k":"v"}||end=1`}[li]
			if !strings.HasSuffix(strings.TrimSuffix(string(b), "\n"), wantTail) {
				r.Violate("nested-values-lost", map[string]any{"layout": []string{"json", "text"}[li], "pad": size, "previous_pad": prevSize, "bufferCap": 1024},
					"line ends %s, want %s", clip(string(b[max(0, len(b)-80):]), 100), wantTail)
				return
			}
			if prev != nil && !bytes.Equal(prev, prevCopy) {
				r.Violate("returned-line-mutated", map[string]any{"layout": []string{"json", "text"}[li], "previous_pad": prevSize, "next_pad": size, "bufferCap": 1024},
					"the line returned for the previous event (%d bytes) changed while the next event was formatted: now %s", len(prevCopy), clip(string(prev), 120))
				return
			}
			prev, prevCopy, prevSize = b, append([]byte(nil), b...), size
		}
	}
}

// reentrantArr is a user-supplied array value that itself logs while it is being encoded.
type reentrantArr struct{ inner func() }

func (a reentrantArr) EncodeArray(enc log.Encoder) {
	enc.AppendInt64(1)
	a.inner()
	enc.AppendInt64(2)
}

// encReentrant: event A's field encoder logs event B while A is being formatted; both share the context-field
// slice the hook hands out (spare capacity over one array).  Each line must carry its own fields, in order.
func encReentrant(r *hx.Result) {
	sys.InstallConsole()
	for _, layout := range []string{"JSONLayout", "TextLayout"} {
		log.Destroy()
		log.VerifReset()
		sys.ResetAppenders()
		tag := log.RegisterTag("reent_tag")
		var shared [8]log.Field
		shared[0] = log.String("req", "r1")
		log.FieldsFromContext = func(context.Context) []log.Field { return shared[:1:8] }
		cfg := sys.Cfg{}
		cfg["appender.re.type"] = "Rec"
		// the logger formats (logger-level layout) and hands the bytes to the recording appender's Write
		cfg.AddLogger("lg", "Logger", "", "reent_tag", []sys.Ref{{Ref: "re"}}, false, map[string]string{"layout.type": layout})
		if err := log.Refresh(cfg.Map(nil)); err != nil {
			log.FieldsFromContext = nil
			r.SetInfra("encReentrant refresh: %v", err)
			return
		}
		ctx := context.Background()
		p := hx.Catch(func() {
			log.Info(ctx, tag, log.String("a0", "A"), log.Array("arr", reentrantArr{func() {
				log.Warn(ctx, tag, log.String("b0", "B"), log.String("b1", "B"), log.String("b2", "B"), log.String("b3", "B"))
			}}), log.String("a1", "A"), log.String("a2", "A"), log.String("a3", "A"))
		})
		log.FieldsFromContext = nil
		log.Destroy()
		r.Eval(2)
		desc := map[string]any{"layout": layout, "scenario": "a field encoder of event A logs event B; shared context-field slice with spare capacity"}
		if p != nil {
			r.Violate("reentrant-log-panic", desc, "re-entrant logging panicked: %v", p)
			continue
		}
		var lines []string
		for _, rc := range sys.Appender("re").Recs() {
			lines = append(lines, string(rc.Raw))
		}
		keysOf := func(line string) string {
			var ks []string
			for _, k := range []string{"req", "a0", "arr", "a1", "a2", "a3", "b0", "b1", "b2", "b3"} {
				if strings.Contains(line, `"`+k+`":`) || strings.Contains(line, "||"+k+"=") {
					ks = append(ks, k)
				}
			}
			return strings.Join(ks, ",")
		}
		if len(lines) != 2 || keysOf(lines[0]) != "req,b0,b1,b2,b3" || keysOf(lines[1]) != "req,a0,arr,a1,a2,a3" {
			r.Violate("reentrant-fields-mixed", desc, "lines written: %q; the inner event must carry req,b0..b3 and the outer one req,a0,arr,a1,a2,a3", lines)
		}
	}
	log.VerifReset()
}

// encFromMap: map-sourced fields are emitted sorted by key, each value through the Any dispatch;
// at top level, inside an Object, and between ordinary fields.
func encFromMap(r *hx.Result, rng *rand.Rand) {
	for round := 0; round < 40; round++ {
		keys := []string{"b", "a", "zz", "", "A", "a0", "ä", "_", "10", "9"}
		rng.Shuffle(len(keys), func(i, j int) { keys[i], keys[j] = keys[j], keys[i] })
		keys = keys[:rng.Intn(len(keys)+1)]
		m := map[string]any{}
		for i, k := range keys {
			switch i % 5 {
			case 0:
				m[k] = int64(i) - 3
			case 1:
				m[k] = "v" + k
			case 2:
				m[k] = []int{i, i + 1}
			case 3:
				m[k] = nil
			default:
				m[k] = uint8(i)
			}
		}
		sorted := append([]string(nil), keys...)
		sortStrings(sorted)
		inner := rng.Intn(2) == 0
		var fields []log.Field
		if inner {
			fields = []log.Field{log.Int("first", 1), log.Object("o", log.FieldsFromMap(m)), log.String("last", "x")}
		} else {
			fields = []log.Field{log.Int("first", 1), log.FieldsFromMap(m), log.String("last", "x")}
		}
		e := &log.Event{Level: log.InfoLevel, Time: time.Unix(1e9, 0).UTC(), File: "f.go", Line: 1, Tag: "_t", Fields: fields}
		jb := (&log.JSONLayout{BaseLayout: log.BaseLayout{FileLineLength: 48}}).ToBytes(e)
		tb := (&log.TextLayout{BaseLayout: log.BaseLayout{FileLineLength: 48}}).ToBytes(e)
		r.Eval(1)
		desc := map[string]any{"map_keys": keys, "inside_object": inner, "json": clip(string(jb), 300)}
		if !json.Valid(bytes.TrimSuffix(jb, []byte("\n"))) {
			r.Violate("json-invalid", desc, "FieldsFromMap output is not valid JSON")
			continue
		}
		sc := &jscan{s: strings.TrimSuffix(string(jb), "\n")}
		root, err := sc.value()
		if err != nil {
			r.SetInfra("scanner: %v", err)
			return
		}
		body := root
		off := 4
		if inner {
			body, off = root.kids[5], 0
		} else {
			off = 5
		}
		var got []string
		for i := off; i < len(body.keys); i++ {
			k, _ := unq(body.keys[i])
			got = append(got, k)
		}
		if !inner && len(got) > 0 {
			got = got[:len(got)-1] // the trailing ordinary field "last"
		}
		if strings.Join(got, "\x00") != strings.Join(sorted, "\x00") {
			r.Violate("map-fields-order", desc, "map-sourced members appear as %q, want sorted by key %q", got, sorted)
		}
		if !strings.HasSuffix(string(tb), "last=x\n") || !strings.Contains(string(tb), "first=1||") {
			r.Violate("text-differs-from-json-tokens", desc, "text line around map-sourced fields: %s", clip(string(tb), 200))
		}
	}
}

func sortStrings(s []string) {
	for i := 1; i < len(s); i++ {
		for j := i; j > 0 && s[j] < s[j-1]; j-- {
			s[j], s[j-1] = s[j-1], s[j]
		}
	}
}

func clip(s string, n int) string {
	if len(s) > n {
		return s[:n] + "..."
	}
	return s
}

func firstWord(m string) string {
	// classify by the kind of mismatch, not by path
	for _, k := range []string{"float", "integer", "string", "bool", "nil", "reflected", "non-finite", "object", "array", "member"} {
		if strings.Contains(m, k) {
			return k
		}
	}
	return "other"
}

func panicKey(base string, width int) string {
	if width < 3 {
		return base + ":width<3"
	}
	return base
}

func jsonKey(calls []encCall) string {
	for _, c := range calls {
		if c.K == "nonfin" {
			return "json-invalid:nonfinite"
		}
	}
	return "json-invalid"
}

// ---------------------------------------------------------------- file:line law (C08)
func init() { commands["fileline"] = cmdFileLine }

type flCase struct {
	N      int  `json:"n"`
	W      int  `json:"w"`
	Elided bool `json:"elided"`
	Keep   int  `json:"keep"`
}

func flCheck(r *hx.Result, n, w int, elided bool, keep int, src string) {
	if n < 2 {
		return // the shortest file:line is ":0"
	}
	e := &log.Event{File: strings.Repeat("f", n-2), Line: 7}
	full := e.File + ":7"
	bl := &log.BaseLayout{FileLineLength: w}
	var got string
	desc := map[string]any{"len": n, "width": w, "src": src}
	if p := hx.Catch(func() { got = bl.GetFileLine(e) }); p != nil {
		r.Violate(panicKey("file-line-panic", w), desc, "GetFileLine panicked for a %d-byte file:line at width %d: %v", n, w, p)
		return
	}
	want := full
	if elided {
		want = "..." + full[len(full)-keep:]
	}
	r.Eval(1)
	if got != want {
		r.Violate("file-line-truncation", desc, "GetFileLine: %q for %d bytes at width %d, specification: %q", got, n, w, want)
	}
}

func cmdFileLine(f hx.Flags, r *hx.Result) {
	n := 0
	err := hx.ReadCases(f.Str("cases", ""), func(raw json.RawMessage) error {
		var c flCase
		if err := json.Unmarshal(raw, &c); err != nil {
			return err
		}
		n++
		flCheck(r, c.N, c.W, c.Elided, c.Keep, "tlc")
		if n == 40 {
			r.Sample(c)
		}
		return nil
	})
	if err != nil {
		r.SetInfra("read cases: %v", err)
	}
	// the same law swept over every width the property names, widths ascending and then descending (the result
	// for a location must not depend on which width formatted it before)
	for i := 0; i <= 2*206; i++ {
		w := -5 + i
		if i > 205 {
			w = 200 - (i - 206)
		}
		if w < -5 {
			break
		}
		for _, n := range []int{2, 3, 4, w - 1, w, w + 1, w + 2, w + 3, w + 4, 300} {
			if n < 2 {
				continue
			}
			elided := n > w
			keep := 0
			if w-3 > 0 {
				keep = w - 3
			}
			flCheck(r, n, w, elided, keep, "sweep")
		}
	}
	r.NonTrivial(int64(n))
}

// ---------------------------------------------------------------- Any dispatch (C07)
// encAnyTable: every Go type the Any constructor dispatches on - value, pointer (nil and non-nil) and
// slice forms of bool, the ten integer types, two float types and string - must encode exactly like the
// value itself: integers by exact decimal text, floats bit-exact, nil pointers as null, slices as arrays.
func encAnyTable(r *hx.Result) {
	type tc struct {
		name string
		v    any
		want string // exact JSON text of the value
	}
	var cases []tc
	add := func(name string, v any, want string) { cases = append(cases, tc{name, v, want}) }
	ff := func(f float64) string { return strconv.FormatFloat(f, 'f', -1, 64) }
	// bool
	bt, bf := true, false
	add("bool", true, "true")
	add("*bool", &bf, "false")
	add("*bool(nil)", (*bool)(nil), "null")
	add("[]bool", []bool{bt, bf}, "[true,false]")
	// signed
	{
		v := int(math.MinInt64)
		add("int", v, strconv.Itoa(v))
		add("*int", &v, strconv.Itoa(v))
		add("*int(nil)", (*int)(nil), "null")
		add("[]int", []int{v, -1, 0, math.MaxInt64}, fmt.Sprintf("[%d,-1,0,%d]", v, math.MaxInt64))
	}
	{
		v := int8(math.MinInt8)
		add("int8", v, "-128")
		add("*int8", &v, "-128")
		add("*int8(nil)", (*int8)(nil), "null")
		add("[]int8", []int8{v, math.MaxInt8}, "[-128,127]")
	}
	{
		v := int16(math.MinInt16)
		add("int16", v, "-32768")
		add("*int16", &v, "-32768")
		add("*int16(nil)", (*int16)(nil), "null")
		add("[]int16", []int16{v, math.MaxInt16}, "[-32768,32767]")
	}
	{
		v := int32(math.MinInt32)
		add("int32", v, "-2147483648")
		add("*int32", &v, "-2147483648")
		add("*int32(nil)", (*int32)(nil), "null")
		add("[]int32", []int32{v, math.MaxInt32}, "[-2147483648,2147483647]")
	}
	{
		v := int64(math.MinInt64)
		add("int64", v, "-9223372036854775808")
		add("*int64", &v, "-9223372036854775808")
		add("*int64(nil)", (*int64)(nil), "null")
		add("[]int64", []int64{v, math.MaxInt64}, "[-9223372036854775808,9223372036854775807]")
	}
	// unsigned
	{
		v := uint(math.MaxUint64)
		add("uint", v, "18446744073709551615")
		add("*uint", &v, "18446744073709551615")
		add("*uint(nil)", (*uint)(nil), "null")
		add("[]uint", []uint{v, 0}, "[18446744073709551615,0]")
	}
	{
		v := uint8(math.MaxUint8)
		add("uint8", v, "255")
		add("*uint8", &v, "255")
		add("*uint8(nil)", (*uint8)(nil), "null")
		add("[]uint8", []uint8{v, 0, 7}, "[255,0,7]")
	}
	{
		v := uint16(math.MaxUint16)
		add("uint16", v, "65535")
		add("*uint16", &v, "65535")
		add("*uint16(nil)", (*uint16)(nil), "null")
		add("[]uint16", []uint16{v, 1}, "[65535,1]")
	}
	{
		v := uint32(math.MaxUint32)
		add("uint32", v, "4294967295")
		add("*uint32", &v, "4294967295")
		add("*uint32(nil)", (*uint32)(nil), "null")
		add("[]uint32", []uint32{v, 2}, "[4294967295,2]")
	}
	{
		v := uint64(math.MaxUint64)
		add("uint64", v, "18446744073709551615")
		add("*uint64", &v, "18446744073709551615")
		add("*uint64(nil)", (*uint64)(nil), "null")
		add("[]uint64", []uint64{v, 1 << 63}, "[18446744073709551615,9223372036854775808]")
	}
	// floats
	{
		v := float32(0.1)
		add("float32", v, ff(float64(v)))
		add("*float32", &v, ff(float64(v)))
		add("*float32(nil)", (*float32)(nil), "null")
		add("[]float32", []float32{v, -2.5}, "["+ff(float64(v))+",-2.5]")
	}
	{
		v := 5e-324
		add("float64", v, ff(v))
		add("*float64", &v, ff(v))
		add("*float64(nil)", (*float64)(nil), "null")
		add("[]float64", []float64{v, math.MaxFloat64, math.Copysign(0, -1)}, "["+ff(v)+","+ff(math.MaxFloat64)+",-0]")
	}
	// strings
	{
		v := "s\"q"
		add("string", v, `"s\"q"`)
		add("*string", &v, `"s\"q"`)
		add("*string(nil)", (*string)(nil), "null")
		add("[]string", []string{v, ""}, `["s\"q",""]`)
	}
	add("nil", nil, "null")
	jl := &log.JSONLayout{BaseLayout: log.BaseLayout{FileLineLength: 48}}
	tl := &log.TextLayout{BaseLayout: log.BaseLayout{FileLineLength: 48}}
	for _, c := range cases {
		for _, via := range []string{"Any", "FromMap"} {
			var fields []log.Field
			if via == "Any" {
				fields = []log.Field{log.Any("v", c.v), log.Int("after", 1)}
			} else {
				fields = []log.Field{log.FieldsFromMap(map[string]any{"v": c.v}), log.Int("after", 1)}
			}
			e := &log.Event{Level: log.InfoLevel, Time: time.Unix(1e9, 0).UTC(), File: "f.go", Line: 1, Tag: "_t", Fields: fields}
			var jb, tb []byte
			desc := map[string]any{"go_type": c.name, "via": via}
			if p := hx.Catch(func() { jb = jl.ToBytes(e); tb = tl.ToBytes(e) }); p != nil {
				r.Violate("json-layout-panic", desc, "encoding a %s through %s panicked: %v", c.name, via, p)
				continue
			}
			r.Eval(1)
			wantJ := `"tag":"_t","v":` + c.want + `,"after":1}`
			if !strings.HasSuffix(strings.TrimSuffix(string(jb), "\n"), wantJ) {
				r.Violate("json-data:any-dispatch", desc, "%s(%s): JSON line ends %s, want %s", via, c.name, clip(string(jb[max(0, len(jb)-len(wantJ)-20):]), 200), wantJ)
			}
			wantT := c.want
			if strings.HasPrefix(wantT, `"`) && !strings.HasPrefix(c.name, "[]") {
				wantT = wantT[1 : len(wantT)-1]
			}
			if !strings.HasSuffix(string(tb), "||v="+wantT+"||after=1\n") {
				r.Violate("text-differs-from-json-tokens", desc, "%s(%s): text line ends %s, want v=%s", via, c.name, clip(string(tb[max(0, len(tb)-len(wantT)-30):]), 200), wantT)
			}
		}
	}
}
