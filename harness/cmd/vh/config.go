package main

// C15 - replays the attribute / element resolution cases enumerated by TLC from spec/Config.tla on
// every attribute and element of every registered plugin type (the schema is read from the live
// plugin registry by reflection), and whole configurations through Refresh: key spellings, inline
// "name!" expressions, ${property} references, every error class, random mutations.  Outcome must be
// the specification's (value from configuration, default or property - or an error), never a panic.

import (
	"encoding/json"
	"fmt"
	"math"
	"math/rand"
	"os"
	"path/filepath"
	"reflect"
	"sort"
	"strconv"
	"strings"
	"time"

	"github.com/go-spring/log"
	"github.com/go-spring/stdlib/flatten"

	"verifharness/hx"
	"verifharness/sys"
)

func init() {
	commands["config"] = cmdConfig
	log.RegisterPlugin[ProbeAppender]("Probe", log.PluginTypeAppender)
}

// ProbeAppender exercises every declaration shape of the injection engine.
type ProbeAppender struct {
	log.AppenderBase
	ReqInt   int64              `PluginAttribute:"reqInt"`
	ReqStr   string             `PluginAttribute:"reqStr"`
	DefFloat float64            `PluginAttribute:"defFloat,default=1.5"`
	DefStr   string             `PluginAttribute:"defStr,default=dflt"`
	DefUint  uint32             `PluginAttribute:"defUint,default=7"`
	DefBool  bool               `PluginAttribute:"defBool,default=true"`
	DefLevel log.LevelRange     `PluginAttribute:"defLevel,default=info"`
	Layout   log.Layout         `PluginElement:"Layout,default=TextLayout"`
	Refs     []*log.AppenderRef `PluginElement:"AppenderRef"`
}

func (p *ProbeAppender) Start() error        { return nil }
func (p *ProbeAppender) Stop()               {}
func (p *ProbeAppender) Append(e *log.Event) {}
func (p *ProbeAppender) Write(b []byte)      {}

type cfAttr struct {
	plugin   string
	ptype    log.PluginType
	class    reflect.Type
	path     []int // field index path
	name     string
	hasDef   bool
	def      string
	goType   reflect.Type
	typedLit bool // conversion can fail
}

func cfTagName(tag string) (name string, def string, hasDef bool) {
	parts := strings.Split(tag, ",")
	name = parts[0]
	for _, p := range parts[1:] {
		if strings.HasPrefix(p, "default=") {
			return name, strings.TrimPrefix(p, "default="), true
		}
	}
	return name, "", false
}

// cfCollect lists the attributes of a plugin class (embedded structs included).
func cfCollect(t reflect.Type, base []int, out *[]cfAttr, plugin string, pt log.PluginType, root reflect.Type) {
	for i := 0; i < t.NumField(); i++ {
		f := t.Field(i)
		idx := append(append([]int(nil), base...), i)
		if tag, ok := f.Tag.Lookup("PluginAttribute"); ok {
			name, def, has := cfTagName(tag)
			if name == "name" {
				continue
			}
			typed := f.Type.Kind() != reflect.String
			*out = append(*out, cfAttr{plugin: plugin, ptype: pt, class: root, path: idx, name: name, hasDef: has, def: def, goType: f.Type, typedLit: typed})
			continue
		}
		if _, ok := f.Tag.Lookup("PluginElement"); ok {
			continue
		}
		if f.Anonymous && f.Type.Kind() == reflect.Struct {
			cfCollect(f.Type, idx, out, plugin, pt, root)
		}
	}
}

// literals for a Go type: a valid one, its expected reflect value, and an ill-typed one.
func cfLiterals(t reflect.Type, rng *rand.Rand) (good string, want any, bad string) {
	switch t {
	case reflect.TypeOf(log.LevelRange{}):
		g := []string{"INFO~ERROR", "warn", "debug~MAX", ""}[rng.Intn(4)]
		w, _ := log.ParseLevelRange(g)
		return g, w, "NOLEVEL~X"
	case reflect.TypeOf(log.BufferFullPolicy(0)):
		g := []string{"Block", "Discard", "DiscardOldest"}[rng.Intn(3)]
		w, _ := log.ParseBufferFullPolicy(g)
		return g, w, "Sometimes"
	case reflect.TypeOf(log.TimeRotation{}):
		g := []string{"h", "30m", "10m"}[rng.Intn(3)]
		w, _ := log.ParseTimeRotation(g)
		return g, w, "fortnight"
	}
	switch t.Kind() {
	case reflect.String:
		g := []string{"some value", "x", "with space and ünï", "${not-a-ref", "a,b"}[rng.Intn(5)]
		return g, g, ""
	case reflect.Bool:
		g := []string{"true", "false", "1", "F"}[rng.Intn(4)]
		w, _ := strconv.ParseBool(g)
		return g, w, "maybe"
	case reflect.Int, reflect.Int8, reflect.Int16, reflect.Int32, reflect.Int64:
		g := []string{"123", "0", "1000", "0x20", "250"}[rng.Intn(5)]
		w, _ := strconv.ParseInt(g, 0, 64)
		return g, w, "12x"
	case reflect.Uint, reflect.Uint8, reflect.Uint16, reflect.Uint32, reflect.Uint64:
		g := []string{"7", "0", "65535"}[rng.Intn(3)]
		w, _ := strconv.ParseUint(g, 0, 64)
		return g, w, "-1"
	case reflect.Float32, reflect.Float64:
		g := []string{"2.5", "-1e3", "0"}[rng.Intn(3)]
		w, _ := strconv.ParseFloat(g, 64)
		return g, w, "abc"
	}
	return "x", "x", ""
}

func cfEqual(fv reflect.Value, want any) bool {
	switch fv.Kind() {
	case reflect.Int, reflect.Int8, reflect.Int16, reflect.Int32, reflect.Int64:
		if w, ok := want.(int64); ok {
			return fv.Int() == w
		}
	case reflect.Uint, reflect.Uint8, reflect.Uint16, reflect.Uint32, reflect.Uint64:
		if w, ok := want.(uint64); ok {
			return fv.Uint() == w
		}
	case reflect.Float32, reflect.Float64:
		if w, ok := want.(float64); ok {
			return fv.Float() == w
		}
	}
	return reflect.DeepEqual(fv.Interface(), want)
}

// cfBase fills a storage with a valid configuration of class t under prefix (required attributes and
// required elements only); `skip` names an attribute to leave out.
func cfBase(s *flatten.Storage, t reflect.Type, prefix string, rng *rand.Rand) {
	for i := 0; i < t.NumField(); i++ {
		f := t.Field(i)
		if tag, ok := f.Tag.Lookup("PluginAttribute"); ok {
			name, _, has := cfTagName(tag)
			if name != "name" && !has {
				g, _, _ := cfLiterals(f.Type, rng)
				if f.Type.Kind() == reflect.String {
					g = "v"
				}
				_ = s.Set(prefix+"."+name, g, 0)
			}
			continue
		}
		if tag, ok := f.Tag.Lookup("PluginElement"); ok {
			name, _, has := cfTagName(tag)
			if !has && !strings.HasSuffix(name, "?") && f.Type.Kind() == reflect.Slice {
				_ = s.Set(prefix+".appenderRef.ref", "x", 0)
			}
			continue
		}
		if f.Anonymous && f.Type.Kind() == reflect.Struct {
			cfBase(s, f.Type, prefix, rng)
		}
	}
}

type cfCase struct {
	D1 struct {
		Presence string `json:"presence"`
		Typed    bool   `json:"typed"`
	} `json:"d1"`
	C1 string `json:"c1"`
	R1 string `json:"r1"`
	D2 struct {
		Presence string `json:"presence"`
		Typed    bool   `json:"typed"`
	} `json:"d2"`
	C2       string `json:"c2"`
	R2       string `json:"r2"`
	DE       string `json:"de"`
	CE       string `json:"ce"`
	RE       string `json:"re"`
	Spelling string `json:"spelling"`
	Form     string `json:"form"`
	Outcome  string `json:"outcome"`
}

func cmdConfig(f hx.Flags, r *hx.Result) {
	rng := hx.Rand(15)
	sys.InstallConsole()
	tmp, err := os.MkdirTemp(os.Getenv("VERIF_SCRATCH"), "cf-")
	if err != nil {
		r.SetInfra("mkdtemp: %v", err)
		return
	}
	defer os.RemoveAll(tmp)
	log.RegisterTimeRotation("h", log.TimeRotation{Interval: time.Hour})
	// schema from the live registry
	var attrs []cfAttr
	reg := log.VerifPlugins()
	var pnames []string
	for pt, ps := range reg {
		for name, class := range ps {
			cfCollect(class, nil, &attrs, name, pt, class)
			pnames = append(pnames, string(pt)+"/"+name)
		}
	}
	sort.Strings(pnames)
	sort.Slice(attrs, func(i, j int) bool {
		return attrs[i].plugin+attrs[i].name+string(attrs[i].ptype) < attrs[j].plugin+attrs[j].name+string(attrs[j].ptype)
	})
	r.Extra["plugin_types"] = len(pnames)
	r.Extra["attributes"] = len(attrs)
	byDecl := map[string][]cfAttr{}
	for _, a := range attrs {
		k := fmt.Sprintf("%v/%v", a.hasDef, a.typedLit)
		byDecl[k] = append(byDecl[k], a)
	}
	n := 0
	counter := map[string]int{}
	applyAttr := func(s *flatten.Storage, a cfAttr, c string) (want any, wantErr bool, skip bool) {
		key := "p." + a.name
		good, gv, bad := cfLiterals(a.goType, rng)
		switch c {
		case "absent":
			// remove: storages cannot delete, so the caller builds the base without it
			if a.hasDef {
				_, dv, _ := cfLiteralOf(a.goType, a.def)
				return dv, false, false
			}
			return nil, true, false
		case "literal":
			_ = s.Set(key, good, 0)
			return gv, false, false
		case "illtyped":
			if !a.typedLit {
				return nil, false, true
			}
			_ = s.Set(key, bad, 0)
			return nil, true, false
		case "propref":
			pk := "propKey" + strconv.Itoa(rng.Intn(1000))
			_ = s.Set(key, []string{"${" + pk + "}", " ${" + pk + "} "}[rng.Intn(2)], 0)
			_ = s.Set(pk, good, 0)
			return gv, false, false
		case "propmissing":
			_ = s.Set(key, "${noSuchProperty}", 0)
			return nil, true, false
		case "propsubtree":
			// the referenced name exists only as the prefix of other keys
			_ = s.Set(key, "${subTree}", 0)
			_ = s.Set("subTree.leaf", good, 0)
			_ = s.Set("subTree.other.x", "1", 0)
			return nil, true, false
		case "propspecial":
			sp := []string{"[]", "{}", "<nil>"}[rng.Intn(3)]
			_ = s.Set(key, "${spProp}", 0)
			_ = s.Set("spProp", sp, 0)
			if a.typedLit {
				return nil, true, false
			}
			_, sv, _ := cfLiteralOf(a.goType, sp)
			return sv, false, false
		default: // propill
			if !a.typedLit {
				return nil, false, true
			}
			_ = s.Set(key, "${badProp}", 0)
			_ = s.Set("badProp", bad, 0)
			return nil, true, false
		}
	}
	err = hx.ReadCases(f.Str("cases", ""), func(raw json.RawMessage) error {
		var c cfCase
		if err := json.Unmarshal(raw, &c); err != nil {
			return err
		}
		n++
		// map the abstract declaration of attribute 1 onto a concrete attribute of a registered type,
		// rotating through all of them; attribute 2 and the element are exercised on the probe plugin
		k := fmt.Sprintf("%v/%v", c.D1.Presence == "defaulted", c.D1.Typed)
		cands := byDecl[k]
		if len(cands) == 0 {
			return nil
		}
		a := cands[counter[k]%len(cands)]
		counter[k]++
		s := flatten.NewStorage()
		// base configuration without attribute a
		cfBaseWithout(s, a.class, "p", rng, a.name)
		want, wantErr, skip := applyAttr(s, a, c.C1)
		if skip {
			return nil
		}
		var v reflect.Value
		var perr error
		desc := map[string]any{"plugin": a.plugin, "attribute": a.name, "case": c.C1, "declared_default": a.def, "has_default": a.hasDef}
		if p := hx.Catch(func() { v, perr = log.NewPlugin(a.class, "p", s) }); p != nil {
			r.Violate("config-panic:attr:"+c.C1, desc, "NewPlugin panicked: %v", p)
			return nil
		}
		r.Eval(1)
		if wantErr != (perr != nil) {
			r.Violate(fmt.Sprintf("attr-outcome:%s:%s", c.C1, tern(wantErr, "accepted", "rejected")), desc,
				"plugin %s attribute %s, case %s: error=%v, specification expects %s", a.plugin, a.name, c.C1, perr != nil, c.R1)
			return nil
		}
		if perr == nil {
			fv := v.Elem().FieldByIndex(a.path)
			if !cfEqual(fv, want) {
				r.Violate("attr-value:"+c.R1, desc, "plugin %s attribute %s, case %s: field holds %v, specification: value from %s = %v", a.plugin, a.name, c.C1, fv.Interface(), c.R1, want)
			}
		}
		if n == 9 {
			r.Sample(map[string]any{"abstract": c, "mapped_to": desc})
		}
		return nil
	})
	if err != nil {
		r.SetInfra("read cases: %v", err)
	}
	r.NonTrivial(int64(len(attrs)))
	cfElements(r, rng)
	cfWhole(r, rng, tmp, f.Int("mutations", 1500))
}

func cfLiteralOf(t reflect.Type, lit string) (string, any, string) {
	switch t {
	case reflect.TypeOf(log.LevelRange{}):
		w, _ := log.ParseLevelRange(lit)
		return lit, w, ""
	case reflect.TypeOf(log.BufferFullPolicy(0)):
		w, _ := log.ParseBufferFullPolicy(lit)
		return lit, w, ""
	case reflect.TypeOf(log.TimeRotation{}):
		w, _ := log.ParseTimeRotation(lit)
		return lit, w, ""
	}
	switch t.Kind() {
	case reflect.Bool:
		w, _ := strconv.ParseBool(lit)
		return lit, w, ""
	case reflect.Int, reflect.Int8, reflect.Int16, reflect.Int32, reflect.Int64:
		w, _ := strconv.ParseInt(lit, 0, 64)
		return lit, w, ""
	case reflect.Uint, reflect.Uint8, reflect.Uint16, reflect.Uint32, reflect.Uint64:
		w, _ := strconv.ParseUint(lit, 0, 64)
		return lit, w, ""
	case reflect.Float32, reflect.Float64:
		w, _ := strconv.ParseFloat(lit, 64)
		return lit, w, ""
	}
	return lit, lit, ""
}

func cfBaseWithout(s *flatten.Storage, t reflect.Type, prefix string, rng *rand.Rand, without string) {
	tmp := flatten.NewStorage()
	cfBase(tmp, t, prefix, rng)
	for k, v := range tmp.Data() {
		if k == prefix+"."+without {
			continue
		}
		_ = s.Set(k, v, 0)
	}
}

// cfElements: element resolution on the probe plugin and on real types.
func cfElements(r *hx.Result, rng *rand.Rand) {
	probe := reflect.TypeOf(ProbeAppender{})
	type ecase struct {
		name    string
		set     map[string]string
		wantErr bool
		check   func(p *ProbeAppender) string
	}
	base := map[string]string{"p.reqInt": "1", "p.reqStr": "s", "p.appenderRef.ref": "x"}
	cases := []ecase{
		{"single-default absent", nil, false, func(p *ProbeAppender) string {
			if _, ok := p.Layout.(*log.TextLayout); !ok {
				return fmt.Sprintf("default layout is %T", p.Layout)
			}
			return ""
		}},
		{"single configured", map[string]string{"p.layout.type": "JSONLayout", "p.layout.fileLineLength": "9"}, false, func(p *ProbeAppender) string {
			l, ok := p.Layout.(*log.JSONLayout)
			if !ok || l.FileLineLength != 9 {
				return fmt.Sprintf("layout is %T %+v", p.Layout, p.Layout)
			}
			return ""
		}},
		{"single unknown type", map[string]string{"p.layout.type": "NoSuchLayout"}, true, nil},
		{"single sub-tree without type", map[string]string{"p.layout.fileLineLength": "9"}, true, nil},
		{"list single form", nil, false, func(p *ProbeAppender) string {
			if len(p.Refs) != 1 || p.Refs[0].Ref != "x" {
				return fmt.Sprintf("refs %v", p.Refs)
			}
			return ""
		}},
		{"list indexed form", map[string]string{"-p.appenderRef.ref": "", "p.appenderRef[0].ref": "a", "p.appenderRef[1].ref": "b", "p.appenderRef[1].level": "warn"}, false, func(p *ProbeAppender) string {
			if len(p.Refs) != 2 || p.Refs[0].Ref != "a" || p.Refs[1].Ref != "b" || p.Refs[1].Level.MinLevel != log.WarnLevel {
				return fmt.Sprintf("refs %d", len(p.Refs))
			}
			return ""
		}},
		{"list required absent", map[string]string{"-p.appenderRef.ref": ""}, true, nil},
		{"list element missing required attribute", map[string]string{"-p.appenderRef.ref": "", "p.appenderRef[0].level": "warn"}, true, nil},
		{"list element ill-typed attribute", map[string]string{"p.appenderRef.level": "NOLEVEL"}, true, nil},
		{"list element (single form) with unknown explicit type", map[string]string{"p.appenderRef.type": "NoSuchRef"}, true, nil},
		{"list element (single form) with a type of another category", map[string]string{"p.appenderRef.type": "Console"}, true, nil},
		{"list element (indexed form) with unknown explicit type", map[string]string{"-p.appenderRef.ref": "", "p.appenderRef[0].ref": "a", "p.appenderRef[1].ref": "b", "p.appenderRef[1].type": "NoSuchRef"}, true, nil},
		{"list element with its own explicit type", map[string]string{"p.appenderRef.type": "AppenderRef"}, false, func(p *ProbeAppender) string {
			if len(p.Refs) != 1 || p.Refs[0].Ref != "x" {
				return fmt.Sprintf("refs %v", p.Refs)
			}
			return ""
		}},
	}
	for _, c := range cases {
		s := flatten.NewStorage()
		for k, v := range base {
			if _, drop := c.set["-"+k]; !drop {
				_ = s.Set(k, v, 0)
			}
		}
		for k, v := range c.set {
			if !strings.HasPrefix(k, "-") {
				_ = s.Set(k, v, 0)
			}
		}
		var v reflect.Value
		var perr error
		desc := map[string]any{"element_case": c.name}
		if p := hx.Catch(func() { v, perr = log.NewPlugin(probe, "p", s) }); p != nil {
			r.Violate("config-panic:element", desc, "NewPlugin panicked on element case %q: %v", c.name, p)
			continue
		}
		r.Eval(1)
		if c.wantErr != (perr != nil) {
			r.Violate("element-outcome:"+tern(c.wantErr, "accepted", "rejected"), desc, "element case %q: error=%v", c.name, perr)
			continue
		}
		if perr == nil && c.check != nil {
			if m := c.check(v.Interface().(*ProbeAppender)); m != "" {
				r.Violate("element-value", desc, "element case %q: %s", c.name, m)
			}
		}
	}
}

// ---------------------------------------------------------------- whole configurations through Refresh
func respell(key, style string) string {
	// only the segments are respelled; indices and dots stay
	var out strings.Builder
	seg := func(s string) string {
		var words []string
		cur := ""
		for _, ch := range s {
			if ch >= 'A' && ch <= 'Z' && cur != "" {
				words = append(words, cur)
				cur = string(ch + 32)
			} else {
				cur += string(ch)
			}
		}
		words = append(words, cur)
		switch style {
		case "kebab":
			return strings.Join(words, "-")
		case "snake":
			return strings.Join(words, "_")
		case "capital":
			if len(s) > 0 && s[0] >= 'a' && s[0] <= 'z' {
				return string(s[0]-32) + s[1:]
			}
		}
		return s
	}
	parts := strings.Split(key, ".")
	for i, p := range parts {
		if i > 0 {
			out.WriteByte('.')
		}
		if j := strings.IndexByte(p, '['); j >= 0 {
			out.WriteString(seg(p[:j]) + p[j:])
		} else {
			out.WriteString(seg(p))
		}
	}
	return out.String()
}

func cfWholeBase(dir string) map[string]string {
	return map[string]string{
		"appender.con.type":                    "Console",
		"appender.con.layout.type":             "JSONLayout",
		"appender.fil.type":                    "File",
		"appender.fil.fileDir":                 dir,
		"appender.fil.fileName":                `f\temp\new.log`, // backslashes followed by escape letters must survive the inline form
		"appender.rol.type":                    "RollingFile",
		"appender.rol.fileDir":                 dir,
		"appender.rol.fileName":                "r.log",
		"appender.rol.rotation":                "h",
		"appender.rol.maxAge":                  "24",
		"appender.dis.type":                    "Discard",
		"appender.rec.type":                    "Rec",
		"logger.syn.type":                      "Logger",
		"logger.syn.tags":                      "cf_a",
		"logger.syn.level":                     "info",
		"logger.syn.appenderRef.ref":           "rec",
		"logger.asy.type":                      "AsyncLogger",
		"logger.asy.tags":                      "cf_b",
		"logger.asy.bufferSize":                "${bufSize}",
		"logger.asy.bufferFullPolicy":          "Block",
		"logger.asy.appenderRef[0].ref":        "fil",
		"logger.asy.appenderRef[1].ref":        "rol",
		"logger.asy.appenderRef[1].level":      "warn",
		"logger.dsc.type":                      "Discard",
		"logger.dsc.tags":                      "cf_c",
		"logger.cns.type":                      "Console",
		"logger.cns.tags":                      "cf_d",
		"logger.fll.type":                      "File",
		"logger.fll.tags":                      "cf_e",
		"logger.fll.fileDir":                   dir,
		"logger.fll.fileName":                  "fl.log",
		"logger.rfl.type":                      "RollingFile",
		"logger.rfl.tags":                      "cf_f_*",
		"logger.rfl.fileDir":                   dir,
		"logger.rfl.fileName":                  "app.log",
		"logger.rfl.rotation":                  "h",
		"logger.rfl.separate":                  "true",
		"logger.rfa.type":                      "RollingFile",
		"logger.rfa.tags":                      "cf_g",
		"logger.rfa.fileDir":                   dir,
		"logger.rfa.fileName":                  "async.log",
		"logger.rfa.rotation":                  "h",
		"logger.rfa.async":                     "true",
		"logger.rfa.bufferSize":                "300",
		"logger.rfa.bufferFullPolicy":          "DiscardOldest",
		"logger.rfa.layout.type":               "JSONLayout",
		"logger.rfa.layout.fileLineLength":     "33",
		"logger.rfd.type":                      "RollingFile",
		"logger.rfd.tags":                      "cf_h",
		"logger.rfd.fileDir":                   dir,
		"logger.rfd.fileName":                  "asyncdef.log",
		"logger.rfd.rotation":                  "h",
		"logger.rfd.async":                     "true",
		"appender.typeFile.type":               "File",
		"appender.typeFile.fileDir":            dir,
		"appender.typeFile.fileName":           "typed.log",
		"appender.types.type":                  "Console",
		"appender.types.layout.type":           "JSONLayout",
		"appender.types.layout.fileLineLength": "21",
		"logger.typed.type":                    "Logger",
		"logger.typed.tags":                    "cf_i",
		"logger.typed.level":                   "error",
		"logger.typed.appenderRef[0].ref":      "typeFile",
		"logger.typed.appenderRef[1].ref":      "types",
		"logger.root.type":                     "Logger",
		"logger.root.level":                    "warn",
		"logger.root.appenderRef.ref":          "con",
		"bufSize":                              "256",
		"enableCaller":                         "true",
		"bufferCap":                            "4KB",
	}
}

// exprForm rewrites the sub-tree below prefix as one inline "prefix!" expression.
func exprForm(cfg map[string]string, prefix string) map[string]string {
	return exprFormStyled(cfg, prefix, "camel")
}

// exprFlip reverses the order of the members written into inline expressions (nested sub-expressions first / last).
var exprFlip bool

// exprFormStyled additionally respells the keys inside the expression (identifiers cannot carry '-').  Members that
// form an element with a type of its own (layout.type, layout.x ...) are written as a nested sub-expression.
func exprFormStyled(cfg map[string]string, prefix, style string) map[string]string {
	if style == "kebab" {
		style = "snake"
	}
	out := map[string]string{}
	var inner []string
	typ := ""
	quote := func(v string) string {
		if _, err := strconv.ParseFloat(v, 64); err != nil && !isIdent(v) {
			return strconv.Quote(v)
		}
		return v
	}
	nested := map[string]map[string]string{} // element name -> member -> value (only elements that declare a type)
	for k, v := range cfg {
		if strings.HasPrefix(k, prefix+".") {
			rest := strings.TrimPrefix(k, prefix+".")
			if i := strings.IndexByte(rest, '.'); i > 0 && !strings.Contains(rest[:i], "[") {
				if _, hasType := cfg[prefix+"."+rest[:i]+".type"]; hasType {
					if nested[rest[:i]] == nil {
						nested[rest[:i]] = map[string]string{}
					}
					nested[rest[:i]][rest[i+1:]] = v
					continue
				}
			}
			if rest == "type" {
				typ = v
				continue
			}
			inner = append(inner, respell(rest, style)+" = "+quote(v))
		} else {
			out[k] = v
		}
	}
	for name, members := range nested {
		var in []string
		for mk, mv := range members {
			if mk != "type" {
				in = append(in, respell(mk, style)+" = "+quote(mv))
			}
		}
		sort.Strings(in)
		inner = append(inner, respell(name, style)+" = "+members["type"]+" { "+strings.Join(in, ", ")+" }")
	}
	sort.Strings(inner)
	if exprFlip {
		for i, j := 0, len(inner)-1; i < j; i, j = i+1, j-1 {
			inner[i], inner[j] = inner[j], inner[i]
		}
	}
	out[prefix+"!"] = typ + " { " + strings.Join(inner, ", ") + " }"
	return out
}

func isIdent(s string) bool {
	if s == "" {
		return false
	}
	for i, c := range s {
		if !(c == '_' || c >= 'a' && c <= 'z' || c >= 'A' && c <= 'Z' || i > 0 && c >= '0' && c <= '9') {
			return false
		}
	}
	return true
}

func cfWhole(r *hx.Result, rng *rand.Rand, tmp string, mutations int) {
	dir := filepath.Join(tmp, "whole")
	_ = os.MkdirAll(dir, 0o755)
	refresh := func(m map[string]string) (err error, p any, ret bool) {
		ret, p = hx.Within(10*time.Second, func() { err = log.Refresh(m) })
		return
	}
	reset := func() {
		hx.Within(10*time.Second, func() { log.Destroy() })
		log.VerifReset()
		for _, t := range []string{"cf_a", "cf_b", "cf_c", "cf_d", "cf_e", "cf_f_x", "cf_g", "cf_h", "cf_i"} {
			log.RegisterTag(t)
		}
	}
	base0 := cfWholeBase(dir)
	base := base0
	gen := 0
	// 1. every spelling x flat / inline form of some sub-trees: must succeed, and instantiate what was written
	for _, style := range []string{"camel", "kebab", "snake", "capital"} {
		for fi, form := range []string{"flat", "expr:appender.rol", "expr:logger.asy", "expr:logger.rfl", "expr:appender.con", "expr:appender.fil",
			"expr:logger.rfa", "expr:appender.con", "expr:logger.rfa", "expr:logger.rfd"} {
			exprFlip = fi >= 7 // the later forms write nested sub-expressions first instead of last (or the other way round)
			// consecutive generations differ in their values: what is instantiated is what THIS configuration says
			gen++
			base := map[string]string{}
			for k, v := range base0 {
				base[k] = v
			}
			wantBuf, wantAge := 256, int32(24)
			if gen%2 == 0 {
				wantBuf, wantAge = 512, 48
				base["bufSize"], base["appender.rol.maxAge"] = "512", "48"
			}
			reset()
			h := log.GetLogger("asy")
			hrfa, hrfd := log.GetLogger("rfa"), log.GetLogger("rfd")
			htyped := log.GetLogger("typed")
			cfg := base
			if strings.HasPrefix(form, "expr:") {
				cfg = exprFormStyled(base, strings.TrimPrefix(form, "expr:"), style)
			}
			m := map[string]string{}
			for k, v := range cfg {
				if strings.HasSuffix(k, "!") {
					m[respell(strings.TrimSuffix(k, "!"), style)+"!"] = v
				} else {
					m[respell(k, style)] = v
				}
			}
			desc := map[string]any{"spelling": style, "form": form}
			err, p, ret := refresh(m)
			r.Eval(1)
			switch {
			case !ret:
				r.Violate("blocked:refresh", desc, "Refresh did not return")
				return
			case p != nil:
				r.Violate("config-panic:refresh", desc, "Refresh panicked: %v", p)
				continue
			case err != nil:
				r.Violate("spelling-or-form-rejected:"+style+":"+strings.Split(form, ":")[0], desc, "a valid configuration written in %s / %s was rejected: %s", style, form, firstLine(err.Error()))
				continue
			}
			// what was instantiated
			if al, ok := log.VerifHandleLogger(h).(*log.AsyncLogger); !ok || al.BufferSize != wantBuf || al.BufferFullPolicy != log.BufferFullPolicyBlock ||
				len(al.AppenderRefs.AppenderRefs) != 2 {
				r.Violate("instantiated-values", desc, "logger asy is %T %+v", log.VerifHandleLogger(h), log.VerifHandleLogger(h))
			} else {
				for _, ref := range al.AppenderRefs.AppenderRefs {
					if fa, ok := ref.Appender.(*log.FileAppender); ok && fa.FileName != `f\temp\new.log` {
						r.Violate("instantiated-values", desc, "file appender instantiated with fileName %q, configured %q", fa.FileName, `f\temp\new.log`)
					}
					if ra, ok := ref.Appender.(*log.RollingFileAppender); ok {
						if ra.MaxAge != wantAge || ra.FileName != "r.log" || ra.Rotation.Interval != time.Hour || ref.Level.MinLevel != log.WarnLevel {
							r.Violate("instantiated-values", desc, "rolling appender instantiated as %+v (ref level %v)", ra, ref.Level)
						}
					}
				}
			}
			if log.BufferCap.Load() != 4096 {
				r.Violate("instantiated-values", desc, "property bufferCap=4KB not injected: %d", log.BufferCap.Load())
			}
			// plugins whose names begin with "type"
			if tl, ok := log.VerifHandleLogger(htyped).(*log.SyncLogger); !ok || tl.Level.MinLevel != log.ErrorLevel || len(tl.AppenderRefs.AppenderRefs) != 2 {
				r.Violate("instantiated-values", desc, "logger typed is %T %+v, configured: Logger, level error, two references", log.VerifHandleLogger(htyped), log.VerifHandleLogger(htyped))
			} else {
				for _, ref := range tl.AppenderRefs.AppenderRefs {
					if fa, ok := ref.Appender.(*log.FileAppender); ok && fa.FileName != "typed.log" {
						r.Violate("instantiated-values", desc, "appender typeFile instantiated with fileName %q", fa.FileName)
					}
					if ca, ok := ref.Appender.(*log.ConsoleAppender); ok {
						if jl, ok := ca.Layout.(*log.JSONLayout); !ok || jl.FileLineLength != 21 {
							r.Violate("instantiated-values", desc, "appender types: layout %T %+v, configured JSONLayout with fileLineLength 21", ca.Layout, ca.Layout)
						}
					}
				}
			}
			// the rolling-file logger in asynchronous mode: its attributes reach the logger that does the work
			for name, hw := range map[string]*log.LoggerWrapper{"rfa": hrfa, "rfd": hrfd} {
				rf, ok := log.VerifHandleLogger(hw).(*log.RollingFileLogger)
				if !ok {
					r.Violate("instantiated-values", desc, "logger %s is %T", name, log.VerifHandleLogger(hw))
					continue
				}
				in, ok := log.VerifRollingInner(rf).(*log.AsyncLogger)
				wantSize, wantPol := 300, log.BufferFullPolicyDiscardOldest
				if name == "rfd" {
					wantSize, wantPol = 10000, log.BufferFullPolicyDiscard
				}
				if !ok || in.BufferSize != wantSize || in.BufferFullPolicy != wantPol {
					r.Violate("instantiated-values", desc, "rolling-file logger %s (async=true): inner logger %T %+v, want bufferSize %d policy %v", name, log.VerifRollingInner(rf), in, wantSize, wantPol)
				}
				if name == "rfa" {
					if jl, ok := rf.Layout.(*log.JSONLayout); !ok || jl.FileLineLength != 33 {
						r.Violate("instantiated-values", desc, "rolling-file logger rfa: layout %T %+v, configured JSONLayout with fileLineLength 33", rf.Layout, rf.Layout)
					}
				}
			}
		}
	}
	// 2. error classes: an error, never a panic
	type ecase struct {
		name string
		edit func(m map[string]string)
	}
	errs := []ecase{
		{"no appender section", func(m map[string]string) {
			for k := range m {
				if strings.HasPrefix(k, "appender.") {
					delete(m, k)
				}
			}
		}},
		{"dangling appender ref", func(m map[string]string) { m["logger.syn.appenderRef.ref"] = "nosuch" }},
		{"dangling appender ref with an empty level range", func(m map[string]string) {
			m["logger.syn.appenderRef.ref"], m["logger.syn.appenderRef.level"] = "nosuch", "error~info"
		}},
		{"dangling appender ref with a one-point-empty range", func(m map[string]string) {
			m["logger.syn.appenderRef.ref"], m["logger.syn.appenderRef.level"] = "nosuch", "warn~warn"
		}},
		{"dangling second appender ref at MAX", func(m map[string]string) {
			m["logger.asy.appenderRef[1].ref"], m["logger.asy.appenderRef[1].level"] = "nosuch", "max"
		}},
		{"dangling appender ref with a bounded range", func(m map[string]string) {
			m["logger.syn.appenderRef.ref"], m["logger.syn.appenderRef.level"] = "nosuch", "info~error"
		}},
		{"unknown logger type", func(m map[string]string) { m["logger.syn.type"] = "Nope" }},
		{"unknown appender type", func(m map[string]string) { m["appender.con.type"] = "Nope" }},
		{"unknown layout type", func(m map[string]string) { m["appender.con.layout.type"] = "Nope" }},
		{"unknown layout type on a logger (optional element)", func(m map[string]string) { m["logger.syn.layout.type"] = "Nope" }},
		{"wrong-case layout type on an async logger", func(m map[string]string) { m["logger.asy.layout.type"] = "textLayout" }},
		{"plugin of another category as layout of the root logger", func(m map[string]string) { m["logger.root.layout.type"] = "Console" }},
		{"unknown layout type on a discard logger", func(m map[string]string) { m["logger.dsc.layout.type"] = "NoSuchLayout" }},
		{"unknown layout type on a rolling-file logger, inline", func(m map[string]string) { m["logger.rfl.layout!"] = "NoSuchLayout{}" }},
		{"missing logger type", func(m map[string]string) { delete(m, "logger.syn.type") }},
		{"missing required attribute", func(m map[string]string) { delete(m, "appender.fil.fileName") }},
		{"missing required element", func(m map[string]string) { delete(m, "logger.syn.appenderRef.ref") }},
		{"ill-typed int", func(m map[string]string) { m["bufSize"] = "many" }},
		{"ill-typed level", func(m map[string]string) { m["logger.syn.level"] = "loud" }},
		{"ill-typed level: unknown lower bound", func(m map[string]string) { m["logger.syn.level"] = "bogus~error" }},
		{"ill-typed level: unknown upper bound", func(m map[string]string) { m["logger.syn.level"] = "info~bogus" }},
		{"ill-typed level: both bounds unknown", func(m map[string]string) { m["logger.asy.appenderRef[1].level"] = "bogus~nosuch" }},
		{"ill-typed reference level through a property", func(m map[string]string) {
			m["logger.asy.appenderRef[1].level"], m["refLevel"] = "${refLevel}", "nosuch~error"
		}},
		{"ill-typed policy", func(m map[string]string) { m["logger.asy.bufferFullPolicy"] = "Maybe" }},
		{"ill-typed rotation", func(m map[string]string) { m["appender.rol.rotation"] = "weekly" }},
		{"ill-typed bool", func(m map[string]string) { m["logger.rfl.separate"] = "perhaps" }},
		{"property missing", func(m map[string]string) { delete(m, "bufSize") }},
		{"bad property value", func(m map[string]string) { m["enableCaller"] = "perhaps" }},
		{"bad bufferCap", func(m map[string]string) { m["bufferCap"] = "4 parsecs" }},
		{"start failure: missing directory", func(m map[string]string) { m["appender.fil.fileDir"] = filepath.Join(dir, "nope") }},
		{"start failure: buffer too small", func(m map[string]string) { m["bufSize"] = "5" }},
		{"start failure: rolling logger directory", func(m map[string]string) { m["logger.rfl.fileDir"] = filepath.Join(dir, "nope") }},
		{"buffer size beyond any channel", func(m map[string]string) { m["bufSize"] = strconv.FormatInt(math.MaxInt64, 10) }},
		{"buffer size 2^60", func(m map[string]string) { m["bufSize"] = strconv.FormatInt(1<<60, 10) }},
		{"leaf where a sub-tree is expected", func(m map[string]string) { m["appender.con"] = "Console" }},
		{"unparsable inline expression", func(m map[string]string) { m["appender.x!"] = "Console{" }},
		{"root logger with tags", func(m map[string]string) { m["logger.root.tags"] = "cf_a" }},
		{"handle name not configured", nil},
	}
	for _, e := range errs {
		reset()
		m := map[string]string{}
		for k, v := range base {
			m[k] = v
		}
		if e.edit != nil {
			e.edit(m)
		} else {
			log.GetLogger("nosuchlogger")
		}
		desc := map[string]any{"error_class": e.name}
		err, p, ret := refresh(m)
		r.Eval(1)
		switch {
		case !ret:
			r.Violate("blocked:refresh", desc, "Refresh did not return for %q", e.name)
			return
		case p != nil:
			r.Violate("config-panic:"+strings.ReplaceAll(e.name, " ", "-"), desc, "Refresh panicked for %q: %v", e.name, p)
		case err == nil:
			r.Violate("bad-config-accepted:"+strings.ReplaceAll(e.name, " ", "-"), desc, "Refresh accepted a configuration with %s", e.name)
		}
	}
	// 2b. a dangling reference must be rejected whatever was configured before: Refresh(valid); Destroy; Refresh(the
	// same configuration without the appender "rec" but still referencing it) - no registry reset in between
	{
		reset()
		m := map[string]string{}
		for k, v := range base {
			m[k] = v
		}
		desc := map[string]any{"history": "Refresh(valid); Destroy; Refresh(reference to an appender only the previous configuration declared)"}
		if err, p, ret := refresh(m); !ret || p != nil || err != nil {
			r.Violate("spelling-or-form-rejected:history", desc, "first Refresh failed: ret=%v panic=%v err=%v", ret, p, err)
		} else {
			hx.Within(10*time.Second, func() { log.Destroy() })
			delete(m, "appender.rec.type")
			err, p, ret := refresh(m)
			r.Eval(1)
			switch {
			case !ret:
				r.Violate("blocked:refresh", desc, "second Refresh did not return")
			case p != nil:
				r.Violate("config-panic:dangling-ref-history", desc, "second Refresh panicked: %v", p)
			case err == nil:
				r.Violate("bad-config-accepted:dangling-ref-after-destroy", desc, "a reference to an appender that only the previous (destroyed) configuration declared was accepted")
			}
		}
	}
	// 3. random mutations of the valid configuration: any outcome but a panic or a hang
	ops := []string{"delete", "corrupt", "respell", "conflict", "wrap", "dupindex", "empty"}
	corrupt := []string{"", " ", "${", "${}", "${x", "-1", "1e99", "\x00", "{}", "[]", "<nil>", "Logger{", "ä", "99999999999999999999", "true", "a.b", "x[0]"}
	for i := 0; i < mutations && !hx.Stopped(); i++ {
		reset()
		m := map[string]string{}
		for k, v := range base {
			m[k] = v
		}
		keys := make([]string, 0, len(m))
		for k := range m {
			keys = append(keys, k)
		}
		sort.Strings(keys)
		var applied []string
		onlyRespell := true
		for j := 0; j < 1+rng.Intn(3); j++ {
			k := keys[rng.Intn(len(keys))]
			op := ops[rng.Intn(len(ops))]
			applied = append(applied, op+":"+k)
			if op != "respell" {
				onlyRespell = false
			}
			switch op {
			case "delete":
				delete(m, k)
			case "corrupt":
				m[k] = corrupt[rng.Intn(len(corrupt))]
			case "respell":
				if v, ok := m[k]; ok {
					delete(m, k)
					m[respell(k, []string{"kebab", "snake", "capital"}[rng.Intn(3)])] = v
				}
			case "conflict":
				if i := strings.LastIndex(k, "."); i > 0 {
					m[k[:i]] = "leaf"
				}
			case "wrap":
				if i := strings.Index(k, "."); i > 0 {
					if j := strings.Index(k[i+1:], "."); j > 0 {
						m = exprForm(m, k[:i+1+j])
					}
				}
			case "dupindex":
				m[k+"[0]"] = m[k]
			case "empty":
				m[k] = ""
			}
		}
		desc := map[string]any{"mutations": applied}
		err, p, ret := refresh(m)
		r.Eval(1)
		switch {
		case !ret:
			r.Violate("blocked:refresh", desc, "Refresh did not return after mutations %v", applied)
			return
		case p != nil:
			r.Violate("config-panic:mutation:"+strings.Split(applied[0], ":")[0], desc, "Refresh panicked after mutations %v: %v", applied, p)
		case onlyRespell && err != nil:
			r.Violate("spelling-or-form-rejected:mutation", desc, "respelling keys %v made Refresh fail: %s", applied, firstLine(err.Error()))
		}
	}
	reset()
}
