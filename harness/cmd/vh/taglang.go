package main

// C18 - replays the (class string, verdict) table and the registry histories emitted by TLC from
// spec/TagLang.tla and spec/TagRegistry.tla against log.RegisterTag / Register*Tag / GetAllTags.

import (
	"encoding/json"
	"fmt"
	"sort"
	"strings"
	"time"

	"github.com/go-spring/log"

	"verifharness/hx"
	"verifharness/sys"
)

func init() {
	commands["taglang"] = cmdTagLang
	commands["tagregistry"] = cmdTagRegistry
}

// concrete characters per class; the first entries are the class edges.
var tagClassChars = map[string][]byte{
	"l": []byte("azmq"),
	"d": []byte("095"),
	"u": []byte("_"),
	"U": []byte("AZM"),
	"o": {'-', ' ', '`', '{', '/', ':', '@', '[', 0x00, 0x7f, 0x80, 0xff, '.', '*', '\n'},
}

type tagCase struct {
	K     string   `json:"k"`
	S     []string `json:"s"`
	Valid bool     `json:"valid"`
}

func classOf(b byte) string {
	switch {
	case b >= 'a' && b <= 'z':
		return "l"
	case b >= '0' && b <= '9':
		return "d"
	case b == '_':
		return "u"
	case b >= 'A' && b <= 'Z':
		return "U"
	}
	return "o"
}

// tryRegister calls RegisterTag under recover.
func tryRegister(name string) (t *log.Tag, panicked bool) {
	p := hx.Catch(func() { t = log.RegisterTag(name) })
	return t, p != nil
}

func checkOne(r *hx.Result, model map[string]bool, name string, want bool, c any) {
	t, panicked := tryRegister(name)
	r.Eval(1)
	switch {
	case want && panicked:
		r.Violate("valid-rejected", c, "RegisterTag(%q) panicked; the specification accepts it", name)
	case !want && !panicked:
		r.Violate("invalid-accepted", c, "RegisterTag(%q) returned; the specification rejects it", name)
	case want:
		if t == nil {
			r.Violate("nil-tag", c, "RegisterTag(%q) returned nil", name)
			return
		}
		t2, p2 := tryRegister(name)
		if p2 || t2 != t {
			r.Violate("not-idempotent", c, "RegisterTag(%q) twice: second call panicked=%v same=%v", name, p2, t2 == t)
		}
		model[name] = true
	}
}

func compareAll(r *hx.Result, model map[string]bool, c any) {
	got := log.GetAllTags()
	want := make([]string, 0, len(model))
	for k := range model {
		want = append(want, k)
	}
	sort.Strings(want)
	g := append([]string(nil), got...)
	sort.Strings(g)
	if strings.Join(g, "\x00") != strings.Join(want, "\x00") {
		r.Violate("alltags-mismatch", c, "GetAllTags has %d names, model has %d (first diff: %s)", len(g), len(want), firstDiff(g, want))
	}
}

func firstDiff(a, b []string) string {
	for i := 0; i < len(a) || i < len(b); i++ {
		var x, y string
		if i < len(a) {
			x = a[i]
		}
		if i < len(b) {
			y = b[i]
		}
		if x != y {
			return fmt.Sprintf("got %q want %q", x, y)
		}
	}
	return "none"
}

func cmdTagLang(f hx.Flags, r *hx.Result) {
	rng := hx.Rand(18)
	table := map[string]bool{} // class string -> verdict (for the exhaustive concrete sweep)
	var cases []tagCase
	err := hx.ReadCases(f.Str("cases", ""), func(raw json.RawMessage) error {
		var c tagCase
		if err := json.Unmarshal(raw, &c); err != nil {
			return err
		}
		cases = append(cases, c)
		if c.K == "grow" {
			table[strings.Join(c.S, "")] = c.Valid
		}
		return nil
	})
	if err != nil {
		r.SetInfra("read cases: %v", err)
		return
	}
	variants := f.Int("variants", 3)
	log.VerifReset()
	model := map[string]bool{}
	nontrivial := map[string]bool{}
	for ci, c := range cases {
		if c.K == "helper" {
			// "_" main "_" sub [ "_" action ] around the length bound: built by the three helpers from its parts
			cs := strings.Join(c.S, "")
			rest := cs[5:] // after "ulllu"
			sub, act := rest, ""
			if i := strings.IndexByte(rest, 'u'); i >= 0 {
				sub, act = rest[:i], rest[i+1:]
			}
			subS := strings.Repeat("s", len(sub))
			actS := strings.Repeat("7", len(act))
			for hi, h := range []func(string, string) *log.Tag{log.RegisterAppTag, log.RegisterBizTag, log.RegisterRPCTag} {
				main := []string{"app", "biz", "rpc"}[hi]
				name := "_" + main + "_" + subS
				if actS != "" {
					name += "_" + actS
				}
				var got *log.Tag
				p := hx.Catch(func() { got = h(subS, actS) })
				r.Eval(1)
				desc := map[string]any{"helper": main, "sub_len": len(sub), "action_len": len(act), "name_len": len(name), "valid": c.Valid}
				switch {
				case c.Valid && (p != nil || got == nil):
					r.Violate("helper-rejected-valid", desc, "helper %s(sub of %d, action of %d) = %d-byte name panicked (%v); the specification accepts it", main, len(sub), len(act), len(name), p)
				case !c.Valid && p == nil:
					r.Violate("helper-accepted-invalid", desc, "helper %s built the %d-byte name %q and registered it; the specification rejects it", main, len(name), name)
				}
				if c.Valid {
					model[name] = true
				}
			}
			continue
		}
		// variant 0: class minimum, 1: class maximum, >=2: random member of the class
		for v := 0; v < variants; v++ {
			b := make([]byte, len(c.S))
			for i, cl := range c.S {
				chars := tagClassChars[cl]
				switch {
				case v == 0:
					b[i] = chars[0]
				case v == 1 && len(chars) > 1:
					b[i] = chars[1]
				default:
					b[i] = chars[rng.Intn(len(chars))]
				}
			}
			name := string(b)
			checkOne(r, model, name, c.Valid, map[string]any{"class": strings.Join(c.S, ""), "name": name, "valid": c.Valid})
			if len(c.S) >= 2 {
				nontrivial[strings.Join(c.S, "")] = true
			}
		}
		if ci%5000 == 0 {
			compareAll(r, model, map[string]any{"at_case": ci})
		}
		if ci < 3 || ci == len(cases)/2 {
			r.Sample(c)
		}
	}
	compareAll(r, model, "end of class-string table")

	// self-test of the binding: a deliberately wrong expectation must be noticed.
	probe := hx.NewResult()
	checkOne(probe, map[string]bool{}, "ab", true, "selftest")
	if probe.NViol() == 0 {
		r.SetInfra("self-test failed: a wrong expectation for \"ab\" was not noticed")
	}

	// exhaustive concrete sweep over the 10-symbol boundary alphabet, verdict looked up in TLC's table
	if n := f.Int("sweep", 0); n > 0 {
		alpha := []byte("az09_AZ- {")
		buf := make([]byte, n)
		cls := make([]byte, n)
		var rec func(d, L int)
		count := 0
		rec = func(d, L int) {
			if d == L {
				want, ok := table[string(cls[:L])]
				if !ok {
					r.SetInfra("class string %q missing from the TLC table", cls[:L])
					return
				}
				name := string(buf[:L])
				if model[name] {
					return
				}
				checkOne(r, model, name, want, map[string]any{"name": name, "valid": want})
				count++
				return
			}
			for _, ch := range alpha {
				buf[d] = ch
				cls[d] = classOf(ch)[0]
				rec(d+1, L)
			}
		}
		for L := 0; L <= n; L++ {
			rec(0, L)
		}
		compareAll(r, model, "end of concrete sweep")
		r.Extra["sweep_strings"] = count
	}

	// random byte strings: verdict computed by folding the class string through TLC's table when
	// short enough, otherwise only totality (panic or register, never anything else) is checked
	// against the Go transcription of Valid used by nothing else.
	for i := 0; i < f.Int("random", 2000); i++ {
		L := rng.Intn(8)
		b := make([]byte, L)
		for j := range b {
			if rng.Intn(3) == 0 {
				b[j] = byte(rng.Intn(256))
			} else {
				b[j] = "az09_AZ- {"[rng.Intn(10)]
			}
		}
		var cs strings.Builder
		for _, ch := range b {
			cs.WriteString(classOf(ch))
		}
		want, ok := table[cs.String()]
		if !ok {
			continue
		}
		if model[string(b)] {
			continue
		}
		checkOne(r, model, string(b), want, map[string]any{"name": string(b), "valid": want})
	}
	compareAll(r, model, "end of random strings")
	// far beyond the length bound: otherwise well-formed names of lengths around every power of 256 (and a few in
	// between) are invalid like every name longer than 36, directly and through the helpers
	for _, L := range []int{37, 38, 40, 64, 100, 128, 200, 255, 256, 257, 258, 259, 260, 261, 270, 275, 290, 292, 293, 300,
		511, 512, 515, 520, 530, 548, 549, 600, 768, 771, 800, 1027, 1030, 4099, 65535, 65536, 65539, 65545, 65560, 65572, 131075} {
		for shape := 0; shape < 4; shape++ {
			var name string
			switch shape {
			case 0: // one segment
				name = strings.Repeat("a", L)
			case 1: // leading underscore, two segments
				name = "_ab_" + strings.Repeat("b", L-4)
			case 2: // three segments
				name = "ab_cd_" + strings.Repeat("e", L-6)
			case 3: // four segments with digits
				name = "_a1_b2_c3_" + strings.Repeat("4", L-10)
			}
			checkOne(r, model, name, false, map[string]any{"name_length": L, "shape": shape, "valid": false})
		}
		for _, h := range []func() *log.Tag{
			func() *log.Tag { return log.RegisterAppTag(strings.Repeat("s", L-6), "ab") },
			func() *log.Tag { return log.RegisterBizTag("ab", strings.Repeat("t", L-8)) },
			func() *log.Tag { return log.RegisterRPCTag(strings.Repeat("u", L-5), "") },
		} {
			var t *log.Tag
			p := hx.Catch(func() { t = h() })
			r.Eval(1)
			if p == nil && t != nil {
				r.Violate("helper-accepted-invalid", map[string]any{"name_length": L}, "a helper built and registered a name of %d characters; the specification rejects every name longer than 36", L)
			}
		}
	}
	compareAll(r, model, "end of long names")
	r.NonTrivial(int64(len(nontrivial)))
	log.VerifReset()
}

type regStep struct {
	Op   string     `json:"op"`
	Name []string   `json:"name"`
	Args [][]string `json:"args"`
	Res  string     `json:"res"`
	ID   int        `json:"id"`
	All  [][]string `json:"all"`
}

type regCase struct {
	H []regStep `json:"h"`
}

func concClass(cs []string, variant int) string {
	b := make([]byte, len(cs))
	for i, cl := range cs {
		ch := tagClassChars[cl]
		b[i] = ch[variant%len(ch)]
	}
	return string(b)
}

func cmdTagRegistry(f hx.Flags, r *hx.Result) {
	mains := []string{"app", "biz", "rpc"}
	n := 0
	distinct := map[string]bool{}
	err := hx.ReadCases(f.Str("cases", ""), func(raw json.RawMessage) error {
		var c regCase
		if err := json.Unmarshal(raw, &c); err != nil {
			return err
		}
		n++
		variant := n % 2
		main := mains[n%3]
		log.VerifReset()
		ids := map[int]*log.Tag{}
		sig := ""
		for si, st := range c.H {
			var got *log.Tag
			var p any
			name := concClass(st.Name, variant)
			if st.Op == "register" {
				p = hx.Catch(func() { got = log.RegisterTag(name) })
			} else {
				sub, act := concClass(st.Args[0], variant), concClass(st.Args[1], variant)
				// the model's main type is three lower-case letters; rebuild the expected name
				if len(st.Name) > 0 {
					name = "_" + main + "_" + sub
					if act != "" {
						name += "_" + act
					}
				}
				p = hx.Catch(func() {
					switch main {
					case "app":
						got = log.RegisterAppTag(sub, act)
					case "biz":
						got = log.RegisterBizTag(sub, act)
					default:
						got = log.RegisterRPCTag(sub, act)
					}
				})
			}
			sig += st.Op + ":" + st.Res + ";"
			info := map[string]any{"history": c.H, "step": si, "name": name}
			if (p != nil) != (st.Res == "panic") {
				r.Violate("registry-panic-mismatch", info, "step %d %s(%q): panicked=%v, specification says %s", si, st.Op, name, p != nil, st.Res)
				break
			}
			if st.Res == "ok" {
				if got == nil {
					r.Violate("nil-tag", info, "step %d returned nil tag", si)
					break
				}
				if prev, ok := ids[st.ID]; ok && prev != got {
					r.Violate("not-idempotent", info, "step %d: re-registration of %q returned a different object", si, name)
				}
				ids[st.ID] = got
			}
			// GetAllTags must be exactly the registered set
			want := map[string]bool{}
			for _, a := range st.All {
				// names in `all` were produced by earlier steps with the same concretisation rule
				if len(a) >= 5 && a[0] == "u" && isHelperName(c.H, a) {
					want[helperConcrete(c.H, a, variant, main)] = true
				} else {
					want[concClass(a, variant)] = true
				}
			}
			gotAll := log.GetAllTags()
			if len(gotAll) != len(want) {
				r.Violate("alltags-mismatch", info, "step %d: GetAllTags=%v, specification has %d names", si, gotAll, len(want))
				break
			}
			for _, g := range gotAll {
				if !want[g] {
					r.Violate("alltags-mismatch", info, "step %d: GetAllTags contains %q which the specification does not", si, g)
				}
			}
		}
		r.Eval(1)
		distinct[sig] = true
		if n <= 2 {
			r.Sample(c)
		}
		return nil
	})
	if err != nil {
		r.SetInfra("read cases: %v", err)
	}
	r.NonTrivial(int64(len(distinct)))
	log.VerifReset()
	tagRegistryAcrossConfig(r)
}

// tagRegistryAcrossConfig: the registry's laws across a configuration cycle.  A configuration may name tags nobody
// registered (and strings that are no tag names at all): the list of all tags still holds exactly the registered
// names; a registration refused while the configuration is live leaves nothing behind; after Destroy the same
// name yields the same tag again.
func tagRegistryAcrossConfig(r *hx.Result) {
	sys.InstallConsole()
	log.Destroy()
	log.VerifReset()
	sys.ResetAppenders()
	model := map[string]bool{}
	x, _ := tryRegister("reg_first")
	_, _ = tryRegister("_reg_second_tag")
	model["reg_first"], model["_reg_second_tag"] = true, true
	cfg := sys.Cfg{}
	cfg.AddRec("tr1")
	cfg.AddLogger("lg", "Logger", "", "reg_first, cfg_only_tag, C18-Cfg, _only_in_config, zz_*", []sys.Ref{{Ref: "tr1"}}, false, nil)
	desc := map[string]any{"scenario": "register, Refresh(config naming unregistered and invalid tag strings), register while live, Destroy, register again"}
	var rerr error
	if ret, p := hx.Within(8*time.Second, func() { rerr = log.Refresh(cfg.Map(nil)) }); !ret || p != nil || rerr != nil {
		// the configuration rules are another property's subject; without a live configuration this scenario says nothing
		log.Destroy()
		log.VerifReset()
		return
	}
	compareAll(r, model, desc)
	for _, name := range []string{"brand_new_tag", "cfg_only_tag", "C18-Cfg"} {
		var p any
		ret, _ := hx.Within(8*time.Second, func() { p = hx.Catch(func() { log.RegisterTag(name) }) })
		r.Eval(1)
		if !ret {
			r.Violate("registry-blocked", desc, "RegisterTag(%q) under a live configuration did not return within 8 s", name)
			return
		}
		if p == nil && name == "C18-Cfg" {
			r.Violate("invalid-accepted", desc, "RegisterTag(%q) returned under a live configuration that names this string; the specification rejects it", name)
		}
	}
	compareAll(r, model, desc)
	if ret, p := hx.Within(8*time.Second, func() { log.Destroy() }); !ret || p != nil {
		r.Violate("registry-blocked", desc, "Destroy returned=%v panic=%v", ret, p)
		return
	}
	compareAll(r, model, desc)
	var again *log.Tag
	var p any
	ret, _ := hx.Within(8*time.Second, func() { p = hx.Catch(func() { again = log.RegisterTag("reg_first") }) })
	r.Eval(1)
	switch {
	case !ret:
		r.Violate("registry-blocked", desc, "RegisterTag of an already registered name after Destroy did not return within 8 s")
		return
	case p != nil || again != x:
		r.Violate("not-idempotent", desc, "RegisterTag(%q) after a configuration cycle: panic=%v same tag=%v", "reg_first", p, again == x)
	}
	if _, panicked := tryRegister("C18-Cfg"); !panicked {
		r.Violate("invalid-accepted", desc, "RegisterTag(%q) returned after the configuration that named it was destroyed", "C18-Cfg")
	}
	if _, panicked := tryRegister("cfg_only_tag"); panicked {
		r.Violate("valid-rejected", desc, "RegisterTag(%q) panicked after Destroy", "cfg_only_tag")
	}
	model["cfg_only_tag"] = true
	compareAll(r, model, desc)
	log.VerifReset()
}

// A name in `all` stems from a helper step iff some helper step in the history produced it.
func isHelperName(h []regStep, a []string) bool {
	for _, st := range h {
		if st.Op == "helper" && strings.Join(st.Name, "") == strings.Join(a, "") {
			// unless a plain register step produced the same class string (then both coincide only
			// if the concrete names coincide, which they do not for main types app/biz/rpc vs "aaa")
			return true
		}
	}
	return false
}

func helperConcrete(h []regStep, a []string, variant int, main string) string {
	for _, st := range h {
		if st.Op == "helper" && strings.Join(st.Name, "") == strings.Join(a, "") {
			sub, act := concClass(st.Args[0], variant), concClass(st.Args[1], variant)
			name := "_" + main + "_" + sub
			if act != "" {
				name += "_" + act
			}
			return name
		}
	}
	return ""
}
