package main

// C20 - crash placements enumerated by TLC from spec/CrashPath.tla executed on a child process that
// logs through a synchronous logger to a file / rolling-file / console (stdout redirected to a file)
// appender and acknowledges every returned call on a pipe; the parent kills it (SIGKILL) or the
// child exits (os.Exit) after the k-th acknowledgement, then every acknowledged line must be in the
// target, complete.  `crashchild` is the child; `crash` the parent.

import (
	"bufio"
	"context"
	"encoding/json"
	"fmt"
	"os"
	"os/exec"
	"path/filepath"
	"strconv"
	"strings"
	"sync"
	"sync/atomic"
	"syscall"
	"time"

	"github.com/go-spring/log"

	"verifharness/hx"
	"verifharness/sys"
)

func init() {
	commands["crash"] = cmdCrash
	commands["crashchild"] = cmdCrashChild
}

func crashPad(id int64) string { return strings.Repeat(string(rune('a'+id%26)), int(10+id%90)) }

func cmdCrashChild(f hx.Flags, r *hx.Result) {
	kind, layout, dir := f.Str("kind", "file"), f.Str("layout", "TextLayout"), f.Str("dir", ".")
	goroutines, calls, exitAfter := f.Int("goroutines", 1), f.Int("calls", 3), f.Int("exitafter", -1)
	ack := os.NewFile(3, "ack")
	log.RegisterTimeRotation("h", log.TimeRotation{Interval: time.Hour})
	log.RegisterTimeRotation("sec", log.TimeRotation{Interval: time.Second})
	if f.Str("rel", "") != "" { // a relative target directory, as in the default fileDir=./logs
		if err := os.Chdir(dir); err != nil {
			fmt.Fprintln(os.Stderr, "child chdir:", err)
			os.Exit(7)
		}
		dir = "."
	}
	rollingLogger := kind == "rollinglogger" // the RollingFile logger kind (synchronous), not an appender behind a Logger
	realRot := (kind == "rolling" || rollingLogger) && f.Str("realrot", "") != ""
	separate := rollingLogger && f.Str("separate", "") != "" // WARN and above go to the sibling file <name>.wf
	poison := f.Int("poison", 0)                             // every poison-th call carries a value whose encoding panics
	if realRot {                                             // real one-second rotations with the shortest retention, in a zone far west of UTC
		time.Local = time.FixedZone("WEST", -11*3600)
	}
	tag := log.RegisterTag("crash_tag")
	cfg := sys.Cfg{}
	switch kind {
	case "file":
		cfg["appender.out.type"] = "File"
		cfg["appender.out.fileDir"] = dir
		cfg["appender.out.fileName"] = "c.log"
	case "rolling":
		cfg["appender.out.type"] = "RollingFile"
		cfg["appender.out.fileDir"] = dir
		cfg["appender.out.fileName"] = "c.log"
		cfg["appender.out.rotation"] = "h"
		cfg["appender.out.maxAge"] = "100"
		if realRot {
			cfg["appender.out.rotation"] = "sec"
			cfg["appender.out.maxAge"] = "1"
			if f.Str("hugeage", "") != "" {
				cfg["appender.out.maxAge"] = "876000" // "keep a hundred years"
			}
		}
	case "rollinglogger":
		cfg.AddRec("unused")
	default:
		cfg["appender.out.type"] = "Console"
	}
	twin := f.Str("twin", "") != "" && kind != "console" && kind != "rollinglogger"
	if twin { // a second appender of the same kind on the same file: two descriptors, one target
		for k, v := range cfg {
			if strings.HasPrefix(k, "appender.out.") {
				cfg["appender.out2."+strings.TrimPrefix(k, "appender.out.")] = v
			}
		}
	}
	ex := map[string]string{}
	if f.Str("layoutat", "appender") == "logger" {
		ex["layout.type"] = layout // the logger formats and hands bytes to the appender's Write
	} else {
		cfg["appender.out.layout.type"] = layout
	}
	refs := []sys.Ref{{Ref: "out"}}
	levelled := twin && f.Str("levelled", "") != "" // the two appenders select by level: everything / WARN and above
	if levelled {
		refs[0].Level = "TRACE~FATAL"
	}
	if twin {
		if f.Str("layoutat", "appender") != "logger" {
			cfg["appender.out2.layout.type"] = layout
		}
		refs = append(refs, sys.Ref{Ref: "out2"})
		if levelled {
			refs[1].Level = "WARN"
		}
	}
	if rollingLogger {
		rl := map[string]string{"fileDir": dir, "fileName": "c.log", "rotation": "h", "layout.type": layout}
		if realRot {
			rl["rotation"] = "sec" // retention left at the logger's default
		}
		if separate {
			rl["separate"] = "true"
		}
		cfg.AddLogger("lg", "RollingFile", "", "crash_tag", nil, false, rl)
	} else {
		cfg.AddLogger("lg", "Logger", "", "crash_tag", refs, twin, ex)
	}
	handle := log.GetLogger("lg")
	if v := f.Str("bufcap", ""); v != "" {
		cfg["bufferCap"] = v // the buffer-reuse cap; with padfixed the lines' buffers have exactly this capacity
	}
	padFixed := f.Int("padfixed", 0)
	padSweep := f.Int("padsweep", 0) // > 0: call i pads with padsweep+i bytes, so line lengths sweep a contiguous range
	if kind == "rolling" && f.Str("churn", "") != "" {
		// every clock reading is one interval later than the previous one: every call rotates, and the
		// rotating goroutine dawdles between closing the older file and publishing the new one
		var tick int64
		base := time.Now().Truncate(time.Hour)
		log.VerifNow = func(time.Time) time.Time { return base.Add(time.Duration(atomic.AddInt64(&tick, 1)) * time.Hour) }
		log.VerifRoll = func(_ *log.RollingFileAppender, p int) {
			if p == 3 || p == 4 {
				time.Sleep(200 * time.Microsecond)
			}
		}
	}
	var acks int64
	var mu sync.Mutex
	ctx := context.Background()
	// earlier configuration generations of the same process: Refresh, one acknowledged call, Destroy
	for gen := 1; gen < f.Int("gens", 1); gen++ {
		if err := log.Refresh(cfg.Map(nil)); err != nil {
			fmt.Fprintln(os.Stderr, "child refresh:", err)
			os.Exit(7)
		}
		id := int64(9000 + gen)
		log.Info(ctx, tag, log.Int("id", id), log.String("pad", crashPad(id)), log.Int("end", id))
		fmt.Fprintf(ack, "ack %d\n", id)
		log.Destroy()
	}
	builtin := f.Str("builtin", "") != "" // after the earlier generations no configuration is live: the built-in console logger serves
	if !builtin {
		if err := log.Refresh(cfg.Map(nil)); err != nil {
			fmt.Fprintln(os.Stderr, "child refresh:", err)
			os.Exit(7)
		}
	}
	rawEvery := f.Int("rawevery", 0)
	if kind == "console" && f.Str("failfirst", "") != "" {
		// the console stream fails once (a full disk, a signal) before the calls that count: that one line may be lost,
		// nothing after it
		log.Stdout = &failOnce{w: os.Stdout}
		log.Info(ctx, tag, log.Int("id", 9999), log.String("pad", "lost to the failing write"), log.Int("end", 9999))
	}
	var wg sync.WaitGroup
	for g := 1; g <= goroutines; g++ {
		wg.Add(1)
		go func(g int) {
			defer wg.Done()
			for i := 1; i <= calls; i++ {
				id := int64(g*1000 + i)
				if rawEvery > 0 && i%rawEvery == 0 {
					// a raw write through the named handle is a log call too; give it the shape of a text line
					_, _ = handle.Write([]byte(fmt.Sprintf("[RAW] id=%d||pad=%s||end=%d\n", id, crashPad(id), id)))
				} else {
					pad := crashPad(id)
					if padSweep > 0 {
						pad = strings.Repeat("s", padSweep+i)
					}
					if padFixed > 0 {
						pad = strings.Repeat("s", padFixed)
					}
					fields := []log.Field{log.Int("id", id), log.String("pad", pad), log.Int("end", id)}
					returned := true
					if poison > 0 && i%poison == 0 {
						// this call cannot be encoded; if it nevertheless returns like any other it is acknowledged like any other
						fields = []log.Field{log.Int("id", id), log.String("pad", pad), log.Reflect("bad", crashPoison{}), log.Int("end", id)}
						returned = false
					}
					func() {
						defer func() {
							if recover() != nil {
								returned = false
							}
						}()
						if (separate || levelled) && i%2 == 0 {
							log.Warn(ctx, tag, fields...)
						} else {
							log.Info(ctx, tag, fields...)
						}
						returned = true
					}()
					if !returned {
						continue // the call panicked: nothing was acknowledged to the caller
					}
				}
				// the call has returned: acknowledge it
				mu.Lock()
				fmt.Fprintf(ack, "ack %d\n", id)
				n := atomic.AddInt64(&acks, 1)
				if exitAfter >= 0 && n >= int64(exitAfter) {
					os.Exit(0) // immediately, no Destroy, no deferred flush
				}
				mu.Unlock()
				if realRot && i <= 2 {
					// cross a second boundary after the first call (the second one rotates), then leave the
					// retention scan launched by that rotation time to run
					time.Sleep(map[int]time.Duration{1: 1100 * time.Millisecond, 2: 60 * time.Millisecond}[i])
				}
			}
		}(g)
	}
	wg.Wait()
	if f.Str("linger", "") != "" {
		time.Sleep(30 * time.Second) // wait to be killed
	}
	os.Exit(0)
}

// failOnce is a stream whose first write fails.
type failOnce struct {
	w    *os.File
	done int32
}

func (f *failOnce) Write(b []byte) (int, error) {
	if atomic.CompareAndSwapInt32(&f.done, 0, 1) {
		return 0, syscall.ENOSPC
	}
	return f.w.Write(b)
}

// crashPoison cannot be encoded: its MarshalJSON panics.
type crashPoison struct{}

func (crashPoison) MarshalJSON() ([]byte, error) {
	panic("crash harness: value that cannot be encoded")
}

type crashCase struct {
	Goroutines int    `json:"goroutines"`
	Calls      int    `json:"calls"`
	K          int    `json:"k"`
	How        string `json:"how"`
	Twin       bool   `json:"twin"`   // two appenders (descriptors) on the one target file
	Poison     int    `json:"poison"` // every poison-th call of a goroutine cannot be encoded (0: none)
}

func cmdCrash(f hx.Flags, r *hx.Result) {
	tmp, err := os.MkdirTemp(os.Getenv("VERIF_SCRATCH"), "cr-")
	if err != nil {
		r.SetInfra("mkdtemp: %v", err)
		return
	}
	defer os.RemoveAll(tmp)
	self, _ := os.Executable()
	kinds := []string{"file", "rolling", "console", "rollinglogger"}
	layouts := []string{"TextLayout", "JSONLayout"}
	n := 0
	rollVar, rlVar, rlRot := 0, 0, 0
	sigs := map[string]bool{}
	forceRL := false // fixed placements of the RollingFile logger across a real rotation, whatever the enumeration order
	oneCase := func(raw json.RawMessage) error {
		var c crashCase
		if err := json.Unmarshal(raw, &c); err != nil {
			return err
		}
		variants := f.Int("variants", 2)
		if forceRL {
			variants = 2
		}
		for rep := 0; rep < variants; rep++ {
			n++
			kind := kinds[n%3]
			if n%7 == 5 || forceRL {
				kind = "rollinglogger"
			}
			layout := layouts[(n/3)%2]
			dir := filepath.Join(tmp, fmt.Sprintf("c%d", n))
			_ = os.MkdirAll(dir, 0o755)
			args := []string{"crashchild", "--kind", kind, "--layout", layout, "--dir", dir,
				"--goroutines", strconv.Itoa(c.Goroutines), "--calls", strconv.Itoa(c.Calls)}
			if n%2 == 0 {
				args = append(args, "--layoutat", "logger")
			}
			rawEvery := n%3 == 0 && layout == "TextLayout" && !forceRL
			if rawEvery {
				args = append(args, "--rawevery", "3")
			}
			if c.Poison > 0 {
				args = append(args, "--poison", strconv.Itoa(c.Poison))
			} else if n%5 == 1 {
				args = append(args, "--poison", "4")
			}
			if kind == "rollinglogger" && !rawEvery {
				// the RollingFile logger with its sibling <name>.wf; placements with several acknowledged calls additionally
				// cross a real one-second rotation (and the retention scan it launches) before the crash
				rlVar++
				args = append(args, "--separate", "1")
				if c.Calls >= 3 && c.K >= 3 && (rlVar%2 == 1 || forceRL) {
					args = append(args, "--realrot", "1")
					rlRot++
				}
			}
			if kind == "rolling" {
				// variants of the rolling appender, chosen so that placements with several acknowledged calls meet each:
				// rotation at every call (virtual clock); real one-second rotations in a far-west zone with the shortest
				// retention; the same with a retention of a hundred years
				rollVar++
				switch {
				case c.Calls >= 3 && c.K >= 3 && rollVar%3 == 1:
					args = append(args, "--realrot", "1")
				case c.Calls >= 3 && c.K >= 3 && rollVar%3 == 2:
					args = append(args, "--realrot", "1", "--hugeage", "1")
				case rollVar%2 == 0:
					args = append(args, "--churn", "1")
				}
			}
			builtin := kind == "console" && n%4 == 3 // together with --gens: Refresh / Destroy cycles, then no live configuration
			if builtin {
				args = append(args, "--builtin", "1")
			}
			if kind != "console" && n%2 == 1 {
				args = append(args, "--rel", "1")
			}
			if n%4 == 3 {
				args = append(args, "--gens", "3")
			}
			twin := kind != "console" && kind != "rollinglogger" && c.Twin
			levelled := twin && n%2 == 0 // with the logger-level layout: the logger formats once and serves level-selecting appenders
			if twin {
				args = append(args, "--twin", "1")
			}
			if levelled {
				args = append(args, "--levelled", "1")
			}
			if kind == "console" && n%4 == 1 {
				args = append(args, "--failfirst", "1")
			}
			if c.How == "exit" {
				args = append(args, "--exitafter", strconv.Itoa(c.K))
			} else {
				args = append(args, "--linger", "1")
			}
			cmd := exec.Command(self, args...)
			pr, pw, _ := os.Pipe()
			cmd.ExtraFiles = []*os.File{pw}
			stdoutPath := filepath.Join(dir, "stdout.txt")
			so, _ := os.Create(stdoutPath)
			cmd.Stdout = so
			cmd.Stderr = os.Stderr
			if err := cmd.Start(); err != nil {
				r.SetInfra("start child: %v", err)
				return nil
			}
			pw.Close()
			var acked []int64
			sc := bufio.NewScanner(pr)
			killed := false
			if c.How == "kill" && c.K == 0 {
				_ = cmd.Process.Kill()
				killed = true
			}
			for sc.Scan() {
				var id int64
				if _, err := fmt.Sscanf(sc.Text(), "ack %d", &id); err == nil {
					acked = append(acked, id)
				}
				if c.How == "kill" && !killed && len(acked) >= c.K {
					_ = cmd.Process.Kill() // SIGKILL right after the k-th acknowledgement
					killed = true
				}
			}
			if c.How == "kill" && !killed {
				_ = cmd.Process.Kill()
			}
			_ = cmd.Wait()
			pr.Close()
			so.Close()
			// read the target
			var content []byte
			if kind == "console" {
				content, _ = os.ReadFile(stdoutPath)
			} else {
				ents, _ := os.ReadDir(dir)
				for _, e := range ents {
					if strings.HasPrefix(e.Name(), "c.log") {
						b, _ := os.ReadFile(filepath.Join(dir, e.Name()))
						content = append(content, b...)
					}
				}
			}
			complete := map[int64]int{}
			text := string(content)
			if i := strings.LastIndexByte(text, '\n'); i >= 0 {
				for _, line := range strings.Split(text[:i], "\n") {
					id, _ := sys.ParseLine([]byte(line))
					okEnd := strings.HasSuffix(line, fmt.Sprintf("end=%d", id)) || strings.HasSuffix(line, fmt.Sprintf(`"end":%d}`, id))
					if id > 0 && okEnd && (strings.Contains(line, crashPad(id)) || strings.Contains(line, "pad=sss") || strings.Contains(line, `"pad":"sss`)) {
						complete[id]++
					}
				}
			}
			desc := map[string]any{"crash": c, "kind": kind, "layout": layout, "acked": len(acked)}
			wantCount := 1
			if twin {
				wantCount = 2 // both appenders append their own copy; none may overwrite the other's
			}
			desc["twin_appenders"] = twin
			desc["level_selecting_appenders"] = levelled
			for _, id := range acked {
				wantCount := wantCount
				if levelled && id < 9000 && !(rawEvery && id%1000%3 == 0) && id%1000%2 == 1 {
					wantCount = 1 // an INFO event: only the appender that takes everything
				}
				if levelled && id >= 9000 {
					wantCount = 1
				}
				if complete[id] != wantCount {
					r.Violate("acked-line-missing:"+kind, desc, "call %d was acknowledged before the %s but its complete line occurs %d times in the target", id, c.How, complete[id])
					break
				}
			}
			r.Eval(1)
			sigs[fmt.Sprintf("%v|%s|%s", c, kind, layout)] = true
			os.RemoveAll(dir)
			if n == 3 {
				r.Sample(desc)
			}
		}
		return nil
	}
	err = hx.ReadCases(f.Str("cases", ""), oneCase)
	if err != nil {
		r.SetInfra("read cases: %v", err)
	}
	if sh := os.Getenv("VERIF_SHARD"); (sh == "" || sh == "0") && !hx.Stopped() {
		forceRL = true
		for _, c := range []crashCase{{Goroutines: 1, Calls: 6, K: 4, How: "kill"}, {Goroutines: 2, Calls: 4, K: 7, How: "exit"}} {
			raw, _ := json.Marshal(c)
			_ = oneCase(raw)
		}
	}
	r.NonTrivial(int64(len(sigs)))
	_ = rlRot
}
