package main

// C14 - replays the directory populations enumerated by TLC from spec/Retention.tla: every entry is
// materialised (regular file or directory, modification time on the required side of the cut-off),
// the appender's retention scan is run synchronously (verif hook) and the survivors are compared.

import (
	"bytes"
	"encoding/binary"
	"encoding/json"
	"fmt"
	"os"
	"path/filepath"
	"sort"
	"strings"
	"time"

	"github.com/go-spring/log"

	"verifharness/hx"
)

func init() { commands["retention"] = cmdRetention }

type rtEntry struct {
	Name string `json:"name"`
	Kind string `json:"kind"`
	Age  string `json:"age"`
}

type rtCase struct {
	Pop       []rtEntry `json:"pop"`
	Survivors []rtEntry `json:"survivors"`
	TwoScans  bool      `json:"twoscans"`
}

func rtName(fileName, class string) string {
	const ts = "20250102030405"
	switch class {
	case "own":
		return fileName + "." + ts
	case "own2":
		return fileName + ".20240101000000"
	case "wf":
		return fileName + ".wf." + ts
	case "audit":
		return fileName + ".audit." + ts
	case "bak":
		return fileName + ".bak"
	case "gz":
		return fileName + ".1.gz"
	case "d13":
		return fileName + "." + ts[:13]
	case "d15":
		return fileName + "." + ts + "0"
	case "prefixx":
		return fileName + "x." + ts
	case "alnum":
		return fileName + "." + ts[:13] + "a"
	case "emptysuffix":
		return fileName + "."
	case "dotted":
		return fileName + "." + ts + ".gz"
	case "dashdate":
		return fileName + "-20240101"
	case "commav":
		return fileName + ",v"
	case "bare":
		return fileName
	case "dotsub": // the name of a sibling whose file name differs only where this one has a dot
		if strings.Contains(fileName, ".") {
			return strings.ReplaceAll(fileName, ".", "_") + "." + ts
		}
		return "other-" + fileName + "." + ts
	case "fracdot":
		return fileName + "." + ts + ".123"
	case "fraccomma":
		return fileName + "." + ts + ",5"
	case "insub": // looks like an own file, but lives in a sub-directory of the log directory
		return filepath.Join("archive", fileName+"."+ts)
	}
	return "other.txt"
}

// rtMargin: how young a "rewritten" file is at the first scan
const rtMargin = 1500 * time.Millisecond

// rtDSTZone builds a time zone whose clocks went forward by one hour at the given instant (TZif version 1 data: one
// transition, two local time types), so that "n calendar days ago" and "n x 24 hours ago" differ around it.
func rtDSTZone(at time.Time) (*time.Location, error) {
	var b bytes.Buffer
	b.WriteString("TZif")
	b.WriteByte(0)
	b.Write(make([]byte, 15))
	for _, c := range []uint32{0, 0, 0, 1, 2, 8} { // isutcnt, isstdcnt, leapcnt, timecnt, typecnt, charcnt
		_ = binary.Write(&b, binary.BigEndian, c)
	}
	_ = binary.Write(&b, binary.BigEndian, int32(at.Unix()))
	b.WriteByte(1)
	_ = binary.Write(&b, binary.BigEndian, int32(-5*3600))
	b.Write([]byte{0, 0})
	_ = binary.Write(&b, binary.BigEndian, int32(-4*3600))
	b.Write([]byte{1, 4})
	b.WriteString("HST\x00HDT\x00")
	return time.LoadLocationFromTZData("Harness/Forward", b.Bytes())
}

// rtExtras: (a) a file name with a directory part ("svc/app.log") - the appender's files live below the log
// directory, and nothing directly in the log directory is its own, in particular not another appender's "app.log.<ts>";
// (b) a scan that cannot list the directory (it was moved aside) changes nothing for the scans after it.
func rtExtras(r *hx.Result, tmp string) {
	old := time.Now().Add(-100 * time.Hour)
	lay := func() log.Layout { return &log.TextLayout{BaseLayout: log.BaseLayout{FileLineLength: 48}} }
	// (a)
	dir := filepath.Join(tmp, "extras-a")
	_ = os.MkdirAll(filepath.Join(dir, "svc"), 0o755)
	foreign := []string{"app.log.20240101000000", "app.log.20240202000000", "log.20240101000000"}
	for _, n := range foreign {
		p := filepath.Join(dir, n)
		_ = os.WriteFile(p, []byte("x\n"), 0o644)
		_ = os.Chtimes(p, old, old)
	}
	app := &log.RollingFileAppender{Layout: lay(), FileDir: dir, FileName: "svc/app.log", Rotation: log.TimeRotation{Interval: time.Hour}, MaxAge: 2}
	if err := app.Start(); err == nil {
		app.Write([]byte("current\n"))
		p := hx.Catch(func() { log.VerifClearExpired(app) })
		app.Stop()
		r.Eval(1)
		desc := map[string]any{"fileName": "svc/app.log", "log_directory_holds": foreign, "maxAge": 2}
		if p != nil {
			r.Violate("cleanup-panic", desc, "retention scan panicked: %v", p)
		}
		for _, n := range foreign {
			if _, err := os.Stat(filepath.Join(dir, n)); err != nil {
				r.Violate("deleted-foreign-or-young:name-with-directory", desc, "the scan of the appender named svc/app.log deleted %s, a file of another appender directly in the log directory", n)
				break
			}
		}
	}
	// (b)
	dir = filepath.Join(tmp, "extras-b")
	_ = os.MkdirAll(dir, 0o755)
	app = &log.RollingFileAppender{Layout: lay(), FileDir: dir, FileName: "b.log", Rotation: log.TimeRotation{Interval: time.Hour}, MaxAge: 2}
	if err := app.Start(); err != nil {
		r.SetInfra("rtExtras start: %v", err)
		return
	}
	app.Write([]byte("current\n"))
	expired := filepath.Join(dir, "b.log.20240101000000")
	_ = os.WriteFile(expired, []byte("x\n"), 0o644)
	_ = os.Chtimes(expired, old, old)
	desc := map[string]any{"history": "directory moved aside, scan, directory moved back, scan", "maxAge": 2}
	p := hx.Catch(func() {
		_ = os.Rename(dir, dir+".aside")
		log.VerifClearExpired(app)
		_ = os.Rename(dir+".aside", dir)
		log.VerifClearExpired(app)
	})
	app.Stop()
	r.Eval(2)
	if p != nil {
		r.Violate("cleanup-panic", desc, "retention scan panicked: %v", p)
	} else if _, err := os.Stat(expired); err == nil {
		r.Violate("expired-own-kept:after-failed-scan", desc, "an expired own file survived the scan that followed a scan which could not list the directory")
	}
}

func cmdRetention(f hx.Flags, r *hx.Result) {
	rng := hx.Rand(14)
	if f.Str("zone", "") == "dst" {
		// the process lives in a zone whose clocks went forward half a day ago: days and 24-hour spans differ inside every retention window
		if z, err := rtDSTZone(time.Now().Add(-12 * time.Hour)); err == nil {
			time.Local = z
		} else {
			r.SetInfra("zone: %v", err)
			return
		}
	}
	tmp, err := os.MkdirTemp(os.Getenv("VERIF_SCRATCH"), "rt-")
	if err != nil {
		r.SetInfra("mkdtemp: %v", err)
		return
	}
	defer os.RemoveAll(tmp)
	if sh := os.Getenv("VERIF_SHARD"); sh == "" || sh == "0" {
		rtExtras(r, tmp)
	}
	ages := []int32{1, 2, 24, 168, 720}
	if f.Str("zone", "") == "dst" {
		ages = []int32{24, 25, 47, 48, 168, 720}
	}
	// file names: with dots, a name that is the prefix of its sibling's, without dots, with characters that mean
	// something to glob / regexp / character-set functions, with digits
	fileNames := []string{"app.log", "app.log.wf", "svc", "svc[1].log", "a*b?.log", "http2.log", "node02.x", `back\slash.log`, "sp ace(1)+.log"}
	dirNames := []string{"p", "d[a]", "d*", "d?x", "plus+(1)"}
	n := 0
	sigs := map[string]bool{}
	// populations with a second scan: first scans now, then one common pause in which the "rewritten" files'
	// first modification times fall behind the cut-off, the files are written again, and the same appenders scan again
	var second []func()
	var touch []string
	err = hx.ReadCases(f.Str("cases", ""), func(raw json.RawMessage) error {
		var c rtCase
		if err := json.Unmarshal(raw, &c); err != nil {
			return err
		}
		n++
		dir := filepath.Join(tmp, fmt.Sprintf("%s%d", dirNames[n%len(dirNames)], n))
		_ = os.MkdirAll(dir, 0o755)
		keepDir := false
		defer func() {
			if !keepDir {
				os.RemoveAll(dir)
			}
		}()
		maxAge := ages[rng.Intn(len(ages))]
		fileName := fileNames[n%len(fileNames)]
		// every fifth population is reached through a symbolic link: the configured log directory is a link to the real one
		appDir := dir
		if n%5 == 3 {
			link := filepath.Join(tmp, fmt.Sprintf("via-link-%d", n))
			if os.Symlink(dir, link) == nil {
				appDir = link // removed with the scratch directory
			}
		}
		app := &log.RollingFileAppender{Layout: &log.TextLayout{BaseLayout: log.BaseLayout{FileLineLength: 48}},
			FileDir: appDir, FileName: fileName, Rotation: log.TimeRotation{Interval: time.Hour}, MaxAge: maxAge}
		if err := app.Start(); err != nil {
			r.SetInfra("start: %v", err)
			return nil
		}
		app.Write([]byte("current\n"))
		cur, _, _ := log.VerifRollingState(app)
		want := map[string]bool{filepath.Base(cur): true}
		desc := map[string]any{"population": c.Pop, "maxAge": maxAge, "fileName": fileName, "two_scans": c.TwoScans, "dir_is_link": appDir != dir}
		if n%4 == 2 { // the file being written carries a modification time ahead of this machine's clock
			ahead := time.Now().Add([]time.Duration{30 * time.Second, 3 * time.Hour}[n/4%2])
			_ = os.Chtimes(cur, ahead, ahead)
			desc["current_file_mtime"] = "ahead of the clock"
		}
		sig := ""
		var rewritten []string
		t0 := time.Now()
		cut := t0.Add(-time.Duration(maxAge) * time.Hour)
		for _, e := range c.Pop {
			name := rtName(fileName, e.Name)
			p := filepath.Join(dir, name)
			_ = os.MkdirAll(filepath.Dir(p), 0o755)
			if e.Kind == "dir" {
				// an empty directory: removable by a plain os.Remove, so only the scan's own check protects it
				_ = os.Mkdir(p, 0o755)
			} else {
				_ = os.WriteFile(p, []byte("x\n"), 0o644)
			}
			delta := time.Duration(2+rng.Intn(3600)) * time.Second
			if c.TwoScans && e.Age == "younger" {
				delta += 20 * time.Minute // still young when the second scan runs, whenever that is
			}
			mt := cut.Add(delta)
			switch e.Age {
			case "older":
				mt = cut.Add(-delta)
			case "future": // ahead of this machine's clock by half a minute or by hours
				mt = t0.Add([]time.Duration{30 * time.Second, 2 * time.Hour, 1 * time.Second}[rng.Intn(3)])
			case "rewritten":
				mt = cut.Add(rtMargin) // young by a small margin now, behind the cut-off at the second scan
				rewritten = append(rewritten, p)
			}
			if err := os.Chtimes(p, mt, mt); err != nil {
				r.SetInfra("chtimes: %v", err)
				return nil
			}
			if e.Name == "insub" {
				want["archive"] = true
			}
			sig += e.Name + e.Kind + e.Age + ";"
		}
		for _, e := range c.Survivors {
			want[rtName(fileName, e.Name)] = true
		}
		// every third population additionally holds a link (made just now) that is named like an own file and points
		// to an old file outside the directory: the link is young and not a regular file - it stays, and so does its target
		if n%3 == 1 {
			target := filepath.Join(tmp, fmt.Sprintf("old-target-%d", n))
			_ = os.WriteFile(target, []byte("t\n"), 0o644)
			oldT := cut.Add(-48 * time.Hour)
			_ = os.Chtimes(target, oldT, oldT)
			link := fileName + ".20230303030303"
			if os.Symlink(target, filepath.Join(dir, link)) == nil {
				want[link] = true
			}
		}
		scan := func(which string) bool {
			if p := hx.Catch(func() { log.VerifClearExpired(app) }); p != nil {
				r.Violate("cleanup-panic", desc, "retention scan panicked: %v", p)
				return false
			}
			r.Eval(1)
			got := map[string]bool{}
			_ = filepath.WalkDir(dir, func(p string, d os.DirEntry, err error) error {
				if rel, _ := filepath.Rel(dir, p); err == nil && rel != "." {
					got[rel] = true
				}
				return nil
			})
			var lostNames, keptNames []string
			for k := range want {
				if !got[k] {
					lostNames = append(lostNames, k)
				}
			}
			for k := range got {
				if !want[k] {
					keptNames = append(keptNames, k)
				}
			}
			sort.Strings(lostNames)
			sort.Strings(keptNames)
			if len(lostNames) > 0 {
				r.Violate("deleted-foreign-or-young"+which, desc, "retention (maxAge %dh) deleted %v, which the specification keeps", maxAge, lostNames)
			}
			if len(keptNames) > 0 {
				r.Violate("expired-own-kept"+which, desc, "retention (maxAge %dh) kept %v, which the specification deletes", maxAge, keptNames)
			}
			return len(lostNames)+len(keptNames) == 0
		}
		if c.TwoScans && time.Since(t0) > rtMargin*2/3 {
			app.Stop() // the machine stalled: the "rewritten" files may already be behind the cut-off; not conclusive
			return nil
		}
		ok := scan("")
		if c.TwoScans && ok {
			second = append(second, func() {
				scan(":second-scan")
				app.Stop()
				os.RemoveAll(dir)
			})
			touch = append(touch, rewritten...)
			keepDir = true
		} else {
			app.Stop()
		}
		sigs[sig] = true
		if n == 11 {
			r.Sample(map[string]any{"case": c, "maxAge": maxAge, "fileName": fileName})
		}
		return nil
	})
	if err != nil {
		r.SetInfra("read cases: %v", err)
	}
	if len(second) > 0 {
		time.Sleep(rtMargin + 300*time.Millisecond)
		now := time.Now()
		for _, p := range touch {
			_ = os.Chtimes(p, now, now)
		}
		for _, f := range second {
			f()
		}
	}
	r.NonTrivial(int64(len(sigs)))
}
