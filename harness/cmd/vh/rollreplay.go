package main

// C13 / C19 / C05(descriptors) - replays behaviours of spec/RollingGen.tla on a real
// RollingFileAppender.  The appender reads a virtual clock (verif hook), every writer goroutine is
// parked at the instrumentation points of Write/rotate and released one specification step at a
// time, directory outages are real renames, and after every step the directory listing, the content
// of every file, the descriptors of this process, the published handles and the interval marker are
// compared with the specification's state.

import (
	"bytes"
	"encoding/json"
	"fmt"
	"os"
	"path/filepath"
	"runtime"
	"sort"
	"strconv"
	"strings"
	"sync"
	"time"

	"github.com/go-spring/log"

	"verifharness/hx"
	"verifharness/sys"
)

func init() { commands["rollreplay"] = cmdRollReplay }

type rrObs struct {
	Dir     map[string][]int64 `json:"dir"`
	Names   []int              `json:"names"`
	Open    []int              `json:"open"`
	Cur     int                `json:"cur"`
	Old     int                `json:"old"`
	Marker  int64              `json:"marker"`
	Now     int                `json:"now"`
	Up      bool               `json:"up"`
	Running bool               `json:"running"`
	PC      []string           `json:"pc"`
	Acked   []int64            `json:"acked"`
	Lost    []int64            `json:"lost"`
}

type rrStep struct {
	A   string `json:"a"`
	W   int    `json:"w"`
	Obs rrObs  `json:"obs"`
}

type rrCase struct {
	TPI  int      `json:"tpi"`
	Goal string   `json:"goal"`
	Hist []rrStep `json:"hist"`
}

func goid() int64 {
	var buf [64]byte
	n := runtime.Stack(buf[:], false)
	f := bytes.Fields(buf[:n])
	id, _ := strconv.ParseInt(string(f[1]), 10, 64)
	return id
}

type rrEvent struct {
	w     int
	label string // "clock", "p1".."p22", "returned", "panic:<v>"
}

type rrSched struct {
	mu      sync.Mutex
	writers map[int64]int // goroutine id -> writer
	events  chan rrEvent
	release map[int]chan struct{}
	freeRun bool
	now     time.Time
}

func (s *rrSched) writerOf() (int, bool) {
	s.mu.Lock()
	defer s.mu.Unlock()
	w, ok := s.writers[goid()]
	return w, ok
}

func (s *rrSched) park(label string) {
	w, ok := s.writerOf()
	if !ok {
		return
	}
	s.mu.Lock()
	free := s.freeRun
	ch := s.release[w]
	s.mu.Unlock()
	if free {
		return
	}
	s.events <- rrEvent{w, label}
	<-ch
}

var rrBaseSec = time.Date(2031, 12, 31, 23, 59, 52, 0, time.UTC) // even second (aligned with every interval used), afternoon hour, and the ticks cross midnight, month and year
var rrBaseHour = time.Date(2031, 12, 31, 20, 0, 0, 0, time.UTC)  // the same with one tick = one hour

// Every second case runs with hour ticks and maxAge = 1 h: the virtual intervals are then far older than
// the maximum age while every file's modification time is fresh, so the retention scans that the
// rotations launch must delete nothing (C14: age is modification time, never the file being written).
var rrBase, rrUnit = rrBaseSec, time.Second

func rrName(tick int) string {
	return "r.log." + rrBase.Add(time.Duration(tick)*rrUnit).Format("20060102150405")
}

func cmdRollReplay(f hx.Flags, r *hx.Result) {
	sys.InstallConsole()
	tmp, err := os.MkdirTemp(os.Getenv("VERIF_SCRATCH"), "rr-")
	if err != nil {
		r.SetInfra("mkdtemp: %v", err)
		return
	}
	defer os.RemoveAll(tmp)
	n := 0
	sigs := map[string]bool{}
	err = hx.ReadCases(f.Str("cases", ""), func(raw json.RawMessage) error {
		var c rrCase
		if err := json.Unmarshal(raw, &c); err != nil {
			return err
		}
		n++
		rrBase, rrUnit = rrBaseSec, time.Second
		if n%2 == 0 {
			rrBase, rrUnit = rrBaseHour, time.Hour
		}
		rollReplayOne(r, &c, filepath.Join(tmp, fmt.Sprintf("t%d", n)))
		sig := ""
		for _, s := range c.Hist {
			sig += s.A + strconv.Itoa(s.W)
		}
		sigs[sig] = true
		if n <= 1 {
			short := c
			if len(short.Hist) > 12 {
				short.Hist = short.Hist[:12]
			}
			r.Sample(short)
		}
		return nil
	})
	if err != nil {
		r.SetInfra("read cases: %v", err)
	}
	r.NonTrivial(int64(len(sigs)))
	log.VerifNow, log.VerifRoll = nil, nil
	if !hx.Stopped() {
		rollTwin(r, tmp)
	}
	log.VerifNow, log.VerifRoll = nil, nil
}

// rollTwin: two rolling appenders on one directory and file name (two loggers sharing a file, or the old and the new
// configuration generation alive across a boundary).  Each write lands exactly once whichever of the two creates the
// file of a new interval first: a rotation, like a start, appends to a file that is already there.
func rollTwin(r *hx.Result, tmp string) {
	dir := filepath.Join(tmp, "twin")
	_ = os.MkdirAll(dir, 0o755)
	defer os.RemoveAll(dir)
	var mu sync.Mutex
	now := time.Date(2033, 3, 3, 3, 3, 0, 0, time.UTC)
	log.VerifNow = func(time.Time) time.Time { mu.Lock(); defer mu.Unlock(); return now }
	log.VerifRoll = nil
	mk := func() *log.RollingFileAppender {
		return &log.RollingFileAppender{Layout: &log.TextLayout{}, FileDir: dir, FileName: "t.log",
			Rotation: log.TimeRotation{Interval: 2 * time.Second}, MaxAge: 100000}
	}
	a, b := mk(), mk()
	desc := map[string]any{"scenario": "two rolling appenders on one file name; writes 1,2 | boundary | 3 (A rotates) 4 (B rotates) | boundary | 5 (B rotates) 6 (A rotates)"}
	ret, p := hx.Within(10*time.Second, func() {
		if err := a.Start(); err != nil {
			panic(err)
		}
		if err := b.Start(); err != nil {
			panic(err)
		}
		w := func(app *log.RollingFileAppender, id int) { app.Write([]byte(fmt.Sprintf("W id=%d\n", id))) }
		w(a, 1)
		w(b, 2)
		mu.Lock()
		now = now.Add(2 * time.Second)
		mu.Unlock()
		w(a, 3)
		w(b, 4)
		mu.Lock()
		now = now.Add(2 * time.Second)
		mu.Unlock()
		w(b, 5)
		w(a, 6)
		a.Stop()
		b.Stop()
	})
	r.Eval(6)
	if !ret || p != nil {
		r.Violate("write-panic:rolling", desc, "twin scenario returned=%v panic=%v", ret, p)
		return
	}
	seen := map[int64]int{}
	ents, _ := os.ReadDir(dir)
	for _, e := range ents {
		bs, _ := os.ReadFile(filepath.Join(dir, e.Name()))
		for _, line := range strings.Split(string(bs), "\n") {
			if line != "" {
				id, _ := sys.ParseLine([]byte(line))
				seen[id]++
			}
		}
	}
	for id := int64(1); id <= 6; id++ {
		if seen[id] != 1 {
			r.Violate("write-lost", desc, "write %d occurs %d times in the directory (files: %d); every write lands exactly once", id, seen[id], len(ents))
			return
		}
	}
}

func rollReplayOne(r *hx.Result, c *rrCase, dir string) {
	_ = os.MkdirAll(dir, 0o755)
	away := dir + ".away"
	defer os.RemoveAll(dir)
	defer os.RemoveAll(away)
	nw := 0
	if len(c.Hist) > 0 {
		nw = len(c.Hist[0].Obs.PC)
	}
	s := &rrSched{writers: map[int64]int{}, events: make(chan rrEvent, 64), release: map[int]chan struct{}{}, now: rrBase}
	log.VerifNow = func(t time.Time) time.Time {
		s.park("clock")
		s.mu.Lock()
		defer s.mu.Unlock()
		return s.now
	}
	pointLabel := func(p int) string { return "p" + strconv.Itoa(p) }
	log.VerifRoll = func(_ *log.RollingFileAppender, p int) { s.park(pointLabel(p)) }

	app := &log.RollingFileAppender{Layout: &log.TextLayout{}, FileDir: dir, FileName: "r.log",
		Rotation: log.TimeRotation{Interval: time.Duration(c.TPI) * rrUnit}, MaxAge: 100000}
	if rrUnit == time.Hour {
		app.MaxAge = 1
	}
	if err := app.Start(); err != nil {
		r.SetInfra("rolling start: %v", err)
		return
	}
	// writer goroutines
	cmds := make([]chan int64, nw+1)
	var wg sync.WaitGroup
	for w := 1; w <= nw; w++ {
		cmds[w] = make(chan int64)
		s.release[w] = make(chan struct{})
		wg.Add(1)
		ready := make(chan struct{})
		go func(w int) {
			defer wg.Done()
			s.mu.Lock()
			s.writers[goid()] = w
			s.mu.Unlock()
			close(ready)
			for id := range cmds[w] {
				p := hx.Catch(func() { app.Write([]byte(fmt.Sprintf("W id=%d\n", id))) })
				if p != nil {
					s.events <- rrEvent{w, fmt.Sprintf("panic:%v", p)}
				} else {
					s.events <- rrEvent{w, "returned"}
				}
			}
		}(w)
		<-ready
	}
	pcs := make([]string, nw+1)
	for w := range pcs {
		pcs[w] = "idle"
	}
	nextID := int64(0)
	failed := false
	steps := []string{}
	desc := func() any {
		return map[string]any{"goal": c.Goal, "steps": strings.Join(steps, " "), "tpi": c.TPI}
	}
	viol := func(key, format string, a ...any) {
		failed = true
		r.Violate(key, desc(), format, a...)
	}
	wait := func(w int, what string) (string, bool) {
		select {
		case ev := <-s.events:
			if ev.w != w {
				viol("unexpected-goroutine", "%s: writer %d reported %q while writer %d was released", what, ev.w, ev.label, w)
				return "", false
			}
			return ev.label, true
		case <-time.After(8 * time.Second):
			viol("writer-stalled", "%s: writer %d reached no instrumentation point and did not return within 8 s (parked at %s before)", what, w, pcs[w])
			return "", false
		}
	}
	curDir := dir
	for si, st := range c.Hist {
		if failed {
			break
		}
		what := fmt.Sprintf("step %d", si)
		switch st.A {
		case "w":
			w := st.W
			steps = append(steps, fmt.Sprintf("w%d:%s", w, pcs[w]))
			if pcs[w] == "idle" {
				nextID++
				cmds[w] <- nextID
			} else {
				s.release[w] <- struct{}{}
			}
			label, ok := wait(w, what)
			if !ok {
				break
			}
			if strings.HasPrefix(label, "panic:") {
				viol("write-panic:rolling", "%s: Write panicked: %s", what, label)
				break
			}
			if label == "returned" {
				label = "idle"
			}
			pcs[w] = label
			if want := st.Obs.PC[w-1]; label != want {
				viol("control-flow:"+want, "%s: writer %d is at %s, the specification expects %s", what, w, label, want)
			}
		case "tick":
			steps = append(steps, "tick")
			s.mu.Lock()
			s.now = s.now.Add(rrUnit)
			s.mu.Unlock()
		case "down":
			steps = append(steps, "down")
			if err := os.Rename(dir, away); err != nil {
				r.SetInfra("rename: %v", err)
				return
			}
			curDir = away
		case "up":
			steps = append(steps, "up")
			if err := os.Rename(away, dir); err != nil {
				r.SetInfra("rename back: %v", err)
				return
			}
			curDir = dir
		case "stop":
			steps = append(steps, "stop")
			if ret, p := hx.Within(8*time.Second, func() { app.Stop() }); !ret || p != nil {
				viol("stop-failed:rolling", "%s: Stop returned=%v panic=%v", what, ret, p)
			}
		case "start":
			steps = append(steps, "start")
			var serr error
			if ret, p := hx.Within(8*time.Second, func() { serr = app.Start() }); !ret || p != nil || serr != nil {
				viol("start-failed:rolling", "%s: Start returned=%v panic=%v err=%v", what, ret, p, serr)
			}
		}
		if failed {
			break
		}
		r.Eval(1)
		rrCompare(viol, what+" ("+steps[len(steps)-1]+")", app, &st.Obs, curDir, dir, c.TPI)
	}
	// let everything finish
	s.mu.Lock()
	s.freeRun = true
	s.mu.Unlock()
	for w := 1; w <= nw; w++ {
		if pcs[w] != "idle" {
			select {
			case s.release[w] <- struct{}{}:
			case <-time.After(time.Second):
			}
		}
		close(cmds[w])
	}
	done := make(chan struct{})
	go func() { wg.Wait(); close(done) }()
	select {
	case <-done:
	case <-time.After(8 * time.Second):
		if !failed {
			viol("writer-stalled", "writers did not finish after the replay")
		}
	}
	// drain stray events
	for {
		select {
		case <-s.events:
			continue
		default:
		}
		break
	}
	// one more Stop, whatever the history did before (an appender tolerates a second Stop)
	if ret, p := hx.Within(8*time.Second, func() { app.Stop() }); !ret || p != nil {
		viol("stop-failed:final", "a further Stop at the end of the history returned=%v panic=%v", ret, p)
	}
	if curDir == away {
		_ = os.Rename(away, dir)
	}
}

func rrCompare(viol func(key, format string, a ...any), at string, app *log.RollingFileAppender, o *rrObs, curDir, dir string, tpi int) {
	// directory listing and contents
	ents, _ := os.ReadDir(curDir)
	var got []string
	for _, e := range ents {
		got = append(got, e.Name())
	}
	sort.Strings(got)
	var want []string
	for _, t := range o.Names {
		want = append(want, rrName(t))
	}
	sort.Strings(want)
	if fmt.Sprint(got) != fmt.Sprint(want) {
		viol("file-set", "%s: directory holds %v, specification: %v", at, got, want)
		return
	}
	for tick, ids := range o.Dir {
		t, _ := strconv.Atoi(tick)
		b, _ := os.ReadFile(filepath.Join(curDir, rrName(t)))
		var gids []int64
		for _, line := range strings.Split(string(b), "\n") {
			if line == "" {
				continue
			}
			id, _ := sys.ParseLine([]byte(line))
			if line != fmt.Sprintf("W id=%d", id) {
				viol("torn-line", "%s: file %s holds the line %q", at, rrName(t), line)
			}
			gids = append(gids, id)
		}
		if fmt.Sprint(gids) != fmt.Sprint(ids) && !(len(gids) == 0 && len(ids) == 0) {
			key := "file-content"
			if len(gids) < len(ids) {
				key = "write-lost"
			}
			viol(key, "%s: file %s holds writes %v, specification: %v", at, rrName(t), gids, ids)
		}
	}
	// descriptors
	var openGot []string
	fds, _ := os.ReadDir("/proc/self/fd")
	for _, e := range fds {
		if t, err := os.Readlink("/proc/self/fd/" + e.Name()); err == nil && (strings.HasPrefix(t, dir+"/") || strings.HasPrefix(t, dir+".away/")) {
			openGot = append(openGot, filepath.Base(t))
		}
	}
	sort.Strings(openGot)
	var openWant []string
	for _, t := range o.Open {
		if t >= 0 {
			openWant = append(openWant, rrName(t))
		}
	}
	sort.Strings(openWant)
	if fmt.Sprint(openGot) != fmt.Sprint(openWant) {
		key := "descriptors"
		if len(openGot) > len(openWant) {
			key = "descriptor-leak"
		}
		viol(key, "%s: open descriptors %v, specification: %v", at, openGot, openWant)
	}
	cur, old, marker := log.VerifRollingState(app)
	nm := func(t int) string {
		if t < 0 {
			return ""
		}
		return rrName(t)
	}
	base := func(p string) string {
		if p == "" {
			return ""
		}
		return filepath.Base(p)
	}
	if base(cur) != nm(o.Cur) || base(old) != nm(o.Old) {
		viol("published-handles", "%s: current/previous file %q/%q, specification: %q/%q", at, base(cur), base(old), nm(o.Cur), nm(o.Old))
	}
	wantMarker := rrBase.Unix() + o.Marker*int64(tpi)*int64(rrUnit/time.Second)
	if marker != wantMarker {
		viol("interval-marker", "%s: marker %d, specification: %d (interval %d)", at, marker, wantMarker, o.Marker)
	}
}
