package main

// C03, direction B: records real concurrent executions of the synchronous logging path - pool
// traffic through the verif hooks, event objects handed to appenders, sink Write calls with the
// identity of the backing array they read - as ndjson for spec/Trace_SyncPath.tla, and checks the
// sinks' content: every Write call is one complete line, byte-identical to the line the same event
// produces when formatted alone, and the multiset of lines equals the multiset of events.

import (
	"bytes"
	"context"
	"encoding/json"
	"fmt"
	"os"
	"path/filepath"
	"runtime"
	"runtime/debug"
	"sort"
	"strconv"
	"strings"
	"sync"
	"sync/atomic"
	"time"
	"unsafe"

	"github.com/go-spring/log"

	"verifharness/hx"
	"verifharness/sys"
)

func init() {
	commands["syncrec"] = cmdSyncRec
	log.RegisterPlugin[SlowSink]("SlowSink", log.PluginTypeAppender)
}

type srEvent struct {
	Seq int64  `json:"seq"`
	G   int64  `json:"g"`
	Ev  string `json:"ev"`
	B   int    `json:"b,omitempty"`
	Arr int    `json:"arr,omitempty"`
	E   int    `json:"e,omitempty"`
	Len int    `json:"len"` // bufget: bytes already in the buffer as it comes out of the pool
}

type srRecorder struct {
	mu   sync.Mutex
	seq  int64
	evs  []srEvent
	ids  map[uintptr]int
	gids map[int64]int64
	on   bool
}

var srRec = &srRecorder{ids: map[uintptr]int{}, gids: map[int64]int64{}}

func (r *srRecorder) id(p uintptr) int {
	if p == 0 {
		return 0
	}
	if v, ok := r.ids[p]; ok {
		return v
	}
	v := len(r.ids) + 1
	r.ids[p] = v
	return v
}

func (r *srRecorder) add(ev string, b, arr, e uintptr) { r.addLen(ev, b, arr, e, 0) }

func (r *srRecorder) addLen(ev string, b, arr, e uintptr, n int) {
	g := goid()
	r.mu.Lock()
	if r.on {
		r.seq++
		gi, ok := r.gids[g]
		if !ok {
			gi = int64(len(r.gids) + 1)
			r.gids[g] = gi
		}
		r.evs = append(r.evs, srEvent{Seq: r.seq, G: gi, Ev: ev, B: r.id(b), Arr: r.id(arr), E: r.id(e), Len: n})
	}
	r.mu.Unlock()
}

func arrayOf(b []byte) uintptr {
	if cap(b) == 0 {
		return 0
	}
	return uintptr(unsafe.Pointer(unsafe.SliceData(b[:1])))
}

// slowWrite is what every observed sink does with the bytes it is handed.
type sinkLog struct {
	mu     sync.Mutex
	writes [][]byte
}

func (s *sinkLog) consume(b []byte, slow bool) {
	srRec.add("sinkstart", 0, arrayOf(b), 0)
	out := make([]byte, 0, len(b))
	step := len(b)/4 + 1
	for i := 0; i < len(b); i += step {
		j := i + step
		if j > len(b) {
			j = len(b)
		}
		out = append(out, b[i:j]...)
		if slow {
			runtime.Gosched()
		}
	}
	srRec.add("sinkend", 0, 0, 0)
	s.mu.Lock()
	s.writes = append(s.writes, out)
	s.mu.Unlock()
}

// SlowSink is an appender plugin: formats with its own layout (or receives formatted bytes) and
// consumes them slowly.
type SlowSink struct {
	log.AppenderBase
	Layout log.Layout `PluginElement:"Layout,default=TextLayout"`
}

var slowSinkLog = &sinkLog{}

func (a *SlowSink) Start() error { return nil }
func (a *SlowSink) Stop()        {}
func (a *SlowSink) Append(e *log.Event) {
	srRec.add("evuse", 0, 0, uintptr(unsafe.Pointer(e)))
	a.Write(a.Layout.ToBytes(e))
}
func (a *SlowSink) Write(b []byte) { slowSinkLog.consume(b, true) }

type consoleSink struct{ log *sinkLog }

func (c consoleSink) Write(b []byte) (int, error) { c.log.consume(b, true); return len(b), nil }

var srTag *log.Tag

// srPoison is a user-supplied array value whose encoder fails half-way: the log call panics inside the
// layout, the caller recovers - and whatever the library had in its hands must not leak into later lines.
type srPoison struct{}

func (srPoison) EncodeArray(enc log.Encoder) {
	enc.AppendInt64(1)
	enc.AppendString("POISON")
	panic("poison")
}

// srCall logs one event; poisoned events are expected to panic with the encoder's own value.
type srIDKey struct{}

const srBare = -1 // size marker of a field-less event

func srCall(ctx context.Context, id int64, size int, poison bool) (unexpected any) {
	ctx = context.WithValue(ctx, srIDKey{}, id) // the timestamp hook derives the event's time from it
	if size == srBare {
		// an event without any field: nothing of its own to format (and no id: its line is recognised by its time)
		log.Warn(ctx, srTag)
		return nil
	}
	if !poison {
		srLog(ctx, id, size)
		return nil
	}
	defer func() {
		if p := recover(); p != nil && p != "poison" {
			unexpected = p
		}
	}()
	log.Info(ctx, srTag, log.Int("id", id), log.String("secret", strings.Repeat("S", size)), log.Array("arr", srPoison{}), log.Int("end", id))
	return nil
}

// srInfoX is a second name for the code of INFO (RegisterLevel allows it): whatever a layout remembers about a
// level, a line must carry the name of its own event's level.
var srInfoX = log.RegisterLevel(300, "INFOX")

func srLevelOf(id int64) log.Level {
	switch {
	case id%5 == 3:
		return srInfoX
	case id%7 == 2:
		return log.ErrorLevel
	case id%7 == 5:
		return log.WarnLevel
	}
	return log.InfoLevel
}

// srLog is the single call site: the same statement logs concurrently and alone.
func srLog(ctx context.Context, id int64, size int) {
	log.Record(ctx, srLevelOf(id), srTag, 1, log.Int("id", id), log.String("pad", strings.Repeat(string(rune('a'+id%26)), size)),
		log.Ints("items", []int64{id, id + 1, id + 2}), log.Object("user", log.String("name", "u"+strconv.FormatInt(id, 10)), log.Int("n", id)),
		log.String("note", "日本語 then a line break\nand a tab\tü\r end"), // text outside ASCII followed by control characters
		log.Int("end", id))
}

// layoutStress: a layout is shared by all goroutines that log through its appender.  16 goroutines format 2000
// different events (each in a second of its own, different levels, sizes and locations) through ONE layout instance,
// again and again; every result must be byte-identical to the line the event produces alone on a fresh instance.
func layoutStress(r *hx.Result) {
	const N, G, passes = 2000, 16, 12
	base := time.Date(2030, 5, 6, 7, 8, 9, 120000000, time.UTC)
	events := make([]*log.Event, N)
	for i := range events {
		events[i] = &log.Event{Level: []log.Level{log.InfoLevel, log.WarnLevel, srInfoX, log.ErrorLevel}[i%4], Time: base.Add(time.Duration(i) * 1700 * time.Millisecond),
			File: fmt.Sprintf("pkg%d/file%d.go", i%7, i%13), Line: i, Tag: "st_tag", CtxString: []string{"", "trace-1"}[i%2],
			Fields: []log.Field{log.Int("id", int64(i)), log.String("pad", strings.Repeat("x", i%300)), log.Ints("arr", []int64{int64(i), 2}), log.Int("end", int64(i))}}
	}
	for li, mk := range []func() log.Layout{
		func() log.Layout { return &log.TextLayout{BaseLayout: log.BaseLayout{FileLineLength: 48}} },
		func() log.Layout { return &log.JSONLayout{BaseLayout: log.BaseLayout{FileLineLength: 48}} }} {
		want := make([][]byte, N)
		for i, e := range events {
			want[i] = mk().ToBytes(e)
		}
		shared := mk()
		var bad atomic.Value
		var wg sync.WaitGroup
		for g := 0; g < G; g++ {
			wg.Add(1)
			go func(g int) {
				defer wg.Done()
				defer func() {
					if p := recover(); p != nil {
						bad.Store(fmt.Sprintf("panic: %v", p))
					}
				}()
				for pass := 0; pass < passes && bad.Load() == nil; pass++ {
					for k := 0; k < N; k++ {
						i := (k*7 + g*131 + pass*17) % N
						if got := shared.ToBytes(events[i]); !bytes.Equal(got, want[i]) {
							bad.Store(fmt.Sprintf("event %d: got %.160q, alone it is %.160q", i, got, want[i]))
							return
						}
					}
				}
			}(g)
		}
		wg.Wait()
		r.Eval(N)
		if b := bad.Load(); b != nil {
			r.Violate("layout-not-pure-under-concurrency:"+[]string{"text", "json"}[li], map[string]any{"goroutines": G, "events": N, "passes": passes},
				"one layout instance, %d goroutines: %v", G, b)
		}
	}
}

// rollingAcrossRealBoundaries: the rolling-file sink across real one-second boundaries, the process far west and far
// east of UTC, retention at its shortest: four goroutines log for about 1.3 s, the scans launched by the rotations get
// time to run; afterwards every event's line is in the directory exactly once, whole.
func rollingAcrossRealBoundaries(r *hx.Result) {
	saveLocal := time.Local
	defer func() { time.Local = saveLocal }()
	log.RegisterTimeRotation("s1", log.TimeRotation{Interval: time.Second})
	ctx := context.Background()
	for _, zone := range []*time.Location{time.FixedZone("WEST", -11*3600), time.FixedZone("EAST", 13*3600+45*60)} {
		time.Local = zone
		dir, err := os.MkdirTemp(os.Getenv("VERIF_SCRATCH"), "sz-")
		if err != nil {
			r.SetInfra("mkdtemp: %v", err)
			return
		}
		log.Destroy()
		log.VerifReset()
		log.VerifNow, log.VerifRoll = nil, nil
		srTag = log.RegisterTag("sync_tag")
		cfg := sys.Cfg{}
		cfg["appender.out.type"], cfg["appender.out.fileDir"], cfg["appender.out.fileName"] = "RollingFile", dir, "z.log"
		cfg["appender.out.rotation"], cfg["appender.out.maxAge"], cfg["appender.out.layout.type"] = "s1", "1", "TextLayout"
		cfg.AddLogger("lg", "Logger", "", "sync_tag", []sys.Ref{{Ref: "out"}}, false, nil)
		if err := log.Refresh(cfg.Map(nil)); err != nil {
			r.SetInfra("rollingAcrossRealBoundaries refresh: %v", err)
			os.RemoveAll(dir)
			return
		}
		desc := map[string]any{"sink": "rolling, one-second intervals, maxAge 1 h", "zone": zone.String(), "goroutines": 4}
		var wg sync.WaitGroup
		var total int64
		until := time.Now().Add(1300 * time.Millisecond)
		var crashed atomic.Value
		for g := 0; g < 4; g++ {
			wg.Add(1)
			go func(g int) {
				defer wg.Done()
				for k := 1; time.Now().Before(until); k++ {
					if p := srCall(ctx, int64(g*100000+k), 40, false); p != nil {
						crashed.Store(fmt.Sprint(p))
						return
					}
					atomic.AddInt64(&total, 1)
					time.Sleep(2 * time.Millisecond)
				}
			}(g)
		}
		wg.Wait()
		time.Sleep(150 * time.Millisecond) // the scan launched by the last rotation
		if ok, p := hx.Within(10e9, func() { log.Destroy() }); !ok || p != nil {
			r.Violate("log-panic:sync", desc, "Destroy returned=%v panic=%v", ok, p)
			os.RemoveAll(dir)
			return
		}
		if c := crashed.Load(); c != nil {
			r.Violate("log-panic:sync", desc, "logging panicked: %v", c)
		}
		seen := map[int64]int{}
		nfiles := 0
		ents, _ := os.ReadDir(dir)
		for _, e := range ents {
			b, _ := os.ReadFile(filepath.Join(dir, e.Name()))
			nfiles++
			for _, line := range strings.Split(strings.TrimSuffix(string(b), "\n"), "\n") {
				if id, _ := sys.ParseLine([]byte(line)); id > 0 && strings.HasSuffix(line, fmt.Sprintf("end=%d", id)) {
					seen[id]++
				}
			}
		}
		os.RemoveAll(dir)
		r.Eval(atomic.LoadInt64(&total))
		once := 0
		for _, n := range seen {
			if n == 1 {
				once++
			}
		}
		if int64(once) != total || int64(len(seen)) != total {
			r.Violate("missing-line:rolling-real-boundaries", desc, "%d events were logged across one or two real interval boundaries; %d of them have their whole line exactly once in the %d files of the directory",
				total, once, nfiles)
		}
	}
}

func cmdSyncRec(f hx.Flags, r *hx.Result) {
	defer layoutStress(r)
	defer rollingAcrossRealBoundaries(r)
	debug.SetGCPercent(-1) // addresses identify objects in the trace: nothing may be freed and reused
	rng := hx.Rand(3)
	tmp, err := os.MkdirTemp(os.Getenv("VERIF_SCRATCH"), "sr-")
	if err != nil {
		r.SetInfra("mkdtemp: %v", err)
		return
	}
	defer os.RemoveAll(tmp)
	log.RegisterTimeRotation("h", log.TimeRotation{Interval: time.Hour})
	log.VerifBuf = func(op int, b *bytes.Buffer) {
		if op == 0 {
			srRec.addLen("bufget", uintptr(unsafe.Pointer(b)), 0, 0, b.Len())
		} else {
			srRec.add("bufput", uintptr(unsafe.Pointer(b)), arrayOf(b.Bytes()), 0)
		}
	}
	log.VerifEvt = func(op int, e *log.Event) {
		if op == 0 {
			srRec.add("evget", 0, 0, uintptr(unsafe.Pointer(e)))
		} else {
			srRec.add("evput", 0, 0, uintptr(unsafe.Pointer(e)))
		}
	}
	defer func() { log.VerifBuf, log.VerifEvt = nil, nil }()
	fixed := time.Date(2030, 1, 2, 3, 4, 5, 678000000, time.UTC)
	// every event has its own second (derived from its id): whatever a layout remembers about the time it formatted
	// last, a line shows its own event's time
	log.TimeNow = func(ctx context.Context) time.Time {
		if id, ok := ctx.Value(srIDKey{}).(int64); ok {
			return fixed.Add(time.Duration(id%100000) * time.Second)
		}
		return fixed
	}
	defer func() { log.TimeNow, log.FieldsFromContext, log.VerifNow, log.VerifRoll = nil, nil, nil, nil }()
	runs := f.Int("runs", 24)
	budget := f.Int("events", 12000) // trace events written for TLC
	out, err := os.Create(f.Str("dump", filepath.Join(tmp, "trace.ndjson")))
	if err != nil {
		r.SetInfra("create dump: %v", err)
		return
	}
	defer out.Close()
	written := 0
	sinks := []string{"console", "slowsink", "slowsink+loggerlayout", "file", "rolling", "console+slowsink", "file+file", "levelled+loggerlayout"}
	layouts := []string{"TextLayout", "JSONLayout"}
	ctx := context.Background()
	for run := 0; run < runs && !hx.Stopped(); run++ {
		sinkKind := sinks[run%len(sinks)]
		layout := layouts[(run/len(sinks))%2]
		goroutines := []int{2, 3, 4, 8, 16, 64}[rng.Intn(6)]
		per := 6 + rng.Intn(20)
		if goroutines == 64 {
			per = 4
		}
		if run == 1 || run == 8 {
			// two long runs (one per layout) on the in-memory sink: many overlapping calls of one layout instance, each
			// event in a second of its own
			goroutines, per = 16, 400
			sinkKind = "file" // a sink that does not slow the callers down: the layout is the contended part
		}
		dir := filepath.Join(tmp, fmt.Sprintf("r%d", run))
		_ = os.MkdirAll(dir, 0o755)
		log.Destroy()
		log.VerifReset()
		srTag = log.RegisterTag("sync_tag")
		con := &sinkLog{}
		log.Stdout = consoleSink{con}
		slowSinkLog = &sinkLog{}
		cfg := sys.Cfg{}
		cfg["bufferCap"] = "1KB"
		// the caller lookup is a process-wide property: most runs have it on, every fifth one off - then no line may
		// show a location, whatever the pooled event objects carried before
		callerOff := run%5 == 4
		cfg["enableCaller"] = fmt.Sprint(!callerOff)
		ex := map[string]string{}
		switch sinkKind {
		case "console":
			cfg["appender.out.type"] = "Console"
			cfg["appender.out.layout.type"] = layout
		case "slowsink":
			cfg["appender.out.type"] = "SlowSink"
			cfg["appender.out.layout.type"] = layout
		case "console+slowsink": // both layouts at once on the shared pools
			cfg["appender.out.type"] = "Console"
			cfg["appender.out.layout.type"] = "TextLayout"
			cfg["appender.out.layout.fileLineLength"] = "300" // wide: never truncates, and formats each site first
			cfg["appender.out2.type"] = "SlowSink"
			cfg["appender.out2.layout.type"] = "JSONLayout"
			cfg["appender.out2.layout.fileLineLength"] = "24" // narrow: always truncates the harness's own path
		case "slowsink+loggerlayout":
			cfg["appender.out.type"] = "SlowSink"
			ex["layout.type"] = layout
		case "levelled+loggerlayout": // the logger formats once; its sinks select by level: everything / WARN and above
			cfg["appender.out.type"] = "SlowSink"
			cfg["appender.out2.type"] = "Console"
			ex["layout.type"] = layout
		case "file":
			cfg["appender.out.type"] = "File"
			cfg["appender.out.fileDir"] = dir
			cfg["appender.out.fileName"] = "s.log"
			cfg["appender.out.layout.type"] = layout
		case "file+file": // two appenders on one file: each event's line is in it twice, none overwritten
			for _, a := range []string{"out", "out2"} {
				cfg["appender."+a+".type"] = "File"
				cfg["appender."+a+".fileDir"] = dir
				cfg["appender."+a+".fileName"] = "s.log"
				cfg["appender."+a+".layout.type"] = layout
			}
		case "rolling":
			cfg["appender.out.type"] = "RollingFile"
			cfg["appender.out.fileDir"] = dir
			cfg["appender.out.fileName"] = "s.log"
			cfg["appender.out.rotation"] = "h"
			cfg["appender.out.maxAge"] = "100"
			cfg["appender.out.layout.type"] = layout
		}
		refs := []sys.Ref{{Ref: "out"}}
		if sinkKind == "levelled+loggerlayout" {
			refs[0].Level = "TRACE~FATAL" // an explicit upper bound: without one the range would end where the other reference begins
		}
		if sinkKind == "console+slowsink" || sinkKind == "file+file" {
			refs = append(refs, sys.Ref{Ref: "out2"})
		}
		if sinkKind == "levelled+loggerlayout" {
			refs = append(refs, sys.Ref{Ref: "out2", Level: "WARN"})
		}
		cfg.AddLogger("lg", "Logger", "", "sync_tag", refs, len(refs) > 1, ex)
		// every third run installs a context-fields hook that hands out one shared slice with spare capacity
		var sharedCtx [8]log.Field
		sharedCtx[0], sharedCtx[1] = log.String("trace", "t-1"), log.Int("span", 9)
		log.FieldsFromContext = nil
		if run%3 == 1 {
			log.FieldsFromContext = func(context.Context) []log.Field { return sharedCtx[:2:8] }
		}
		// rolling sink: in half of the runs the clock jumps one interval per reading, so rotations happen all the time
		log.VerifNow, log.VerifRoll = nil, nil
		if sinkKind == "rolling" && (run/len(sinks))%2 == 1 {
			var tick int64
			base := time.Now().Truncate(time.Hour)
			log.VerifNow = func(time.Time) time.Time { return base.Add(time.Duration(atomic.AddInt64(&tick, 1)) * time.Hour) }
			// ... and the rotating goroutine dawdles between its steps while the others keep writing
			log.VerifRoll = func(_ *log.RollingFileAppender, p int) {
				if p >= 3 && p <= 6 {
					time.Sleep(50 * time.Microsecond)
				}
			}
		}
		desc := map[string]any{"sink": sinkKind, "layout": layout, "goroutines": goroutines, "events_each": per,
			"ctx_hook": log.FieldsFromContext != nil, "rotation_churn": log.VerifNow != nil, "caller_lookup": !callerOff}
		type evt struct {
			id     int64
			size   int
			poison bool
		}
		// the same events formatted alone, through the same logger kind and call site, into `want`
		want := map[string]int{}
		runAlone := func(all []evt, only string) bool {
			log.Destroy()
			log.VerifReset()
			srTag = log.RegisterTag("sync_tag")
			alone := &sinkLog{}
			saveOut, saveSlow := log.Stdout, slowSinkLog
			log.Stdout = consoleSink{alone}
			slowSinkLog = alone
			defer func() { log.Stdout, slowSinkLog = saveOut, saveSlow }()
			cfg2 := sys.Cfg{}
			for k, v := range cfg {
				if only != "" && strings.HasPrefix(k, "appender.") && !strings.HasPrefix(k, "appender."+only+".") {
					continue
				}
				if only != "" && strings.HasPrefix(k, "logger.lg.appenderRef") {
					continue
				}
				cfg2[k] = v
			}
			if only != "" {
				cfg2["logger.lg.appenderRef.ref"] = only
			}
			if sinkKind == "file" || sinkKind == "rolling" || sinkKind == "file+file" {
				for _, a := range []string{"out", "out2"} {
					if _, ok := cfg2["appender."+a+".type"]; !ok {
						continue
					}
					cfg2["appender."+a+".type"] = "Console"
					delete(cfg2, "appender."+a+".fileDir")
					delete(cfg2, "appender."+a+".fileName")
					delete(cfg2, "appender."+a+".rotation")
					delete(cfg2, "appender."+a+".maxAge")
				}
			}
			if err := log.Refresh(cfg2.Map(nil)); err != nil {
				r.SetInfra("syncrec refresh (alone): %v", err)
				return false
			}
			for _, e := range all {
				before := len(alone.writes)
				if p := srCall(ctx, e.id, e.size, e.poison); p != nil {
					r.Violate("log-panic:sync", desc, "logging alone panicked: %v", p)
				}
				for _, w := range alone.writes[before:] {
					want[string(w)]++
				}
			}
			log.Destroy()
			return true
		}
		// sizes from tens of bytes to beyond the buffer-reuse cap (1 KiB here)
		// with the 1 KiB reuse cap: 500 / 700 bytes of padding make the buffer's capacity exactly the cap
		sizes := []int{8, 40, 200, 500, 700, 900, 1100, 3100}
		poisoned := run%4 == 1 // some calls fail inside a user-supplied encoder and are recovered by the caller
		desc["poisoned_calls"] = poisoned
		var all []evt
		perG := make([][]evt, goroutines)
		for g := 0; g < goroutines; g++ {
			for k := 0; k < per; k++ {
				e := evt{int64(g*1000 + k + 1), sizes[rng.Intn(len(sizes))], poisoned && k%4 == 1}
				if run%3 == 2 && k%6 == 4 {
					e.size = srBare
				}
				perG[g] = append(perG[g], e)
				all = append(all, e)
			}
		}
		// two layouts of different file:line width on one call site: the narrow layout's lines are taken alone
		// before the wide one has ever formatted that site, the wide layout's afterwards
		if sinkKind == "console+slowsink" && !runAlone(all, "out2") {
			return
		}
		log.Destroy()
		log.VerifReset()
		srTag = log.RegisterTag("sync_tag")
		if err := log.Refresh(cfg.Map(nil)); err != nil {
			r.SetInfra("syncrec refresh: %v", err)
			return
		}
		srRec.mu.Lock()
		srRec.on = true
		srRec.evs = nil
		srRec.mu.Unlock()
		var wg sync.WaitGroup
		var crashed atomic.Value
		for g := 0; g < goroutines; g++ {
			mine := perG[g]
			wg.Add(1)
			go func(mine []evt) {
				defer wg.Done()
				defer func() {
					if p := recover(); p != nil {
						crashed.Store(fmt.Sprint(p))
					}
				}()
				for _, e := range mine {
					if p := srCall(ctx, e.id, e.size, e.poison); p != nil {
						panic(p)
					}
				}
			}(mine)
		}
		wg.Wait()
		srRec.mu.Lock()
		srRec.on = false
		evs := srRec.evs
		srRec.evs = nil
		srRec.mu.Unlock()
		if c := crashed.Load(); c != nil {
			r.Violate("log-panic:sync", desc, "concurrent logging panicked: %v", c)
			continue
		}
		log.Destroy()
		// gather what the sink holds
		var writes [][]byte
		var stream []byte
		switch sinkKind {
		case "console":
			writes = con.writes
		case "console+slowsink", "levelled+loggerlayout":
			writes = append(append([][]byte(nil), con.writes...), slowSinkLog.writes...)
			if sinkKind == "levelled+loggerlayout" {
				// every sink receives one line per event it selects: all of them / those at WARN and above
				wantAll, wantWarn := 0, 0
				for _, e := range all {
					if e.poison {
						continue
					}
					wantAll++
					if e.size == srBare || srLevelOf(e.id).Code() >= log.WarnLevel.Code() {
						wantWarn++
					}
				}
				if len(slowSinkLog.writes) != wantAll || len(con.writes) != wantWarn {
					r.Violate("lines-per-sink:"+sinkKind, desc, "the unfiltered sink holds %d lines (events: %d), the sink at WARN and above holds %d (events at WARN and above: %d)",
						len(slowSinkLog.writes), wantAll, len(con.writes), wantWarn)
				}
			}
		case "slowsink", "slowsink+loggerlayout":
			writes = slowSinkLog.writes
		default:
			ents, _ := os.ReadDir(dir)
			for _, e := range ents {
				b, _ := os.ReadFile(filepath.Join(dir, e.Name()))
				stream = append(stream, b...)
			}
		}
		only := ""
		if sinkKind == "console+slowsink" {
			only = "out" // the narrow layout's lines were taken before the run
		}
		if !runAlone(all, only) {
			return
		}
		log.Destroy()
		os.RemoveAll(dir)
		r.Eval(int64(len(all)))
		r.NonTrivial(1)
		r.Trace(1)
		got := map[string]int{}
		if writes != nil {
			for _, w := range writes {
				got[string(w)]++
				// absolute part of "one contiguous, complete line": exactly one line break, at the end
				if bytes.Count(w, []byte("\n")) != 1 || w[len(w)-1] != '\n' {
					r.Violate("line-break-inside:"+sinkKind, desc, "one write to the sink holds %d line breaks (want one, at the end): %.120q", bytes.Count(w, []byte("\n")), w)
					break
				}
			}
		} else {
			for _, line := range bytes.SplitAfter(stream, []byte("\n")) {
				if len(line) > 0 {
					got[string(line)]++
				}
			}
		}
		bad := 0
		for line := range got {
			if callerOff && want[line] > 0 && !strings.Contains(line, "[:0] ") && !strings.Contains(line, `"fileLine":":0"`) {
				bad++
				r.Violate("foreign-location:"+sinkKind, desc, "caller lookup is off, but a line shows a location: %.120q", line)
				break
			}
			// absolute part of "byte-identical to the event formatted alone": the level name in the line is the event's own
			if lid, lvl := sys.ParseLine([]byte(strings.TrimSuffix(line, "\n"))); lid > 0 && want[line] > 0 && !strings.EqualFold(lvl, srLevelOf(lid).Name()) {
				bad++
				r.Violate("foreign-level-name:"+sinkKind, desc, "the line of event %d (level %s) shows level %q: %.100q", lid, srLevelOf(lid).Name(), lvl, line)
				break
			}
		}
		for line, n := range got {
			if want[line] != n {
				bad++
				if bad <= 2 {
					kind := "torn-or-foreign-line"
					if want[line] > 0 {
						kind = "duplicated-line"
					}
					r.Violate(kind+":"+sinkKind, desc, "sink %s holds %d x a line that the events produce %d x when formatted alone: %.120q (len %d)", sinkKind, n, want[line], line, len(line))
				}
			}
		}
		for line, n := range want {
			if got[line] < n && bad <= 4 {
				bad++
				r.Violate("missing-line:"+sinkKind, desc, "the line of an event is missing from sink %s (%d of %d): %.120q", sinkKind, got[line], n, line)
			}
		}
		// trace for TLC
		if written < budget {
			sort.Slice(evs, func(i, j int) bool { return evs[i].Seq < evs[j].Seq })
			for _, e := range evs {
				b, _ := json.Marshal(e)
				out.Write(append(b, '\n'))
			}
			written += len(evs)
		}
		if run == 1 {
			r.Sample(map[string]any{"run": desc, "trace_events": len(evs), "lines": len(all)})
		}
	}
	r.Extra["trace_events_written"] = written
}
