// Command vh is the conformance harness binding the TLA+ specifications under /verif/spec
// to the real go-spring/log code: `vh <replayer> --cases FILE --out RESULT [options]`.
package main

import (
	"fmt"
	"os"

	"verifharness/hx"
)

type cmdFn func(f hx.Flags, r *hx.Result)

var commands = map[string]cmdFn{}

func main() {
	if len(os.Args) < 2 {
		fmt.Fprintln(os.Stderr, "usage: vh <command> [--k v ...] --out FILE")
		os.Exit(3)
	}
	fn, ok := commands[os.Args[1]]
	if !ok {
		fmt.Fprintln(os.Stderr, "unknown command", os.Args[1])
		os.Exit(3)
	}
	f := hx.ParseFlags(os.Args[2:])
	r := hx.NewResult()
	out := f.Str("out", "")
	func() {
		defer func() {
			if p := recover(); p != nil {
				r.SetInfra("harness panic in %s: %v", os.Args[1], p)
			}
		}()
		fn(f, r)
	}()
	if out != "" {
		r.Write(out)
	}
}
