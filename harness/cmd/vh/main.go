// Command vh is the conformance harness binding the TLA+ specifications under /verif/spec
// to the real go-spring/log code: `vh <replayer> --cases FILE --out RESULT [options]`.
package main

import (
	"fmt"
	"os"
	"runtime/debug"
	"strings"

	"verifharness/hx"
)

type cmdFn func(f hx.Flags, r *hx.Result)

var commands = map[string]cmdFn{}

func main() {
	if len(os.Args) < 2 {
		fmt.Fprintln(os.Stderr, "usage: vh <command> [--k v ...] --out FILE")
		os.Exit(3)
	}
	fn, ok := commands[os.Args[1]]
	if !ok {
		fmt.Fprintln(os.Stderr, "unknown command", os.Args[1])
		os.Exit(3)
	}
	f := hx.ParseFlags(os.Args[2:])
	r := hx.NewResult()
	out := f.Str("out", "")
	func() {
		defer func() {
			if p := recover(); p != nil {
				// a panic raised inside go-spring/log that reached the top of the harness is an
				// observation about the library; anything else is a harness defect
				st := string(debug.Stack())
				lib := ""
				for _, line := range strings.Split(st, "\n") {
					if strings.HasPrefix(line, "github.com/go-spring/log.") || strings.HasPrefix(line, "github.com/go-spring/log/") {
						lib = strings.SplitN(line, "(", 2)[0]
						break
					}
				}
				if lib != "" {
					r.Violate("panic-in-library:"+lib, map[string]any{"command": os.Args[1]}, "unguarded call panicked inside %s: %v", lib, p)
				} else {
					r.SetInfra("harness panic in %s: %v\n%s", os.Args[1], p, st)
				}
			}
		}()
		fn(f, r)
	}()
	if out != "" {
		r.Write(out)
	}
}
