package main

// C03, direction A (deterministic schedule): the counterexample TLC finds on the as-built variant of
// SyncPath.tla (2 goroutines, 1 buffer: g1 formats, its buffer is pooled, g1's sink write is in
// flight, g2 takes the buffer and formats) forced onto the real code with GOMAXPROCS(1) - so the
// per-P pool hands g2 the buffer g1 just put back - and a sink that, in the middle of consuming g1's
// bytes, lets g2 log a complete event.  The bytes g1's sink sees must not change.

import (
	"context"
	"fmt"
	"runtime"
	"strings"
	"sync"

	"github.com/go-spring/log"

	"verifharness/hx"
	"verifharness/sys"
)

func init() { commands["syncgate"] = cmdSyncGate }

type gateSink struct {
	mu      sync.Mutex
	depth   int
	inner   func()
	changed []string
	lines   []string
}

func (s *gateSink) Write(b []byte) (int, error) {
	before := string(b)
	s.mu.Lock()
	first := s.depth == 0
	s.depth++
	s.mu.Unlock()
	if first && s.inner != nil {
		done := make(chan struct{})
		go func() { defer close(done); s.inner() }() // another goroutine logs while this write is in flight
		<-done
	}
	after := string(b)
	s.mu.Lock()
	s.depth--
	if before != after {
		s.changed = append(s.changed, fmt.Sprintf("%.60q -> %.60q", before, after))
	}
	s.lines = append(s.lines, after)
	s.mu.Unlock()
	return len(b), nil
}

func cmdSyncGate(f hx.Flags, r *hx.Result) {
	old := runtime.GOMAXPROCS(1)
	defer runtime.GOMAXPROCS(old)
	ctx := context.Background()
	for _, layout := range []string{"TextLayout", "JSONLayout"} {
		for _, kind := range []string{"console-appender", "logger-layout"} {
			for round := 0; round < 25; round++ {
				log.Destroy()
				log.VerifReset()
				tag := log.RegisterTag("gate_tag")
				sink := &gateSink{}
				log.Stdout = sink
				cfg := sys.Cfg{}
				cfg["appender.out.type"] = "Console"
				ex := map[string]string{}
				if kind == "logger-layout" {
					ex["layout.type"] = layout
				} else {
					cfg["appender.out.layout.type"] = layout
				}
				cfg.AddLogger("lg", "Logger", "", "gate_tag", []sys.Ref{{Ref: "out"}}, false, ex)
				if err := log.Refresh(cfg.Map(nil)); err != nil {
					r.SetInfra("syncgate refresh: %v", err)
					return
				}
				size := 20 + round*37
				sink.inner = func() {
					log.Warn(ctx, tag, log.String("who", "g2"), log.String("pad", strings.Repeat("2", size)))
				}
				log.Info(ctx, tag, log.String("who", "g1"), log.String("pad", strings.Repeat("1", size)))
				log.Destroy()
				r.Eval(1)
				desc := map[string]any{"layout": layout, "path": kind, "pad": size}
				if len(sink.changed) > 0 {
					r.Violate("bytes-changed-under-sink", desc, "the bytes handed to the sink changed while the sink was consuming them: %s", sink.changed[0])
				}
				n1, n2 := 0, 0
				for _, l := range sink.lines {
					if strings.Contains(l, "g1") && strings.Contains(l, strings.Repeat("1", size)) && !strings.Contains(l, "2222") {
						n1++
					}
					if strings.Contains(l, "g2") && strings.Contains(l, strings.Repeat("2", size)) && !strings.Contains(l, "1111") {
						n2++
					}
				}
				if n1 != 1 || n2 != 1 || len(sink.lines) != 2 {
					r.Violate("torn-or-foreign-line:gated", desc, "sink received %d lines (%d whole from g1, %d whole from g2), want 2 (1, 1)", len(sink.lines), n1, n2)
				}
			}
		}
	}
	r.NonTrivial(100)
	r.Sample("g1's sink write in flight, g2 logs a whole event (GOMAXPROCS=1, same pooled buffer)")
	_ = hx.Seed
}
