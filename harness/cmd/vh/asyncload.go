package main

// C04 / C05 / C06, direction B: randomized multi-producer runs of a real AsyncLogger (no gate, real
// concurrency).  Each run is recorded as one history (per-producer submissions, delivery order at
// the appender, discard counter read after Stop, Stop latency) and written as ndjson; TLC evaluates
// the specification's Conservation / ProducerFIFO / policy operators on every recorded history
// (spec/AsyncHistory.tla).  The same laws are also evaluated here for the larger runs.

import (
	"context"
	"encoding/json"
	"fmt"
	"math/rand"
	"os"
	"sync"
	"sync/atomic"
	"time"

	"github.com/go-spring/log"

	"verifharness/hx"
	"verifharness/sys"
)

func init() { commands["asyncload"] = cmdAsyncLoad }

// loadAppender records ids in delivery order; optional slowness.
type loadAppender struct {
	log.AppenderBase
	mu    sync.Mutex
	ids   []int64
	mode  string
	n     int64
	stops int
}

func (a *loadAppender) Start() error { return nil }
func (a *loadAppender) Stop()        { a.mu.Lock(); a.stops++; a.mu.Unlock() }
func (a *loadAppender) pace() {
	k := atomic.AddInt64(&a.n, 1)
	switch a.mode {
	case "slow":
		time.Sleep(20 * time.Microsecond)
	case "fixed40ms":
		time.Sleep(40 * time.Millisecond)
	case "bursty":
		if k%97 == 0 {
			time.Sleep(2 * time.Millisecond)
		}
	}
}
func (a *loadAppender) Append(e *log.Event) {
	id := sys.EventID(e)
	a.pace()
	a.mu.Lock()
	a.ids = append(a.ids, id)
	a.mu.Unlock()
}
func (a *loadAppender) Write(b []byte) {
	id, _ := sys.ParseLine(b)
	a.pace()
	a.mu.Lock()
	a.ids = append(a.ids, id)
	a.mu.Unlock()
}

type loadRun struct {
	Policy    string    `json:"policy"`
	Cap       int       `json:"cap"`
	Producers int       `json:"producers"`
	Mode      string    `json:"mode"`
	Submitted [][]int64 `json:"submitted"` // per producer, enabled items in call order
	Disabled  []int64   `json:"disabled"`
	Delivered []int64   `json:"delivered"`
	Discards  int64     `json:"discards"`
	StopMs    float64   `json:"stop_ms"`
}

func cmdAsyncLoad(f hx.Flags, r *hx.Result) {
	rng := hx.Rand(4)
	sys.InstallConsole()
	runs := f.Int("runs", 36)
	if hx.Thorough() {
		runs = 240
	}
	var out *os.File
	if p := f.Str("dump", ""); p != "" {
		var err error
		if out, err = os.Create(p); err != nil {
			r.SetInfra("create dump: %v", err)
			return
		}
		defer out.Close()
	}
	policies := []log.BufferFullPolicy{log.BufferFullPolicyBlock, log.BufferFullPolicyDiscard, log.BufferFullPolicyDiscardOldest}
	polName := []string{"Block", "Discard", "DiscardOldest"}
	modes := []string{"fast", "slow", "bursty"}
	parkedProducers(r)
	arrivalsSurvive(r)
	twoLoggers(r)
	slowDrain(r)
	rawToEveryRef(r)
	emptyRawInTheMiddle(r)
	overflowUnderDrain(r)
	blockWaitsAsLongAsItTakes(r)
	for run := 0; run < runs && !hx.Stopped(); run++ {
		pi := run % 3
		mode := modes[(run/3)%3]
		producers := []int{1, 2, 3, 4, 8, 16, 32}[rng.Intn(7)]
		capacity := []int{100, 100, 128, 500, 1000}[rng.Intn(5)]
		perProducer := 40 + rng.Intn(400)
		if run == 0 || run == 1 || run == 2 { // the suite's own shape: 5000 appends + 100 raw writes, 100 slots
			producers, capacity, perProducer = 1, 100, 5100
		}
		app := &loadAppender{mode: mode}
		// every fourth run: the default range [NONE, MAX) - then NONE, its inclusive lower bound, is an enabled level
		minLevel := log.InfoLevel
		if run%4 == 3 {
			minLevel = log.NoneLevel
		}
		lg := &log.AsyncLogger{
			LoggerBase: log.LoggerBase{Level: log.LevelRange{MinLevel: minLevel, MaxLevel: log.MaxLevel}},
			AppenderRefs: log.AppenderRefs{AppenderRefs: []*log.AppenderRef{{Appender: app,
				Level: log.LevelRange{MinLevel: minLevel, MaxLevel: log.MaxLevel}}}},
			BufferSize: capacity, BufferFullPolicy: policies[pi],
		}
		if rng.Intn(3) == 0 {
			lg.Layout = &log.TextLayout{BaseLayout: log.BaseLayout{FileLineLength: 48}}
		}
		desc := map[string]any{"policy": polName[pi], "cap": capacity, "producers": producers, "per_producer": perProducer, "appender": mode, "layout": lg.Layout != nil}
		if err := lg.Start(); err != nil {
			r.SetInfra("start: %v", err)
			return
		}
		rec := loadRun{Policy: polName[pi], Cap: capacity, Producers: producers, Mode: mode, Submitted: make([][]int64, producers),
			Disabled: []int64{}, Delivered: []int64{}}
		for i := range rec.Submitted {
			rec.Submitted[i] = []int64{} // never null in the dump
		}
		var dmu sync.Mutex
		var wg sync.WaitGroup
		ctx := context.Background()
		_ = ctx
		crashed := int32(0)
		for p := 0; p < producers; p++ {
			wg.Add(1)
			seed := rng.Int63()
			go func(p int, seed int64) {
				defer wg.Done()
				prng := rand.New(rand.NewSource(seed))
				defer func() {
					if x := recover(); x != nil {
						atomic.StoreInt32(&crashed, 1)
						r.Violate("log-panic:async", desc, "producer %d panicked: %v", p, x)
					}
				}()
				for k := 1; k <= perProducer; k++ {
					id := int64(p+1)*1000000 + int64(k)
					switch c := prng.Intn(10); {
					case c == 0 && minLevel == log.NoneLevel: // the lowest enabled level
						e := log.GetEvent()
						e.Level, e.Time, e.Tag = log.NoneLevel, time.Now(), "load"
						e.Fields = []log.Field{log.Int("id", id)}
						lg.Append(e)
						rec.Submitted[p] = append(rec.Submitted[p], id)
					case c == 0: // disabled level
						e := log.GetEvent()
						e.Level = log.DebugLevel
						e.Fields = []log.Field{log.Int("id", id)}
						lg.Append(e)
						dmu.Lock()
						rec.Disabled = append(rec.Disabled, id)
						dmu.Unlock()
					case c <= 2: // raw write
						buf := []byte(fmt.Sprintf("RAW id=%d payload\n", id))
						lg.Write(buf)
						rec.Submitted[p] = append(rec.Submitted[p], id)
					default:
						e := log.GetEvent()
						e.Level = []log.Level{log.InfoLevel, log.WarnLevel, log.ErrorLevel}[prng.Intn(3)]
						e.Time = time.Now()
						e.Tag = "load"
						e.Fields = []log.Field{log.Int("id", id)}
						lg.Append(e)
						rec.Submitted[p] = append(rec.Submitted[p], id)
					}
					if mode == "bursty" && prng.Intn(200) == 0 {
						time.Sleep(200 * time.Microsecond)
					}
				}
			}(p, seed)
		}
		done := make(chan struct{})
		go func() { wg.Wait(); close(done) }()
		select {
		case <-done:
		case <-time.After(60 * time.Second):
			r.Violate("producers-blocked:"+polName[pi], desc, "producers did not finish within 60 s")
			continue
		}
		t0 := time.Now()
		ret, pv := hx.Within(15*time.Second, func() { lg.Stop() })
		rec.StopMs = float64(time.Since(t0).Microseconds()) / 1000
		if !ret || pv != nil {
			r.Violate("stop-failed", desc, "Stop returned=%v panic=%v", ret, pv)
			continue
		}
		// immediately after Stop returned
		app.mu.Lock()
		rec.Delivered = append([]int64{}, app.ids...)
		app.mu.Unlock()
		rec.Discards = lg.GetDiscardCounter()
		r.Eval(int64(producers * perProducer))
		r.NonTrivial(1)
		r.Trace(1)
		checkLoadRun(r, &rec, desc)
		if out != nil && producers*perProducer <= 3000 {
			b, _ := json.Marshal(rec)
			out.Write(append(b, '\n'))
		}
		if run == 4 {
			r.Sample(map[string]any{"run": desc, "delivered": len(rec.Delivered), "discards": rec.Discards, "stop_ms": rec.StopMs})
		}
	}
}

// parkedProducers: the worker is parked in a gated appender and never released while 8 producers
// hammer a full buffer: under the two discard policies every call must return without the appender.
func parkedProducers(r *hx.Result) {
	for _, pol := range []log.BufferFullPolicy{log.BufferFullPolicyDiscard, log.BufferFullPolicyDiscardOldest} {
		name := map[log.BufferFullPolicy]string{log.BufferFullPolicyDiscard: "Discard", log.BufferFullPolicyDiscardOldest: "DiscardOldest"}[pol]
		gate := &sys.RecAppender{Gate: make(chan struct{}), Entered: make(chan int64, 1<<16)}
		lg := &log.AsyncLogger{
			LoggerBase: log.LoggerBase{Level: log.LevelRange{MinLevel: log.InfoLevel, MaxLevel: log.MaxLevel}},
			AppenderRefs: log.AppenderRefs{AppenderRefs: []*log.AppenderRef{{Appender: gate,
				Level: log.LevelRange{MinLevel: log.InfoLevel, MaxLevel: log.MaxLevel}}}},
			BufferSize: 100, BufferFullPolicy: pol,
		}
		if err := lg.Start(); err != nil {
			r.SetInfra("start: %v", err)
			return
		}
		desc := map[string]any{"policy": name, "producers": 8, "worker": "parked for the whole phase"}
		var wg sync.WaitGroup
		submitted := int64(0)
		for p := 0; p < 8; p++ {
			wg.Add(1)
			go func(p int) {
				defer wg.Done()
				for k := 1; k <= 400; k++ {
					id := int64(p+1)*1000000 + int64(k)
					if k%3 == 0 {
						lg.Write([]byte(fmt.Sprintf("RAW id=%d payload\n", id)))
					} else {
						e := log.GetEvent()
						e.Level, e.Time, e.Tag = log.InfoLevel, time.Now(), "load"
						e.Fields = []log.Field{log.Int("id", id)}
						lg.Append(e)
					}
					atomic.AddInt64(&submitted, 1)
				}
			}(p)
		}
		done := make(chan struct{})
		go func() { wg.Wait(); close(done) }()
		blocked := false
		select {
		case <-done:
		case <-time.After(8 * time.Second):
			blocked = true
			r.Violate("producers-blocked:"+name, desc, "with the worker parked, producers under %s did not all return within 8 s (%d of 3200 calls returned)", name, atomic.LoadInt64(&submitted))
		}
		close(gate.Gate) // open for good
		if blocked {
			<-done
		}
		if ret, pv := hx.Within(15*time.Second, func() { lg.Stop() }); !ret || pv != nil {
			r.Violate("stop-failed", desc, "Stop returned=%v panic=%v", ret, pv)
			continue
		}
		got := int64(gate.Len())
		if got+lg.GetDiscardCounter() != 3200 {
			r.Violate("conservation:"+name, desc, "delivered %d + discarded %d != submitted 3200", got, lg.GetDiscardCounter())
		}
		r.Eval(3200)
		r.NonTrivial(1)
	}
}

// gatedLogger builds an asynchronous logger on a gated recording appender, parks the worker inside the appender on
// a first item and fills the buffer to its capacity (100) behind it.  Items are numbered from 1.
func gatedLogger(pol log.BufferFullPolicy) (*log.AsyncLogger, *sys.RecAppender, error) {
	gate := &sys.RecAppender{Gate: make(chan struct{}), Entered: make(chan int64, 1<<16)}
	lg := &log.AsyncLogger{
		LoggerBase: log.LoggerBase{Level: log.LevelRange{MinLevel: log.InfoLevel, MaxLevel: log.MaxLevel}},
		AppenderRefs: log.AppenderRefs{AppenderRefs: []*log.AppenderRef{{Appender: gate,
			Level: log.LevelRange{MinLevel: log.InfoLevel, MaxLevel: log.MaxLevel}}}},
		BufferSize: 100, BufferFullPolicy: pol,
	}
	if err := lg.Start(); err != nil {
		return nil, nil, err
	}
	put := func(id int64) {
		e := log.GetEvent()
		e.Level, e.Time, e.Tag = log.InfoLevel, time.Now(), "load"
		e.Fields = []log.Field{log.Int("id", id)}
		lg.Append(e)
	}
	put(1)
	select {
	case <-gate.Entered: // the worker holds item 1 inside the appender
	case <-time.After(8 * time.Second):
		return nil, nil, fmt.Errorf("the worker did not take the first item")
	}
	for id := int64(2); id <= 101; id++ {
		put(id)
	}
	return lg, gate, nil
}

// arrivalsSurvive: DiscardOldest keeps the arriving item.  The buffer is full of fillers, the worker parked; 12
// producers submit 7 items each at the same time (80 rounds).  Fewer arrivals than fillers: every arrival must be delivered in
// the end, exactly the oldest fillers are gone, and the counter equals the number of arrivals.
func arrivalsSurvive(r *hx.Result) {
	for round := 0; round < 80 && !hx.Stopped(); round++ {
		lg, gate, err := gatedLogger(log.BufferFullPolicyDiscardOldest)
		if err != nil {
			r.SetInfra("arrivalsSurvive: %v", err)
			return
		}
		const P, K = 12, 7
		var wg sync.WaitGroup
		start := make(chan struct{})
		for p := 1; p <= P; p++ {
			wg.Add(1)
			go func(p int) {
				defer wg.Done()
				<-start
				for k := 1; k <= K; k++ {
					id := int64(p)*1000000 + int64(k)
					if k%4 == 0 {
						lg.Write([]byte(fmt.Sprintf("RAW id=%d payload\n", id)))
						continue
					}
					e := log.GetEvent()
					e.Level, e.Time, e.Tag = log.InfoLevel, time.Now(), "load"
					e.Fields = []log.Field{log.Int("id", id)}
					lg.Append(e)
				}
			}(p)
		}
		close(start)
		done := make(chan struct{})
		go func() { wg.Wait(); close(done) }()
		desc := map[string]any{"policy": "DiscardOldest", "fillers": 100, "producers": P, "arrivals_each": K, "round": round}
		select {
		case <-done:
		case <-time.After(8 * time.Second):
			r.Violate("producers-blocked:DiscardOldest", desc, "arrivals on a full buffer did not all return within 8 s")
			close(gate.Gate)
			return
		}
		discards := lg.GetDiscardCounter()
		close(gate.Gate)
		if ret, pv := hx.Within(15*time.Second, func() { lg.Stop() }); !ret || pv != nil {
			r.Violate("stop-failed", desc, "Stop returned=%v panic=%v", ret, pv)
			return
		}
		r.Eval(P * K)
		seen := map[int64]int{}
		for _, rc := range gate.Recs() {
			seen[rc.ID]++
		}
		missing := 0
		for p := 1; p <= P; p++ {
			for k := 1; k <= K; k++ {
				if seen[int64(p)*1000000+int64(k)] != 1 {
					missing++
				}
			}
		}
		keptOld := 0
		for id := int64(2); id <= 101-int64(P*K); id++ { // the oldest fillers behind the held one must be gone
			keptOld += seen[id]
		}
		if missing > 0 || discards != P*K || keptOld > 0 {
			r.Violate("discardoldest-dropped-arrival", desc, "%d of %d arriving items were not delivered, %d of the oldest fillers survived, discard counter %d (want 0, 0, %d)", missing, P*K, keptOld, discards, P*K)
			return
		}
	}
}

// twoLoggers: overflow handling of one asynchronous logger must not depend on another one.  Logger A (Block) is full
// with a producer waiting for space; logger B (a discard policy) is full too: a call on B still returns at once.
func twoLoggers(r *hx.Result) {
	for _, pol := range []log.BufferFullPolicy{log.BufferFullPolicyDiscard, log.BufferFullPolicyDiscardOldest} {
		name := map[log.BufferFullPolicy]string{log.BufferFullPolicyDiscard: "Discard", log.BufferFullPolicyDiscardOldest: "DiscardOldest"}[pol]
		a, gateA, err := gatedLogger(log.BufferFullPolicyBlock)
		if err != nil {
			r.SetInfra("twoLoggers: %v", err)
			return
		}
		b, gateB, err := gatedLogger(pol)
		if err != nil {
			r.SetInfra("twoLoggers: %v", err)
			return
		}
		waiting := make(chan struct{})
		go func() { // blocks in A's overflow path until A's worker is released
			e := log.GetEvent()
			e.Level, e.Time, e.Tag = log.InfoLevel, time.Now(), "load"
			e.Fields = []log.Field{log.Int("id", 102)}
			a.Append(e)
			close(waiting)
		}()
		time.Sleep(100 * time.Millisecond)
		desc := map[string]any{"logger_A": "Block, full, one producer waiting", "logger_B": name + ", full"}
		ret, pv := hx.Within(5*time.Second, func() {
			e := log.GetEvent()
			e.Level, e.Time, e.Tag = log.InfoLevel, time.Now(), "load"
			e.Fields = []log.Field{log.Int("id", 102)}
			b.Append(e)
			b.Write([]byte("RAW id=103 payload\n"))
		})
		r.Eval(2)
		if !ret || pv != nil {
			r.Violate("call-blocked-by-other-logger:"+name, desc, "a call on logger B returned=%v panic=%v while a producer of logger A waits for space", ret, pv)
		}
		close(gateA.Gate)
		close(gateB.Gate)
		select {
		case <-waiting:
		case <-time.After(8 * time.Second):
			r.Violate("producers-blocked:Block", desc, "logger A's waiting producer did not return after the worker was released")
			return
		}
		for _, lg := range []*log.AsyncLogger{a, b} {
			if ret, pv := hx.Within(15*time.Second, func() { lg.Stop() }); !ret || pv != nil {
				r.Violate("stop-failed", desc, "Stop returned=%v panic=%v", ret, pv)
				return
			}
		}
	}
}

// rawToEveryRef: raw writes carry no level; after Stop each one has been handed to every appender of the logger exactly
// once (or counted), whatever level ranges the references have - here [INFO,ERROR) and [ERROR,MAX), the shape the
// rolling-file logger uses for its separate .wf file.
func rawToEveryRef(r *hx.Result) {
	for _, pol := range []log.BufferFullPolicy{log.BufferFullPolicyBlock, log.BufferFullPolicyDiscard, log.BufferFullPolicyDiscardOldest} {
		lo, hi := &loadAppender{mode: "fast"}, &loadAppender{mode: "fast"}
		lg := &log.AsyncLogger{
			LoggerBase: log.LoggerBase{Level: log.LevelRange{MinLevel: log.InfoLevel, MaxLevel: log.MaxLevel}},
			AppenderRefs: log.AppenderRefs{AppenderRefs: []*log.AppenderRef{
				{Appender: lo, Level: log.LevelRange{MinLevel: log.InfoLevel, MaxLevel: log.ErrorLevel}},
				{Appender: hi, Level: log.LevelRange{MinLevel: log.ErrorLevel, MaxLevel: log.MaxLevel}}}},
			BufferSize: 1000, BufferFullPolicy: pol,
		}
		if err := lg.Start(); err != nil {
			r.SetInfra("rawToEveryRef: %v", err)
			return
		}
		for id := int64(1); id <= 60; id++ {
			switch id % 3 {
			case 0:
				lg.Write([]byte(fmt.Sprintf("RAW id=%d payload\n", id)))
			default:
				e := log.GetEvent()
				e.Level, e.Time, e.Tag = []log.Level{log.InfoLevel, log.ErrorLevel}[id%2], time.Now(), "load"
				e.Fields = []log.Field{log.Int("id", id)}
				lg.Append(e)
			}
		}
		desc := map[string]any{"references": "[INFO,ERROR) and [ERROR,MAX)", "items": "40 events, 20 raw writes, buffer far from full"}
		if ret, pv := hx.Within(15*time.Second, func() { lg.Stop() }); !ret || pv != nil {
			r.Violate("stop-failed", desc, "Stop returned=%v panic=%v", ret, pv)
			return
		}
		r.Eval(60)
		cnt := func(a *loadAppender) map[int64]int {
			m := map[int64]int{}
			a.mu.Lock()
			for _, id := range a.ids {
				m[id]++
			}
			a.mu.Unlock()
			return m
		}
		cl, ch := cnt(lo), cnt(hi)
		for id := int64(1); id <= 60; id++ {
			wl, wh := 1, 1 // raw: both
			if id%3 != 0 {
				wl, wh = 1, 0
				if id%2 == 1 {
					wl, wh = 0, 1
				}
			}
			if cl[id] != wl || ch[id] != wh {
				r.Violate("conservation:per-reference", desc, "item %d (%s): delivered %d x to the [INFO,ERROR) appender and %d x to the [ERROR,MAX) one, want %d / %d; discard counter %d",
					id, map[bool]string{true: "raw write", false: "event"}[id%3 == 0], cl[id], ch[id], wl, wh, lg.GetDiscardCounter())
				break
			}
		}
	}
}

// slowDrain: Stop returns only when the backlog has been delivered, however long the appender takes (90 items at
// 40 ms each: 3.6 s).
func slowDrain(r *hx.Result) {
	app := &loadAppender{mode: "fixed40ms"}
	lg := &log.AsyncLogger{
		LoggerBase: log.LoggerBase{Level: log.LevelRange{MinLevel: log.InfoLevel, MaxLevel: log.MaxLevel}},
		AppenderRefs: log.AppenderRefs{AppenderRefs: []*log.AppenderRef{{Appender: app,
			Level: log.LevelRange{MinLevel: log.InfoLevel, MaxLevel: log.MaxLevel}}}},
		BufferSize: 100, BufferFullPolicy: log.BufferFullPolicyBlock,
	}
	if err := lg.Start(); err != nil {
		r.SetInfra("slowDrain: %v", err)
		return
	}
	for id := int64(1); id <= 90; id++ {
		e := log.GetEvent()
		e.Level, e.Time, e.Tag = log.InfoLevel, time.Now(), "load"
		e.Fields = []log.Field{log.Int("id", id)}
		lg.Append(e)
	}
	desc := map[string]any{"policy": "Block", "backlog_at_stop": "about 90 items x 40 ms"}
	t0 := time.Now()
	ret, pv := hx.Within(30*time.Second, func() { lg.Stop() })
	if !ret || pv != nil {
		r.Violate("stop-failed", desc, "Stop returned=%v panic=%v", ret, pv)
		return
	}
	app.mu.Lock()
	n := len(app.ids)
	app.mu.Unlock()
	r.Eval(90)
	if n != 90 || lg.GetDiscardCounter() != 0 {
		r.Violate("conservation:Block", map[string]any{"policy": "Block", "backlog_at_stop": "about 90 items x 40 ms", "stop_took_ms": time.Since(t0).Milliseconds()},
			"when Stop returned (after %d ms) %d of 90 submitted items had been delivered, discard counter %d", time.Since(t0).Milliseconds(), n, lg.GetDiscardCounter())
	}
}

// emptyRawInTheMiddle: a raw write of no bytes (nil or an empty slice) is an item like any other: it is handed to
// the appender once, in order, and everything submitted after it is delivered too - under every policy.
func emptyRawInTheMiddle(r *hx.Result) {
	for _, pol := range []log.BufferFullPolicy{log.BufferFullPolicyBlock, log.BufferFullPolicyDiscard, log.BufferFullPolicyDiscardOldest} {
		for variant, empty := range [][]byte{nil, {}, make([]byte, 0, 16)} {
			rec := &sys.RecAppender{}
			lg := &log.AsyncLogger{
				LoggerBase: log.LoggerBase{Level: log.LevelRange{MinLevel: log.InfoLevel, MaxLevel: log.MaxLevel}},
				AppenderRefs: log.AppenderRefs{AppenderRefs: []*log.AppenderRef{{Appender: rec,
					Level: log.LevelRange{MinLevel: log.InfoLevel, MaxLevel: log.MaxLevel}}}},
				BufferSize: 100, BufferFullPolicy: pol,
			}
			if err := lg.Start(); err != nil {
				r.SetInfra("emptyRawInTheMiddle: %v", err)
				return
			}
			desc := map[string]any{"policy": fmt.Sprint(pol), "sequence": "event 1, raw A, empty raw write, event 2, raw B, empty raw write, event 3", "empty_variant": variant}
			put := func(id int64) {
				e := log.GetEvent()
				e.Level, e.Time, e.Tag = log.InfoLevel, time.Now(), "load"
				e.Fields = []log.Field{log.Int("id", id)}
				lg.Append(e)
			}
			ok, pv := hx.Within(10e9, func() {
				put(1)
				lg.Write([]byte("raw-A\n"))
				lg.Write(empty)
				put(2)
				lg.Write([]byte("raw-B\n"))
				lg.Write(empty)
				put(3)
			})
			if !ok || pv != nil {
				r.Violate("producers-blocked:empty-raw", desc, "submitting seven items into an empty buffer: returned=%v panic=%v", ok, pv)
				continue
			}
			if ok, pv := hx.Within(10e9, func() { lg.Stop() }); !ok || pv != nil {
				r.Violate("stop-failed", desc, "Stop returned=%v panic=%v", ok, pv)
				continue
			}
			r.Eval(7)
			var got []string
			for _, rc := range rec.Recs() {
				if rc.IsWrite {
					got = append(got, fmt.Sprintf("raw(%q)", rc.Raw))
				} else {
					got = append(got, fmt.Sprintf("event(%d)", rc.ID))
				}
			}
			want := []string{"event(1)", `raw("raw-A\n")`, `raw("")`, "event(2)", `raw("raw-B\n")`, `raw("")`, "event(3)"}
			if fmt.Sprint(got) != fmt.Sprint(want) || lg.GetDiscardCounter() != 0 {
				r.Violate("delivery:empty-raw", desc, "delivered %v (discard counter %d), want %v", got, lg.GetDiscardCounter(), want)
			}
		}
	}
}

// blockWaitsAsLongAsItTakes: under Block a call into a full buffer waits for space however long the appender stalls
// (here 2.5 s): it has not returned after 2 s, nothing is counted as discarded, and the item is delivered afterwards.
func blockWaitsAsLongAsItTakes(r *hx.Result) {
	lg, gate, err := gatedLogger(log.BufferFullPolicyBlock)
	if err != nil {
		r.SetInfra("blockWaitsAsLongAsItTakes: %v", err)
		return
	}
	desc := map[string]any{"policy": "Block", "buffer": "100 of 100 slots used, worker inside the appender for 2.5 s", "then": "one event and one raw write are submitted"}
	var evDone, rawDone int32
	go func() {
		e := log.GetEvent()
		e.Level, e.Time, e.Tag = log.InfoLevel, time.Now(), "load"
		e.Fields = []log.Field{log.Int("id", 500)}
		lg.Append(e)
		atomic.StoreInt32(&evDone, 1)
	}()
	go func() {
		lg.Write([]byte("raw-late\n"))
		atomic.StoreInt32(&rawDone, 1)
	}()
	time.Sleep(2 * time.Second)
	early := atomic.LoadInt32(&evDone) + atomic.LoadInt32(&rawDone)
	cnt := lg.GetDiscardCounter()
	time.Sleep(500 * time.Millisecond)
	close(gate.Gate)
	if ok, pv := hx.Within(15e9, func() { lg.Stop() }); !ok || pv != nil {
		r.Violate("stop-failed", desc, "Stop returned=%v panic=%v", ok, pv)
		return
	}
	r.Eval(2)
	nEv, nRaw := 0, 0
	for _, rc := range gate.Recs() {
		if rc.ID == 500 && !rc.IsWrite {
			nEv++
		}
		if rc.IsWrite && string(rc.Raw) == "raw-late\n" {
			nRaw++
		}
	}
	if early != 0 || cnt != 0 || nEv != 1 || nRaw != 1 || lg.GetDiscardCounter() != 0 {
		r.Violate("block-gave-up", desc, "after 2 s of a stalled appender %d of the 2 blocked calls had returned and the discard counter was %d; in the end the event was delivered %d x, the raw write %d x, discard counter %d",
			early, cnt, nEv, nRaw, lg.GetDiscardCounter())
	}
}

// countingAppender only counts what it is handed.
type countingAppender struct {
	log.AppenderBase
	n int64
}

func (a *countingAppender) Start() error      { return nil }
func (a *countingAppender) Stop()             {}
func (a *countingAppender) Append(*log.Event) { atomic.AddInt64(&a.n, 1) }
func (a *countingAppender) Write(b []byte)    { atomic.AddInt64(&a.n, 1) }

// overflowUnderDrain: the buffer is full most of the time while the worker drains it as fast as it can (an appender
// that only counts): eight producers submit 60000 items each (events and raw writes).  Whatever the interleaving of a
// failed non-blocking send with the worker's next receive, every item ends up delivered or counted as discarded - not
// both, not neither.
func overflowUnderDrain(r *hx.Result) {
	for _, pol := range []log.BufferFullPolicy{log.BufferFullPolicyDiscard, log.BufferFullPolicyDiscardOldest} {
		app := &countingAppender{}
		lg := &log.AsyncLogger{
			LoggerBase: log.LoggerBase{Level: log.LevelRange{MinLevel: log.InfoLevel, MaxLevel: log.MaxLevel}},
			AppenderRefs: log.AppenderRefs{AppenderRefs: []*log.AppenderRef{{Appender: app,
				Level: log.LevelRange{MinLevel: log.InfoLevel, MaxLevel: log.MaxLevel}}}},
			BufferSize: 100, BufferFullPolicy: pol,
		}
		if err := lg.Start(); err != nil {
			r.SetInfra("overflowUnderDrain: %v", err)
			return
		}
		const producers, each = 8, 60000
		var wg sync.WaitGroup
		raw := []byte("raw item\n")
		ok, pv := hx.Within(240*time.Second, func() {
			for w := 0; w < producers; w++ {
				wg.Add(1)
				go func(w int) {
					defer wg.Done()
					for i := 0; i < each; i++ {
						if (w+i)%4 == 0 {
							lg.Write(raw)
							continue
						}
						e := log.GetEvent()
						e.Level, e.Tag = log.InfoLevel, "load"
						lg.Append(e)
					}
				}(w)
			}
			wg.Wait()
			lg.Stop()
		})
		desc := map[string]any{"policy": fmt.Sprint(pol), "producers": producers, "items_each": each, "appender": "counts only"}
		if pv != nil {
			r.Violate("stop-failed", desc, "producers and Stop panicked: %v", pv)
			return
		}
		if !ok {
			// half a million channel operations take a second or two; four minutes mean the machine is not usable for
			// this run (a Stop that never returns is the subject of the gated scenarios, not of this one)
			r.SetInfra("overflowUnderDrain: 480000 submissions and Stop did not finish within 240 s")
			return
		}
		r.Eval(producers * each)
		delivered, discarded := atomic.LoadInt64(&app.n), lg.GetDiscardCounter()
		if delivered+discarded != producers*each {
			r.Violate("conservation:"+fmt.Sprint(pol), desc, "submitted %d, delivered %d, discard counter %d (sum %d)", producers*each, delivered, discarded, delivered+discarded)
		}
	}
}

func checkLoadRun(r *hx.Result, rec *loadRun, desc any) {
	seen := map[int64]int{}
	for _, id := range rec.Delivered {
		seen[id]++
	}
	submitted := 0
	isSub := map[int64]bool{}
	for _, s := range rec.Submitted {
		submitted += len(s)
		for _, id := range s {
			isSub[id] = true
		}
	}
	for id, n := range seen {
		if n > 1 {
			r.Violate("delivered-twice", desc, "item %d delivered %d times", id, n)
		}
		if !isSub[id] {
			r.Violate("foreign-or-disabled-delivered", desc, "item %d delivered but not submitted at an enabled level", id)
		}
	}
	if int64(len(rec.Delivered))+rec.Discards != int64(submitted) {
		r.Violate("conservation:"+rec.Policy, desc, "after Stop: delivered %d + discarded %d != submitted %d", len(rec.Delivered), rec.Discards, submitted)
	}
	if rec.Policy == "Block" && rec.Discards != 0 {
		r.Violate("block-discards", desc, "policy Block but discard counter is %d", rec.Discards)
	}
	last := map[int64]int64{}
	for _, id := range rec.Delivered {
		p := id / 1000000
		if id <= last[p] {
			r.Violate("fifo-order", desc, "producer %d: item %d delivered after %d", p, id, last[p])
			break
		}
		last[p] = id
	}
}
