package main

// C04 / C05 / C06, direction B: randomized multi-producer runs of a real AsyncLogger (no gate, real
// concurrency).  Each run is recorded as one history (per-producer submissions, delivery order at
// the appender, discard counter read after Stop, Stop latency) and written as ndjson; TLC evaluates
// the specification's Conservation / ProducerFIFO / policy operators on every recorded history
// (spec/AsyncHistory.tla).  The same laws are also evaluated here for the larger runs.

import (
	"context"
	"encoding/json"
	"fmt"
	"math/rand"
	"os"
	"sync"
	"sync/atomic"
	"time"

	"github.com/go-spring/log"

	"verifharness/hx"
	"verifharness/sys"
)

func init() { commands["asyncload"] = cmdAsyncLoad }

// loadAppender records ids in delivery order; optional slowness.
type loadAppender struct {
	log.AppenderBase
	mu    sync.Mutex
	ids   []int64
	mode  string
	n     int64
	stops int
}

func (a *loadAppender) Start() error { return nil }
func (a *loadAppender) Stop()        { a.mu.Lock(); a.stops++; a.mu.Unlock() }
func (a *loadAppender) pace() {
	k := atomic.AddInt64(&a.n, 1)
	switch a.mode {
	case "slow":
		time.Sleep(20 * time.Microsecond)
	case "bursty":
		if k%97 == 0 {
			time.Sleep(2 * time.Millisecond)
		}
	}
}
func (a *loadAppender) Append(e *log.Event) {
	id := sys.EventID(e)
	a.pace()
	a.mu.Lock()
	a.ids = append(a.ids, id)
	a.mu.Unlock()
}
func (a *loadAppender) Write(b []byte) {
	id, _ := sys.ParseLine(b)
	a.pace()
	a.mu.Lock()
	a.ids = append(a.ids, id)
	a.mu.Unlock()
}

type loadRun struct {
	Policy    string    `json:"policy"`
	Cap       int       `json:"cap"`
	Producers int       `json:"producers"`
	Mode      string    `json:"mode"`
	Submitted [][]int64 `json:"submitted"` // per producer, enabled items in call order
	Disabled  []int64   `json:"disabled"`
	Delivered []int64   `json:"delivered"`
	Discards  int64     `json:"discards"`
	StopMs    float64   `json:"stop_ms"`
}

func cmdAsyncLoad(f hx.Flags, r *hx.Result) {
	rng := hx.Rand(4)
	sys.InstallConsole()
	runs := f.Int("runs", 36)
	if hx.Thorough() {
		runs = 240
	}
	var out *os.File
	if p := f.Str("dump", ""); p != "" {
		var err error
		if out, err = os.Create(p); err != nil {
			r.SetInfra("create dump: %v", err)
			return
		}
		defer out.Close()
	}
	policies := []log.BufferFullPolicy{log.BufferFullPolicyBlock, log.BufferFullPolicyDiscard, log.BufferFullPolicyDiscardOldest}
	polName := []string{"Block", "Discard", "DiscardOldest"}
	modes := []string{"fast", "slow", "bursty"}
	parkedProducers(r)
	for run := 0; run < runs && !hx.Stopped(); run++ {
		pi := run % 3
		mode := modes[(run/3)%3]
		producers := []int{1, 2, 3, 4, 8, 16, 32}[rng.Intn(7)]
		capacity := []int{100, 100, 128, 500, 1000}[rng.Intn(5)]
		perProducer := 40 + rng.Intn(400)
		if run == 0 || run == 1 || run == 2 { // the suite's own shape: 5000 appends + 100 raw writes, 100 slots
			producers, capacity, perProducer = 1, 100, 5100
		}
		app := &loadAppender{mode: mode}
		lg := &log.AsyncLogger{
			LoggerBase: log.LoggerBase{Level: log.LevelRange{MinLevel: log.InfoLevel, MaxLevel: log.MaxLevel}},
			AppenderRefs: log.AppenderRefs{AppenderRefs: []*log.AppenderRef{{Appender: app,
				Level: log.LevelRange{MinLevel: log.InfoLevel, MaxLevel: log.MaxLevel}}}},
			BufferSize: capacity, BufferFullPolicy: policies[pi],
		}
		if rng.Intn(3) == 0 {
			lg.Layout = &log.TextLayout{BaseLayout: log.BaseLayout{FileLineLength: 48}}
		}
		desc := map[string]any{"policy": polName[pi], "cap": capacity, "producers": producers, "per_producer": perProducer, "appender": mode, "layout": lg.Layout != nil}
		if err := lg.Start(); err != nil {
			r.SetInfra("start: %v", err)
			return
		}
		rec := loadRun{Policy: polName[pi], Cap: capacity, Producers: producers, Mode: mode, Submitted: make([][]int64, producers)}
		var dmu sync.Mutex
		var wg sync.WaitGroup
		ctx := context.Background()
		_ = ctx
		crashed := int32(0)
		for p := 0; p < producers; p++ {
			wg.Add(1)
			seed := rng.Int63()
			go func(p int, seed int64) {
				defer wg.Done()
				prng := rand.New(rand.NewSource(seed))
				defer func() {
					if x := recover(); x != nil {
						atomic.StoreInt32(&crashed, 1)
						r.Violate("log-panic:async", desc, "producer %d panicked: %v", p, x)
					}
				}()
				for k := 1; k <= perProducer; k++ {
					id := int64(p+1)*1000000 + int64(k)
					switch c := prng.Intn(10); {
					case c == 0: // disabled level
						e := log.GetEvent()
						e.Level = log.DebugLevel
						e.Fields = []log.Field{log.Int("id", id)}
						lg.Append(e)
						dmu.Lock()
						rec.Disabled = append(rec.Disabled, id)
						dmu.Unlock()
					case c <= 2: // raw write
						buf := []byte(fmt.Sprintf("RAW id=%d payload\n", id))
						lg.Write(buf)
						rec.Submitted[p] = append(rec.Submitted[p], id)
					default:
						e := log.GetEvent()
						e.Level = []log.Level{log.InfoLevel, log.WarnLevel, log.ErrorLevel}[prng.Intn(3)]
						e.Time = time.Now()
						e.Tag = "load"
						e.Fields = []log.Field{log.Int("id", id)}
						lg.Append(e)
						rec.Submitted[p] = append(rec.Submitted[p], id)
					}
					if mode == "bursty" && prng.Intn(200) == 0 {
						time.Sleep(200 * time.Microsecond)
					}
				}
			}(p, seed)
		}
		done := make(chan struct{})
		go func() { wg.Wait(); close(done) }()
		select {
		case <-done:
		case <-time.After(60 * time.Second):
			r.Violate("producers-blocked:"+polName[pi], desc, "producers did not finish within 60 s")
			continue
		}
		t0 := time.Now()
		ret, pv := hx.Within(15*time.Second, func() { lg.Stop() })
		rec.StopMs = float64(time.Since(t0).Microseconds()) / 1000
		if !ret || pv != nil {
			r.Violate("stop-failed", desc, "Stop returned=%v panic=%v", ret, pv)
			continue
		}
		// immediately after Stop returned
		app.mu.Lock()
		rec.Delivered = append([]int64(nil), app.ids...)
		app.mu.Unlock()
		rec.Discards = lg.GetDiscardCounter()
		r.Eval(int64(producers * perProducer))
		r.NonTrivial(1)
		r.Trace(1)
		checkLoadRun(r, &rec, desc)
		if out != nil && producers*perProducer <= 3000 {
			b, _ := json.Marshal(rec)
			out.Write(append(b, '\n'))
		}
		if run == 4 {
			r.Sample(map[string]any{"run": desc, "delivered": len(rec.Delivered), "discards": rec.Discards, "stop_ms": rec.StopMs})
		}
	}
}

// parkedProducers: the worker is parked in a gated appender and never released while 8 producers
// hammer a full buffer: under the two discard policies every call must return without the appender.
func parkedProducers(r *hx.Result) {
	for _, pol := range []log.BufferFullPolicy{log.BufferFullPolicyDiscard, log.BufferFullPolicyDiscardOldest} {
		name := map[log.BufferFullPolicy]string{log.BufferFullPolicyDiscard: "Discard", log.BufferFullPolicyDiscardOldest: "DiscardOldest"}[pol]
		gate := &sys.RecAppender{Gate: make(chan struct{}), Entered: make(chan int64, 1<<16)}
		lg := &log.AsyncLogger{
			LoggerBase: log.LoggerBase{Level: log.LevelRange{MinLevel: log.InfoLevel, MaxLevel: log.MaxLevel}},
			AppenderRefs: log.AppenderRefs{AppenderRefs: []*log.AppenderRef{{Appender: gate,
				Level: log.LevelRange{MinLevel: log.InfoLevel, MaxLevel: log.MaxLevel}}}},
			BufferSize: 100, BufferFullPolicy: pol,
		}
		if err := lg.Start(); err != nil {
			r.SetInfra("start: %v", err)
			return
		}
		desc := map[string]any{"policy": name, "producers": 8, "worker": "parked for the whole phase"}
		var wg sync.WaitGroup
		submitted := int64(0)
		for p := 0; p < 8; p++ {
			wg.Add(1)
			go func(p int) {
				defer wg.Done()
				for k := 1; k <= 400; k++ {
					id := int64(p+1)*1000000 + int64(k)
					if k%3 == 0 {
						lg.Write([]byte(fmt.Sprintf("RAW id=%d payload\n", id)))
					} else {
						e := log.GetEvent()
						e.Level, e.Time, e.Tag = log.InfoLevel, time.Now(), "load"
						e.Fields = []log.Field{log.Int("id", id)}
						lg.Append(e)
					}
					atomic.AddInt64(&submitted, 1)
				}
			}(p)
		}
		done := make(chan struct{})
		go func() { wg.Wait(); close(done) }()
		blocked := false
		select {
		case <-done:
		case <-time.After(8 * time.Second):
			blocked = true
			r.Violate("producers-blocked:"+name, desc, "with the worker parked, producers under %s did not all return within 8 s (%d of 3200 calls returned)", name, atomic.LoadInt64(&submitted))
		}
		close(gate.Gate) // open for good
		if blocked {
			<-done
		}
		if ret, pv := hx.Within(15*time.Second, func() { lg.Stop() }); !ret || pv != nil {
			r.Violate("stop-failed", desc, "Stop returned=%v panic=%v", ret, pv)
			continue
		}
		got := int64(gate.Len())
		if got+lg.GetDiscardCounter() != 3200 {
			r.Violate("conservation:"+name, desc, "delivered %d + discarded %d != submitted 3200", got, lg.GetDiscardCounter())
		}
		r.Eval(3200)
		r.NonTrivial(1)
	}
}

func checkLoadRun(r *hx.Result, rec *loadRun, desc any) {
	seen := map[int64]int{}
	for _, id := range rec.Delivered {
		seen[id]++
	}
	submitted := 0
	isSub := map[int64]bool{}
	for _, s := range rec.Submitted {
		submitted += len(s)
		for _, id := range s {
			isSub[id] = true
		}
	}
	for id, n := range seen {
		if n > 1 {
			r.Violate("delivered-twice", desc, "item %d delivered %d times", id, n)
		}
		if !isSub[id] {
			r.Violate("foreign-or-disabled-delivered", desc, "item %d delivered but not submitted at an enabled level", id)
		}
	}
	if int64(len(rec.Delivered))+rec.Discards != int64(submitted) {
		r.Violate("conservation:"+rec.Policy, desc, "after Stop: delivered %d + discarded %d != submitted %d", len(rec.Delivered), rec.Discards, submitted)
	}
	if rec.Policy == "Block" && rec.Discards != 0 {
		r.Violate("block-discards", desc, "policy Block but discard counter is %d", rec.Discards)
	}
	last := map[int64]int64{}
	for _, id := range rec.Delivered {
		p := id / 1000000
		if id <= last[p] {
			r.Violate("fifo-order", desc, "producer %d: item %d delivered after %d", p, id, last[p])
			break
		}
		last[p] = id
	}
}
