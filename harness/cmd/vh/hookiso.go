package main

// C10 (record content under queueing): an asynchronous logger holds event 1 inside a gated
// appender while events 2 and 3 are logged; every record must still show its own context fields
// followed by its own fields, although the context hook hands out slices over one shared array
// with spare capacity.  Deterministic: the worker is parked by the gate, no timing involved.

import (
	"context"
	"fmt"
	"time"

	"github.com/go-spring/log"

	"verifharness/hx"
	"verifharness/sys"
)

func init() { commands["hookiso"] = cmdHookIso }

func cmdHookIso(f hx.Flags, r *hx.Result) {
	sys.InstallConsole()
	for round := 0; round < 6; round++ {
		log.Destroy()
		log.VerifReset()
		sys.ResetAppenders()
		var shared [8]log.Field
		calls := 0
		log.TimeNow, log.StringFromContext = nil, nil
		log.FieldsFromContext = func(ctx context.Context) []log.Field {
			calls++
			shared[0], shared[1] = log.String("ck1", "v"), log.Int("ck2", int64(calls))
			return shared[:2:8]
		}
		tag := log.RegisterTag("iso_tag")
		gate := &sys.RecAppender{Gate: make(chan struct{}), Entered: make(chan int64, 16)}
		sys.GateNext["recA1"] = gate
		cfg := sys.Cfg{}
		cfg.AddRec("recA1")
		cfg.AddLogger("lg", "AsyncLogger", "", "iso_tag", []sys.Ref{{Ref: "recA1"}}, round%2 == 0,
			map[string]string{"bufferSize": "128", "bufferFullPolicy": "Block"})
		if err := log.Refresh(cfg.Map(nil)); err != nil {
			r.SetInfra("hookiso refresh: %v", err)
			return
		}
		delete(sys.GateNext, "recA1")
		ctx := context.Background()
		desc := map[string]any{"round": round}
		call := func(id int64) {
			switch (round + int(id)) % 3 {
			case 0:
				log.Info(ctx, tag, log.Int("id", id), log.String("own", "x"))
			case 1:
				log.Error(ctx, tag, log.Int("id", id), log.String("own", "x"))
			default:
				log.Record(ctx, log.WarnLevel, tag, 1, log.Int("id", id), log.String("own", "x"))
			}
		}
		call(1)
		select {
		case <-gate.Entered: // the worker is now parked inside the appender holding event 1
		case <-time.After(5 * time.Second):
			r.Violate("async-not-delivering", desc, "the worker never handed event 1 to the appender")
			return
		}
		call(2)
		call(3)
		go func() {
			for i := 0; i < 3; i++ {
				gate.Gate <- struct{}{}
			}
		}()
		if ret, p := hx.Within(10*time.Second, func() { log.Destroy() }); !ret || p != nil {
			r.Violate("destroy-failed:hookiso", desc, "Destroy returned=%v panic=%v", ret, p)
			return
		}
		r.Eval(3)
		recs := sys.Appender("recA1").Recs()
		ids := []int64{}
		for _, rc := range recs {
			ids = append(ids, rc.ID)
			if len(rc.Keys) != 4 || rc.Keys[0] != "ck1" || rc.Keys[1] != "ck2" || rc.Keys[2] != "id" || rc.Keys[3] != "own" {
				r.Violate("record-ctxfields:queued", desc, "record %d has keys %v, want [ck1 ck2 id own]", rc.ID, rc.Keys)
			}
		}
		if fmt.Sprint(ids) != "[1 2 3]" {
			r.Violate("record-ctxfields:queued", desc, "records carry ids %v, want [1 2 3]: a queued event was changed by a later call", ids)
		}
		if calls != 3 {
			r.Violate("hook-count:fields:emitted", desc, "fields hook invoked %d times for 3 emitted events", calls)
		}
		r.NonTrivial(1)
	}
	r.Sample("event 1 parked in a gated appender while events 2,3 are logged; hook returns shared[:2:8]")
	log.FieldsFromContext = nil
	log.Destroy()
	log.VerifReset()
}
