package main

// C19 (second sentence) - replays the histories of spec/SinkFaults.tla on real File / Console /
// RollingFile appenders whose target is healthy, failing (every write is rejected) or missing:
// every operation must return (ok or error), never panic or block; while healthy and started each
// Append / Write adds exactly one line to the target.

import (
	"context"
	"encoding/json"
	"errors"
	"fmt"
	"io"
	"net"
	"os"
	"path/filepath"
	"strings"
	"sync"
	"sync/atomic"
	"syscall"
	"time"

	"github.com/go-spring/log"

	"verifharness/hx"
	"verifharness/sys"
)

func init() { commands["sinkfaults"] = cmdSinkFaults }

type sfOp struct {
	Op  string `json:"op"`
	Res string `json:"res"`
	Del int    `json:"del"`
}

type sfCase struct {
	Kind    string `json:"kind"`
	Target0 string `json:"target0"`
	Hist    []sfOp `json:"hist"`
}

type flakyWriter struct {
	fail bool
	buf  strings.Builder
}

func (w *flakyWriter) Write(b []byte) (int, error) {
	if w.fail {
		return 0, errors.New("stream closed")
	}
	return w.buf.Write(b)
}

// asyncRotationFailure: a rolling appender behind an asynchronous root logger (policy Block) whose queue is full when
// a rotation fails.  The failure may be reported anywhere - but not in a way that needs room in that very queue: the
// worker goes on, log calls return, Destroy returns, and the accepted events are in the file the appender kept.
func asyncRotationFailure(r *hx.Result, tmp string) {
	sys.InstallConsole()
	dir := filepath.Join(tmp, "arf")
	away := dir + ".away"
	_ = os.MkdirAll(dir, 0o755)
	defer os.RemoveAll(dir)
	defer os.RemoveAll(away)
	log.Destroy() // (no registry reset: the library's own tags stay registered and are bound by Refresh like any other)
	sys.ResetAppenders()
	log.RegisterTimeRotation("arfh", log.TimeRotation{Interval: time.Hour})
	var mu sync.Mutex
	now := time.Date(2036, 1, 1, 10, 0, 0, 0, time.UTC)
	log.VerifNow = func(time.Time) time.Time { mu.Lock(); defer mu.Unlock(); return now }
	park := make(chan struct{})
	var parked atomic.Bool
	entered := make(chan struct{}, 1)
	log.VerifRoll = func(_ *log.RollingFileAppender, p int) {
		if p == 22 && parked.CompareAndSwap(false, true) { // the worker, after its first write
			entered <- struct{}{}
			<-park
		}
	}
	defer func() { log.VerifNow, log.VerifRoll = nil, nil }()
	tag := log.RegisterTag("arf_tag")
	cfg := sys.Cfg{}
	cfg["appender.roll.type"] = "RollingFile"
	cfg["appender.roll.fileDir"], cfg["appender.roll.fileName"] = dir, "a.log"
	cfg["appender.roll.rotation"], cfg["appender.roll.maxAge"] = "arfh", "100"
	cfg.AddLogger("root", "AsyncLogger", "", "\x00", []sys.Ref{{Ref: "roll"}}, false, map[string]string{"bufferSize": "100", "bufferFullPolicy": "Block"})
	if err := log.Refresh(cfg.Map(nil)); err != nil {
		r.SetInfra("asyncRotationFailure refresh: %v", err)
		return
	}
	ctx := context.Background()
	desc := map[string]any{"logger": "root = AsyncLogger{Block, 100 slots} -> RollingFile appender", "sequence": "queue full, directory away, interval boundary, worker continues"}
	log.Info(ctx, tag, log.Int("id", 1))
	select {
	case <-entered:
	case <-time.After(8 * time.Second):
		r.SetInfra("asyncRotationFailure: the worker did not reach the appender")
		return
	}
	for id := int64(2); id <= 101; id++ {
		log.Info(ctx, tag, log.Int("id", id)) // the queue is full now
	}
	if err := os.Rename(dir, away); err != nil {
		r.SetInfra("rename: %v", err)
		return
	}
	mu.Lock()
	now = now.Add(time.Hour)
	mu.Unlock()
	close(park)
	ret, p := hx.Within(10*time.Second, func() {
		log.Info(ctx, tag, log.Int("id", 102))
		log.Destroy()
	})
	_ = os.Rename(away, dir)
	r.Eval(102)
	if !ret || p != nil {
		r.Violate("blocked:async-rotation-failure", desc, "a log call and Destroy after the failed rotation: returned=%v panic=%v", ret, p)
		return
	}
	seen := map[int64]int{}
	ents, _ := os.ReadDir(dir)
	for _, e := range ents {
		b, _ := os.ReadFile(filepath.Join(dir, e.Name()))
		for _, line := range strings.Split(string(b), "\n") {
			if id, _ := sys.ParseLine([]byte(line)); id > 0 {
				seen[id]++
			}
		}
	}
	for id := int64(1); id <= 102; id++ {
		if seen[id] != 1 {
			r.Violate("sink-delivery:async-rotation-failure", desc, "event %d is in the kept file %d times (files: %d)", id, seen[id], len(ents))
			return
		}
	}
}

func cmdSinkFaults(f hx.Flags, r *hx.Result) {
	tmp, err := os.MkdirTemp(os.Getenv("VERIF_SCRATCH"), "sk-")
	if err != nil {
		r.SetInfra("mkdtemp: %v", err)
		return
	}
	defer os.RemoveAll(tmp)
	defer asyncRotationFailure(r, tmp)
	defer creationFailureKinds(r, tmp)
	defer siblingAfterOutage(r, tmp)
	defer quietSiblingAndOutage(r, tmp)
	defer consoleErrorKinds(r)
	n := 0
	sigs := map[string]bool{}
	err = hx.ReadCases(f.Str("cases", ""), func(raw json.RawMessage) error {
		var c sfCase
		if err := json.Unmarshal(raw, &c); err != nil {
			return err
		}
		n++
		log.VerifNow = nil
		dir := filepath.Join(tmp, fmt.Sprintf("s%d", n))
		_ = os.MkdirAll(dir, 0o755)
		defer os.RemoveAll(dir)
		fw := &flakyWriter{fail: c.Target0 == "failing"}
		var app log.Appender
		layout := &log.TextLayout{BaseLayout: log.BaseLayout{FileLineLength: 48}}
		switch c.Kind {
		case "file":
			fa := &log.FileAppender{Layout: layout, FileDir: dir, FileName: "s.log"}
			switch c.Target0 {
			case "failing":
				fa.FileDir, fa.FileName = "/dev", "full"
			case "missing":
				fa.FileDir = filepath.Join(dir, "nope")
			}
			app = fa
		case "rolling":
			ra := &log.RollingFileAppender{Layout: layout, FileDir: dir, FileName: "s.log", Rotation: log.TimeRotation{Interval: time.Hour}, MaxAge: 1000}
			switch c.Target0 {
			case "missing":
				ra.FileDir = filepath.Join(dir, "nope")
			case "failing":
				// the clock is fixed, so the name of the file the appender opens is known: it is a link to /dev/full,
				// which accepts the open and rejects every write (ENOSPC)
				fixed := time.Date(2034, 5, 6, 7, 0, 0, 0, time.UTC)
				log.VerifNow = func(time.Time) time.Time { return fixed }
				_ = os.Symlink("/dev/full", filepath.Join(dir, "s.log."+fixed.Format("20060102150405")))
			}
			app = ra
		default:
			log.Stdout = fw
			app = &log.ConsoleAppender{Layout: layout}
		}
		desc := map[string]any{"kind": c.Kind, "target": c.Target0, "ops": c.Hist}
		count := func() int {
			if c.Kind == "console" {
				return strings.Count(fw.buf.String(), "\n")
			}
			total := 0
			ents, _ := os.ReadDir(dir)
			for _, e := range ents {
				if !e.IsDir() {
					b, _ := os.ReadFile(filepath.Join(dir, e.Name()))
					total += strings.Count(string(b), "\n")
				}
			}
			return total
		}
		sig := c.Kind + c.Target0
		started, uncertain := false, false
		for i, op := range c.Hist {
			switch {
			case op.Op == "start" && op.Res == "ok":
				started = true
			case op.Op == "stop":
				started = false
			case (op.Op == "append" || op.Op == "write") && c.Kind == "rolling" && !started:
				// a rolling appender that is not running may or may not open a file on its own at the
				// next interval check: the property is silent, only "returns, no panic" is required
				uncertain = true
			}
			sig += op.Op
			var serr error
			var ret bool
			var p any
			switch op.Op {
			case "start":
				ret, p = hx.Within(8*time.Second, func() { serr = app.Start() })
				if ret && p == nil && (serr != nil) != (op.Res == "error") {
					r.Violate("start-result:"+c.Kind, desc, "op %d: Start returned %v, specification: %s", i, serr, op.Res)
				}
			case "append":
				e := log.GetEvent()
				e.Level, e.Tag, e.Time = log.InfoLevel, "t", time.Now()
				e.Fields = []log.Field{log.Int("id", int64(i))}
				ret, p = hx.Within(8*time.Second, func() { app.Append(e) })
			case "write":
				ret, p = hx.Within(8*time.Second, func() { app.Write([]byte(fmt.Sprintf("raw %d\n", i))) })
			case "stop":
				ret, p = hx.Within(8*time.Second, func() { app.Stop() })
			case "break":
				fw.fail, ret = true, true
			case "repair":
				fw.fail, ret = false, true
			}
			r.Eval(1)
			if !ret {
				r.Violate("blocked:"+op.Op+":"+c.Kind, desc, "op %d: %s did not return within 8 s (target %s)", i, op.Op, c.Target0)
				return nil
			}
			if p != nil {
				r.Violate("io-panic:"+op.Op+":"+c.Kind, desc, "op %d: %s panicked: %v", i, op.Op, p)
				return nil
			}
			if !uncertain && (c.Target0 != "failing" || c.Kind == "console") {
				if got := count(); got != op.Del {
					r.Violate("sink-delivery:"+c.Kind, desc, "op %d (%s): target holds %d lines, specification: %d", i, op.Op, got, op.Del)
					return nil
				}
			}
		}
		if ret, p := hx.Within(8*time.Second, func() { app.Stop() }); !ret || p != nil {
			r.Violate("blocked:stop:"+c.Kind, desc, "a further Stop at the end of the history returned=%v panic=%v", ret, p)
		}
		sigs[sig] = true
		if n == 7 {
			r.Sample(c)
		}
		return nil
	})
	if err != nil {
		r.SetInfra("read cases: %v", err)
	}
	r.NonTrivial(int64(len(sigs)))
}

// creationFailureKinds: the ways in which creating the next file can fail, beyond "the directory was renamed away":
// the directory's path is occupied by a regular file (ENOTDIR), by a link to itself (ELOOP), the next file's name is
// taken by a directory (EISDIR), the next name is a link into a directory that does not exist (ENOENT on the link's
// target).  Each time: the write at the boundary returns and lands in the file the appender already has, and after
// the repair the write at the following boundary lands in a new file.
func creationFailureKinds(r *hx.Result, tmp string) {
	for _, kind := range []string{"notdir", "loop", "isdir", "danglinglink", "away"} {
		dir := filepath.Join(tmp, "cf-"+kind)
		away := dir + ".away"
		_ = os.MkdirAll(dir, 0o755)
		var mu sync.Mutex
		now := time.Date(2037, 2, 3, 4, 0, 0, 0, time.UTC)
		log.VerifNow = func(time.Time) time.Time { mu.Lock(); defer mu.Unlock(); return now }
		tick := func() { mu.Lock(); now = now.Add(time.Hour); mu.Unlock() }
		nameAt := func(t time.Time) string { return "c.log." + t.In(time.Local).Format("20060102150405") }
		app := &log.RollingFileAppender{Layout: &log.TextLayout{BaseLayout: log.BaseLayout{FileLineLength: 48}}, FileDir: dir, FileName: "c.log",
			Rotation: log.TimeRotation{Interval: time.Hour}, MaxAge: 1000}
		desc := map[string]any{"failure": kind, "history": "Start, write A, break, boundary, write B, write B2, repair, boundary, write C, Stop"}
		if err := app.Start(); err != nil {
			r.SetInfra("creationFailureKinds start: %v", err)
			log.VerifNow = nil
			return
		}
		ok, p := hx.Within(10*time.Second, func() {
			app.Write([]byte("A\n"))
			next := nameAt(now.Add(time.Hour))
			switch kind {
			case "notdir":
				_ = os.Rename(dir, away)
				_ = os.WriteFile(dir, []byte("not a directory\n"), 0o644)
			case "loop":
				_ = os.Rename(dir, away)
				_ = os.Symlink(dir, dir)
			case "isdir":
				_ = os.Mkdir(filepath.Join(dir, next), 0o755)
			case "danglinglink":
				_ = os.Symlink(filepath.Join(dir, "no-such-dir", "x"), filepath.Join(dir, next))
			case "away":
				_ = os.Rename(dir, away)
			}
			tick()
			app.Write([]byte("B\n"))
			app.Write([]byte("B2\n"))
			switch kind {
			case "notdir", "loop":
				_ = os.Remove(dir)
				_ = os.Rename(away, dir)
			case "away":
				_ = os.Rename(away, dir)
			case "isdir", "danglinglink":
				_ = os.Remove(filepath.Join(dir, next))
			}
			tick()
			app.Write([]byte("C\n"))
			app.Stop()
		})
		log.VerifNow = nil
		r.Eval(4)
		if !ok || p != nil {
			r.Violate("blocked:creation-failure", desc, "the history returned=%v panic=%v", ok, p)
			os.RemoveAll(dir)
			os.RemoveAll(away)
			continue
		}
		files := map[string]string{}
		ents, _ := os.ReadDir(dir)
		for _, e := range ents {
			if !e.IsDir() {
				b, _ := os.ReadFile(filepath.Join(dir, e.Name()))
				files[e.Name()] = string(b)
			}
		}
		first, third := nameAt(now.Add(-2*time.Hour)), nameAt(now)
		if files[first] != "A\nB\nB2\n" || files[third] != "C\n" || len(files) != 2 {
			r.Violate("sink-delivery:creation-failure", desc, "after the history the directory holds %q; want %s = A B B2 (the file the appender kept) and %s = C (created at the next boundary)", files, first, third)
		}
		os.RemoveAll(dir)
		os.RemoveAll(away)
	}
}

// siblingAfterOutage: two rolling appenders share a directory (as the RollingFile logger's <name> and <name>.wf do).
// The directory is away when the first one crosses a boundary, and back before the second one writes for the first time
// in that interval: the second one's creation is its own attempt and succeeds - one appender's failure says nothing
// about the other's.
func siblingAfterOutage(r *hx.Result, tmp string) {
	dir := filepath.Join(tmp, "sibling")
	away := dir + ".away"
	_ = os.MkdirAll(dir, 0o755)
	defer os.RemoveAll(dir)
	defer os.RemoveAll(away)
	var mu sync.Mutex
	now := time.Date(2038, 3, 4, 5, 0, 0, 0, time.UTC)
	log.VerifNow = func(time.Time) time.Time { mu.Lock(); defer mu.Unlock(); return now }
	defer func() { log.VerifNow = nil }()
	tick := func() { mu.Lock(); now = now.Add(time.Hour); mu.Unlock() }
	ts := func(t time.Time) string { return t.In(time.Local).Format("20060102150405") }
	mk := func(name string) *log.RollingFileAppender {
		return &log.RollingFileAppender{Layout: &log.TextLayout{BaseLayout: log.BaseLayout{FileLineLength: 48}}, FileDir: dir, FileName: name,
			Rotation: log.TimeRotation{Interval: time.Hour}, MaxAge: 1000}
	}
	a, b := mk("app.log"), mk("app.log.wf")
	if a.Start() != nil || b.Start() != nil {
		r.SetInfra("siblingAfterOutage: start failed")
		return
	}
	t1 := now
	desc := map[string]any{"history": "A1, B1, directory away, boundary, A2 (creation fails), directory back, B2, A3, boundary, A4, B3, Stop"}
	ok, p := hx.Within(10*time.Second, func() {
		a.Write([]byte("A1\n"))
		b.Write([]byte("B1\n"))
		_ = os.Rename(dir, away)
		tick()
		a.Write([]byte("A2\n"))
		_ = os.Rename(away, dir)
		b.Write([]byte("B2\n"))
		a.Write([]byte("A3\n"))
		tick()
		a.Write([]byte("A4\n"))
		b.Write([]byte("B3\n"))
		a.Stop()
		b.Stop()
	})
	r.Eval(7)
	if !ok || p != nil {
		r.Violate("blocked:creation-failure", desc, "the history returned=%v panic=%v", ok, p)
		return
	}
	files := map[string]string{}
	ents, _ := os.ReadDir(dir)
	all := ""
	for _, e := range ents {
		bts, _ := os.ReadFile(filepath.Join(dir, e.Name()))
		files[e.Name()] = string(bts)
		all += string(bts)
	}
	t2, t3 := t1.Add(time.Hour), t1.Add(2*time.Hour)
	for _, w := range []string{"A1", "A2", "A3", "A4", "B1", "B2", "B3"} {
		if strings.Count(all, w+"\n") != 1 {
			r.Violate("sink-delivery:sibling", desc, "write %s is in the directory %d times; files: %q", w, strings.Count(all, w+"\n"), files)
			return
		}
	}
	if files["app.log.wf."+ts(t2)] != "B2\n" || files["app.log.wf."+ts(t3)] != "B3\n" || files["app.log."+ts(t3)] != "A4\n" || !strings.HasPrefix(files["app.log."+ts(t1)], "A1\nA2\n") {
		r.Violate("sink-delivery:sibling", desc, "want app.log.wf.%s = B2 (the sibling's own first attempt in that interval, the directory is back), app.log.wf.%s = B3, app.log.%s = A4, app.log.%s starting with A1 A2; files: %q",
			ts(t2), ts(t3), ts(t3), ts(t1), files)
	}
}

// quietSiblingAndOutage: the warn stream of a <name> / <name>.wf pair has been quiet for longer than the retention; the
// normal stream rotates (its retention scan runs), then the directory goes away for a boundary of the warn stream and
// comes back.  Everything either stream accepted is in the directory afterwards.
func quietSiblingAndOutage(r *hx.Result, tmp string) {
	dir := filepath.Join(tmp, "quiet")
	away := dir + ".away"
	_ = os.MkdirAll(dir, 0o755)
	defer os.RemoveAll(dir)
	defer os.RemoveAll(away)
	var mu sync.Mutex
	now := time.Now().Truncate(time.Hour)
	log.VerifNow = func(time.Time) time.Time { mu.Lock(); defer mu.Unlock(); return now }
	defer func() { log.VerifNow = nil }()
	tick := func() { mu.Lock(); now = now.Add(time.Hour); mu.Unlock() }
	mk := func(name string) *log.RollingFileAppender {
		return &log.RollingFileAppender{Layout: &log.TextLayout{BaseLayout: log.BaseLayout{FileLineLength: 48}}, FileDir: dir, FileName: name,
			Rotation: log.TimeRotation{Interval: time.Hour}, MaxAge: 1}
	}
	a, b := mk("app.log"), mk("app.log.wf")
	if a.Start() != nil || b.Start() != nil {
		r.SetInfra("quietSiblingAndOutage: start failed")
		return
	}
	desc := map[string]any{"history": "A1, B1, the warn file untouched for 10 h, boundary, A2 (rotates, its retention scan runs), directory away, B2, directory back, boundary, B3, A3, Stop", "maxAge": 1}
	ok, p := hx.Within(10*time.Second, func() {
		a.Write([]byte("A1\n"))
		b.Write([]byte("B1\n"))
		cur, _, _ := log.VerifRollingState(b)
		old := time.Now().Add(-10 * time.Hour)
		_ = os.Chtimes(cur, old, old)
		tick()
		a.Write([]byte("A2\n"))
		time.Sleep(150 * time.Millisecond) // the scan launched by that rotation
		_ = os.Rename(dir, away)
		b.Write([]byte("B2\n"))
		_ = os.Rename(away, dir)
		tick()
		b.Write([]byte("B3\n"))
		a.Write([]byte("A3\n"))
		a.Stop()
		b.Stop()
	})
	r.Eval(6)
	if !ok || p != nil {
		r.Violate("blocked:creation-failure", desc, "the history returned=%v panic=%v", ok, p)
		return
	}
	all := ""
	files := map[string]string{}
	ents, _ := os.ReadDir(dir)
	for _, e := range ents {
		bts, _ := os.ReadFile(filepath.Join(dir, e.Name()))
		files[e.Name()] = string(bts)
		all += string(bts)
	}
	for _, w := range []string{"A1", "A2", "A3", "B1", "B2", "B3"} {
		if strings.Count(all, w+"\n") != 1 {
			r.Violate("sink-delivery:quiet-sibling", desc, "write %s is in the directory %d times; files: %q", w, strings.Count(all, w+"\n"), files)
			return
		}
	}
}

type tempErr struct{}

func (tempErr) Error() string   { return "resource temporarily unavailable" }
func (tempErr) Temporary() bool { return true }
func (tempErr) Timeout() bool   { return true }

type errWriter struct {
	err   error
	short bool
	calls int64
}

func (w *errWriter) Write(b []byte) (int, error) {
	atomic.AddInt64(&w.calls, 1)
	if w.short && len(b) > 1 {
		return len(b) / 2, w.err
	}
	return 0, w.err
}

// consoleErrorKinds: console targets that fail in the ways streams fail - persistently "temporarily unavailable",
// timeouts, short writes with and without an error, a connection whose write deadline has passed: every log call and
// raw write returns, and the target is not hammered.
func consoleErrorKinds(r *hx.Result) {
	save := log.Stdout
	defer func() { log.Stdout = save }()
	c1, c2 := net.Pipe()
	defer c1.Close()
	defer c2.Close()
	_ = c1.SetWriteDeadline(time.Now().Add(-time.Second))
	targets := map[string]io.Writer{
		"persistent temporary error":         &errWriter{err: tempErr{}},
		"persistent EAGAIN":                  &errWriter{err: syscall.EAGAIN},
		"persistent EINTR":                   &errWriter{err: syscall.EINTR},
		"short writes with io.ErrShortWrite": &errWriter{err: io.ErrShortWrite, short: true},
		"short writes without an error":      &errWriter{short: true},
		"connection past its write deadline": c1,
	}
	for name, w := range targets {
		log.Stdout = w
		app := &log.ConsoleAppender{Layout: &log.TextLayout{BaseLayout: log.BaseLayout{FileLineLength: 48}}}
		_ = app.Start()
		desc := map[string]any{"console_target": name}
		ok, p := hx.Within(5*time.Second, func() {
			for i := 0; i < 3; i++ {
				e := log.GetEvent()
				e.Level, e.Tag, e.Time = log.InfoLevel, "t", time.Now()
				e.Fields = []log.Field{log.Int("id", int64(i+1))}
				app.Append(e)
				app.Write([]byte("raw line\n"))
			}
			app.Stop()
		})
		r.Eval(6)
		if !ok || p != nil {
			r.Violate("blocked:append:console", desc, "three events and three raw writes to a console target with %s: returned=%v panic=%v", name, ok, p)
			if !ok {
				return // a goroutine is left spinning
			}
		}
		if ew, isEW := w.(*errWriter); isEW && atomic.LoadInt64(&ew.calls) > 600 {
			r.Violate("blocked:append:console", desc, "six deliveries led to %d write calls on the failing target", atomic.LoadInt64(&ew.calls))
		}
	}
}
