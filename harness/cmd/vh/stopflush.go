package main

// C05 (every logger kind): accepted events and raw writes are readable from the target as soon as
// Stop / Destroy returns, Stop terminates, no descriptor on the log directory stays open, appenders
// tolerate a second Stop.  Kinds reachable through Refresh and by direct construction.

import (
	"context"
	"fmt"
	"os"
	"path/filepath"
	"runtime/debug"
	"strings"
	"time"

	"github.com/go-spring/log"

	"verifharness/hx"
	"verifharness/sys"
)

func init() { commands["stopflush"] = cmdStopFlush }

// openUnder lists descriptors of this process that point below dir.
func openUnder(dir string) []string {
	var out []string
	ents, _ := os.ReadDir("/proc/self/fd")
	for _, e := range ents {
		if t, err := os.Readlink("/proc/self/fd/" + e.Name()); err == nil && strings.HasPrefix(t, dir) {
			out = append(out, t)
		}
	}
	return out
}

func readAll(dir string) string {
	var sb strings.Builder
	ents, _ := os.ReadDir(dir)
	for _, e := range ents {
		b, _ := os.ReadFile(filepath.Join(dir, e.Name()))
		sb.Write(b)
	}
	return sb.String()
}

func cmdStopFlush(f hx.Flags, r *hx.Result) {
	rng := hx.Rand(5)
	console := sys.InstallConsole()
	tmp, err := os.MkdirTemp(os.Getenv("VERIF_SCRATCH"), "sf-")
	if err != nil {
		r.SetInfra("mkdtemp: %v", err)
		return
	}
	defer os.RemoveAll(tmp)
	log.RegisterTimeRotation("h", log.TimeRotation{Interval: time.Hour})
	ctx := context.Background()
	kinds := []string{"sync+file", "async+file", "async+rollingapp", "sync+rollingapp", "roll", "rollSep", "rollAsync", "rollAsyncSep", "console", "file", "async+console"}
	policies := []string{"Block", "Discard", "DiscardOldest"}
	counts := []int{0, 1, 7, 99, 100, 101, 250}
	if hx.Thorough() {
		counts = []int{0, 1, 2, 7, 50, 98, 99, 100, 101, 102, 250, 1000}
	}
	n := 0
	for _, kind := range kinds {
		for _, pol := range policies {
			if !strings.Contains(kind, "sync") && !strings.Contains(kind, "Async") && pol != "Block" {
				continue
			}
			if strings.HasPrefix(kind, "sync") && pol != "Block" {
				continue
			}
			for _, cnt := range counts {
				if hx.Stopped() {
					break
				}
				n++
				dir := filepath.Join(tmp, fmt.Sprintf("d%d", n))
				_ = os.MkdirAll(dir, 0o755)
				log.Destroy()
				log.VerifReset()
				sys.ResetAppenders()
				console.Take()
				tag := log.RegisterTag("sf_tag")
				h := log.GetLogger("lg")
				cfg := sys.Cfg{}
				desc := map[string]any{"kind": kind, "policy": pol, "items": cnt}
				asyncEx := map[string]string{"bufferSize": "100", "bufferFullPolicy": pol}
				switch kind {
				case "sync+file", "async+file":
					cfg["appender.fa.type"] = "File"
					cfg["appender.fa.fileDir"] = dir
					cfg["appender.fa.fileName"] = "f.log"
					typ, ex := "Logger", map[string]string{}
					if kind == "async+file" {
						typ, ex = "AsyncLogger", asyncEx
					}
					cfg.AddLogger("lg", typ, "INFO", "sf_tag", []sys.Ref{{Ref: "fa"}}, false, ex)
				case "async+rollingapp", "sync+rollingapp":
					cfg["appender.ra.type"] = "RollingFile"
					cfg["appender.ra.fileDir"] = dir
					cfg["appender.ra.fileName"] = "r.log"
					cfg["appender.ra.rotation"] = "h"
					cfg["appender.ra.maxAge"] = "24"
					typ, ex := "Logger", map[string]string{}
					if kind == "async+rollingapp" {
						typ, ex = "AsyncLogger", asyncEx
					}
					cfg.AddLogger("lg", typ, "INFO", "sf_tag", []sys.Ref{{Ref: "ra"}}, false, ex)
				case "async+console":
					cfg["appender.ca.type"] = "Console"
					cfg.AddLogger("lg", "AsyncLogger", "INFO", "sf_tag", []sys.Ref{{Ref: "ca"}}, false, asyncEx)
				case "console":
					cfg.AddRec("unused")
					cfg.AddLogger("lg", "Console", "INFO", "sf_tag", nil, false, nil)
				case "file":
					cfg.AddRec("unused")
					cfg.AddLogger("lg", "File", "INFO", "sf_tag", nil, false, map[string]string{"fileDir": dir, "fileName": "f.log"})
				default: // rolling-file logger kinds
					cfg.AddRec("unused")
					ex := map[string]string{"fileDir": dir, "fileName": "app.log", "rotation": "h",
						"separate": fmt.Sprint(strings.HasSuffix(kind, "Sep")), "async": fmt.Sprint(strings.Contains(kind, "Async")),
						"bufferSize": "100", "bufferFullPolicy": pol}
					if rng.Intn(2) == 0 {
						ex["layout.type"] = "JSONLayout"
					}
					cfg.AddLogger("lg", "RollingFile", "INFO", "sf_tag", nil, false, ex)
				}
				var rerr error
				if p := hx.Catch(func() { rerr = log.Refresh(cfg.Map(nil)) }); p != nil || rerr != nil {
					r.Violate("refresh-failed:"+kind, desc, "Refresh: panic=%v err=%v", p, rerr)
					continue
				}
				// submit: events (two levels so that the .wf file is used) and raw writes
				isAsync := strings.Contains(kind, "async") || strings.Contains(kind, "Async")
				var lgAsync *log.AsyncLogger
				if a, ok := log.VerifHandleLogger(h).(*log.AsyncLogger); ok {
					lgAsync = a
				} else if rf, ok := log.VerifHandleLogger(h).(*log.RollingFileLogger); ok {
					lgAsync, _ = log.VerifRollingInner(rf).(*log.AsyncLogger)
				}
				blocked := false
				ret, pv := hx.Within(30*time.Second, func() {
					if pol == "Block" || cnt < 50 {
						// a zero-length raw write is an item like any other (and must not be mistaken for anything else)
						_, _ = h.Write([]byte{})
						_, _ = h.Write(nil)
					}
					for i := 1; i <= cnt; i++ {
						switch i % 3 {
						case 0:
							_, _ = h.Write([]byte(fmt.Sprintf("RAW id=%d payload\n", i)))
						case 1:
							log.Info(ctx, tag, log.Int("id", int64(i)))
						default:
							log.Errorf(ctx, tag, "id=%d", i)
						}
					}
				})
				if !ret {
					blocked = true
					r.Violate("blocked:submit:"+kind, desc, "submitting %d items did not return within 30 s", cnt)
				} else if pv != nil {
					r.Violate("log-panic:"+kind, desc, "submitting panicked: %v", pv)
				}
				if blocked {
					log.VerifReset()
					continue
				}
				t0 := time.Now()
				ret, pv = hx.Within(10*time.Second, func() { log.Destroy() })
				el := time.Since(t0)
				if !ret {
					r.Violate("blocked:destroy:"+kind, desc, "Destroy did not return within 10 s")
					log.VerifReset()
					continue
				}
				if pv != nil {
					r.Violate("destroy-panic:"+kind, desc, "Destroy panicked: %v", pv)
					log.VerifReset()
					continue
				}
				// read the targets immediately
				var content string
				switch {
				case strings.Contains(kind, "console"):
					content = console.Take()
				default:
					content = readAll(dir)
				}
				r.Eval(int64(cnt))
				r.NonTrivial(1)
				var discards int64
				if lgAsync != nil {
					discards = lgAsync.GetDiscardCounter()
				}
				perID := map[int64]int{}
				for _, line := range strings.Split(content, "\n") {
					if line == "" {
						continue
					}
					id, _ := sys.ParseLine([]byte(line))
					perID[id]++
				}
				missing := 0
				firstMissing := 0
				for i := 1; i <= cnt; i++ {
					want := 1
					if strings.HasSuffix(kind, "Sep") && i%3 == 0 {
						want = 2 // raw writes go to both files of a separate rolling logger
					}
					c := perID[int64(i)]
					if c < want {
						missing++
						if firstMissing == 0 {
							firstMissing = i
						}
					} else if c > want {
						r.Violate("delivered-twice:"+kind, desc, "item %d appears %d times in the target, want %d", i, c, want)
					}
				}
				allowedMissing := int64(0)
				if isAsync && pol != "Block" {
					allowedMissing = discards // discarded by policy, counted
					if strings.HasSuffix(kind, "Sep") {
						// a discarded raw write is missing from both files but counted once: still one item
					}
				}
				if int64(missing) != allowedMissing && !(int64(missing) < allowedMissing && false) {
					if int64(missing) > allowedMissing {
						r.Violate("not-flushed:"+kind, desc, "after Destroy returned (%.1f ms) %d of %d accepted items are not readable from the target (discard counter %d); first missing id %d", float64(el.Microseconds())/1000, missing, cnt, discards, firstMissing)
					} else {
						r.Violate("discard-counter:"+kind, desc, "discard counter %d but only %d items are missing from the target", discards, missing)
					}
				}
				if fds := openUnder(dir); len(fds) > 0 {
					r.Violate("fd-leak:"+kind, desc, "after Destroy the process still holds descriptors on %v", fds)
				}
				os.RemoveAll(dir)
				if n == 5 {
					r.Sample(desc)
				}
			}
		}
	}
	// direct construction: appenders stopped once and twice; no descriptor afterwards
	for _, mk := range []string{"file", "rolling"} {
		dir := filepath.Join(tmp, "direct-"+mk)
		_ = os.MkdirAll(dir, 0o755)
		var app log.Appender
		if mk == "file" {
			app = &log.FileAppender{Layout: &log.TextLayout{}, FileDir: dir, FileName: "d.log"}
		} else {
			app = &log.RollingFileAppender{Layout: &log.TextLayout{}, FileDir: dir, FileName: "d.log", Rotation: log.TimeRotation{Interval: time.Hour}, MaxAge: 1}
		}
		desc := map[string]any{"direct": mk}
		if err := app.Start(); err != nil {
			r.SetInfra("direct start: %v", err)
			return
		}
		app.Write([]byte("one\n"))
		if ret, p := hx.Within(8*time.Second, func() { app.Stop(); app.Stop() }); !ret {
			r.Violate("blocked:double-stop:"+mk, desc, "stopping the %s appender twice did not return within 8 s", mk)
			continue
		} else if p != nil {
			r.Violate("double-stop-panic:"+mk, desc, "stopping the %s appender twice panicked: %v", mk, p)
		}
		if fds := openUnder(dir); len(fds) > 0 {
			r.Violate("fd-leak:"+mk, desc, "descriptors still open after Stop: %v", fds)
		}
		if !strings.Contains(readAll(dir), "one\n") {
			r.Violate("not-flushed:"+mk, desc, "written bytes not in the file after Stop")
		}
		if p := hx.Catch(func() { app.Write([]byte("late\n")) }); p != nil {
			r.Violate("write-after-stop-panic:"+mk, desc, "Write after Stop panicked: %v", p)
		}
		r.Eval(1)
	}
	// Stop while the worker is blocked on a slow appender: however long that takes, Stop must not
	// return before everything accepted has been handed over (no shutdown deadline)
	{
		hold := time.Duration(f.Int("holdsec", 5)) * time.Second
		gate := &sys.RecAppender{Gate: make(chan struct{}), Entered: make(chan int64, 64)}
		lg := &log.AsyncLogger{
			LoggerBase: log.LoggerBase{Level: log.LevelRange{MinLevel: log.InfoLevel, MaxLevel: log.MaxLevel}},
			AppenderRefs: log.AppenderRefs{AppenderRefs: []*log.AppenderRef{{Appender: gate,
				Level: log.LevelRange{MinLevel: log.InfoLevel, MaxLevel: log.MaxLevel}}}},
			BufferSize: 100, BufferFullPolicy: log.BufferFullPolicyBlock,
		}
		desc := map[string]any{"scenario": "Stop with the worker blocked on a slow appender", "blocked_for": hold.String()}
		if err := lg.Start(); err == nil {
			for k := 1; k <= 4; k++ {
				e := log.GetEvent()
				e.Level, e.Time, e.Tag = log.InfoLevel, time.Now(), "t"
				e.Fields = []log.Field{log.Int("id", int64(k))}
				lg.Append(e)
			}
			<-gate.Entered
			stopped := make(chan any, 1)
			go func() { stopped <- hx.Catch(func() { lg.Stop() }) }()
			select {
			case <-stopped:
				r.Violate("stop-early:slow-appender", desc, "Stop returned while the worker was still blocked in the appender; only %d of 4 accepted items had been handed over", gate.Len())
			case <-time.After(hold):
			}
			close(gate.Gate)
			select {
			case <-stopped:
			case <-time.After(10 * time.Second):
				r.Violate("blocked:stop", desc, "Stop did not return after the appender was released")
			}
			if gate.Len() != 4 {
				r.Violate("not-flushed:slow-appender", desc, "%d of 4 accepted items reached the appender", gate.Len())
			}
			r.Eval(4)
		}
	}
	// direct construction of the rolling-file logger, sync and async, with and without separate file
	for i, async := range []bool{false, true, false, true} {
		sep := i >= 2
		dir := filepath.Join(tmp, fmt.Sprintf("direct-rfl-%d", i))
		_ = os.MkdirAll(dir, 0o755)
		rf := &log.RollingFileLogger{
			LoggerBase: log.LoggerBase{Name: "d", Level: log.LevelRange{MinLevel: log.InfoLevel, MaxLevel: log.MaxLevel}},
			FileDir:    dir, FileName: "app.log", Separate: sep, Rotation: log.TimeRotation{Interval: time.Hour}, MaxAge: 10,
			AsyncWrite: async, BufferSize: 100, BufferFullPolicy: log.BufferFullPolicyBlock,
		}
		if i%2 == 0 {
			rf.Layout = &log.JSONLayout{BaseLayout: log.BaseLayout{FileLineLength: 48}}
		}
		desc := map[string]any{"direct": "RollingFileLogger", "async": async, "separate": sep, "layout": rf.Layout != nil}
		if ret, p := hx.Within(10*time.Second, func() {
			if err := rf.Start(); err != nil {
				panic(err)
			}
			for k := 1; k <= 150; k++ {
				e := log.GetEvent()
				e.Level, e.Time, e.Tag = []log.Level{log.InfoLevel, log.ErrorLevel}[k%2], time.Now(), "t"
				e.Fields = []log.Field{log.Int("id", int64(k))}
				rf.Append(e)
			}
			rf.Stop()
		}); !ret || p != nil {
			r.Violate("blocked:direct-rolling-logger", desc, "Start/Append/Stop returned=%v panic=%v", ret, p)
			continue
		}
		content := readAll(dir)
		seen := map[int64]int{}
		for _, line := range strings.Split(content, "\n") {
			if line != "" {
				id, _ := sys.ParseLine([]byte(line))
				seen[id]++
			}
		}
		for k := int64(1); k <= 150; k++ {
			if seen[k] != 1 {
				r.Violate("not-flushed:direct-rolling-logger", desc, "event %d occurs %d times in the files after Stop returned", k, seen[k])
				break
			}
		}
		if fds := openUnder(dir); len(fds) > 0 {
			r.Violate("fd-leak:direct-rolling-logger", desc, "descriptors still open after Stop: %v", fds)
		}
		r.Eval(150)
	}
	// targets that reject every write (the interval's file is a link to /dev/full): nothing can be flushed, but Stop
	// must still return in bounded time and release the descriptors
	if _, err := os.Stat("/dev/full"); err == nil {
		fixed := time.Date(2035, 6, 7, 8, 0, 0, 0, time.UTC)
		log.VerifNow = func(time.Time) time.Time { return fixed }
		for i, async := range []bool{false, true} {
			dir := filepath.Join(tmp, fmt.Sprintf("full-rfl-%d", i))
			_ = os.MkdirAll(dir, 0o755)
			for _, name := range []string{"app.log.", "app.log.wf."} {
				_ = os.Symlink("/dev/full", filepath.Join(dir, name+fixed.Format("20060102150405")))
			}
			rf := &log.RollingFileLogger{
				LoggerBase: log.LoggerBase{Name: "d", Level: log.LevelRange{MinLevel: log.InfoLevel, MaxLevel: log.MaxLevel}},
				FileDir:    dir, FileName: "app.log", Separate: true, Rotation: log.TimeRotation{Interval: time.Hour}, MaxAge: 10,
				AsyncWrite: async, BufferSize: 100, BufferFullPolicy: log.BufferFullPolicyBlock,
			}
			desc := map[string]any{"direct": "RollingFileLogger", "async": async, "target": "rejects every write (ENOSPC)"}
			if ret, p := hx.Within(10*time.Second, func() {
				if err := rf.Start(); err != nil {
					panic(err)
				}
				for k := 1; k <= 20; k++ {
					e := log.GetEvent()
					e.Level, e.Time, e.Tag = []log.Level{log.InfoLevel, log.ErrorLevel}[k%2], time.Now(), "t"
					e.Fields = []log.Field{log.Int("id", int64(k))}
					rf.Append(e)
				}
				rf.Write([]byte("raw\n"))
				rf.Stop()
			}); !ret || p != nil {
				r.Violate("blocked:failing-target", desc, "Start/Append/Write/Stop returned=%v panic=%v", ret, p)
				break // a spinning goroutine is left behind: do not pile up more
			}
			if fds := openUnder("/dev/full"); len(fds) > 0 {
				r.Violate("fd-leak:failing-target", desc, "descriptors still open after Stop: %v", fds)
			}
			r.Eval(21)
		}
		log.VerifNow = nil
	}
	// targets that cannot be synced (a character device: fsync fails with EINVAL): Stop / Destroy must still release
	// the descriptor, through a directly built appender and through the File logger kind
	if _, err := os.Stat("/dev/null"); err == nil {
		before := len(openUnder("/dev/null"))
		fa := &log.FileAppender{Layout: &log.TextLayout{BaseLayout: log.BaseLayout{FileLineLength: 48}}, FileDir: "/dev", FileName: "null"}
		desc := map[string]any{"target": "/dev/null (not syncable)", "kind": "File appender, direct Start/Stop"}
		if ret, p := hx.Within(10*time.Second, func() {
			if err := fa.Start(); err != nil {
				panic(err)
			}
			fa.Write([]byte("x\n"))
			fa.Stop()
			fa.Stop()
		}); !ret || p != nil {
			r.Violate("blocked:unsyncable-target", desc, "Start/Write/Stop/Stop returned=%v panic=%v", ret, p)
		} else if n := len(openUnder("/dev/null")); n != before {
			r.Violate("fd-leak:unsyncable-target", desc, "%d descriptors on /dev/null before, %d after Stop", before, n)
		}
		log.Destroy()
		log.VerifReset()
		tag := log.RegisterTag("sf_null")
		cfg := sys.Cfg{}
		cfg.AddRec("unused")
		cfg.AddLogger("lg", "File", "", "sf_null", nil, false, map[string]string{"fileDir": "/dev", "fileName": "null"})
		cfg["appender.nul.type"] = "File"
		cfg["appender.nul.fileDir"], cfg["appender.nul.fileName"] = "/dev", "null"
		cfg.AddLogger("lg2", "Logger", "", "sf_null2", []sys.Ref{{Ref: "nul"}}, false, nil)
		desc = map[string]any{"target": "/dev/null (not syncable)", "kind": "File logger and File appender via Refresh / Destroy"}
		if err := log.Refresh(cfg.Map(nil)); err == nil {
			log.Info(context.Background(), tag, log.Int("id", 1))
			if ret, p := hx.Within(10*time.Second, func() { log.Destroy() }); !ret || p != nil {
				r.Violate("blocked:unsyncable-target", desc, "Destroy returned=%v panic=%v", ret, p)
			} else if n := len(openUnder("/dev/null")); n != before {
				r.Violate("fd-leak:unsyncable-target", desc, "%d descriptors on /dev/null before Refresh, %d after Destroy", before, n)
			}
		}
		r.Eval(2)
	}
	sfNameClash(r, tmp)
	sfRestart(r, tmp)
	sfScanDescriptors(r, tmp)
	log.Destroy()
	log.VerifReset()
}

// sfNameClash: loggers and appenders live in separate name spaces, so an appender may carry the name of a logger.
// Destroy stops each of them: afterwards nothing under the log directory is open and everything accepted is readable.
func sfNameClash(r *hx.Result, tmp string) {
	ctx := context.Background()
	for _, typ := range []string{"Logger", "AsyncLogger"} {
		dir := filepath.Join(tmp, "clash-"+typ)
		_ = os.MkdirAll(dir, 0o755)
		log.Destroy()
		log.VerifReset()
		sys.ResetAppenders()
		tag := log.RegisterTag("sf_clash")
		cfg := sys.Cfg{}
		// appender "audit" referenced by logger "audit"; appender "other" (rolling) referenced by logger "root2"
		cfg["appender.audit.type"], cfg["appender.audit.fileDir"], cfg["appender.audit.fileName"] = "File", dir, "audit.log"
		cfg["appender.root2.type"], cfg["appender.root2.fileDir"], cfg["appender.root2.fileName"] = "RollingFile", dir, "r2.log"
		cfg["appender.root2.rotation"], cfg["appender.root2.maxAge"] = "h", "24"
		ex := map[string]string{}
		if typ == "AsyncLogger" {
			ex = map[string]string{"bufferSize": "100", "bufferFullPolicy": "Block"}
		}
		cfg.AddLogger("audit", typ, "INFO", "sf_clash", []sys.Ref{{Ref: "audit"}, {Ref: "root2", Level: "NONE~MAX"}}, true, ex)
		desc := map[string]any{"logger": typ + " named audit", "appenders": "File appender named audit, RollingFile appender named root2"}
		if err := log.Refresh(cfg.Map(nil)); err != nil {
			r.SetInfra("sfNameClash refresh: %v", err)
			return
		}
		for id := 1; id <= 5; id++ {
			log.Info(ctx, tag, log.Int("id", id))
		}
		if ret, p := hx.Within(10*time.Second, func() { log.Destroy() }); !ret || p != nil {
			r.Violate("blocked:Destroy:name-clash", desc, "Destroy returned=%v panic=%v", ret, p)
			log.VerifReset()
			return
		}
		r.Eval(5)
		if fds := openUnder(dir); len(fds) > 0 {
			r.Violate("fd-leak:name-clash", desc, "descriptors still open after Destroy: %v", fds)
		}
		all := readAll(dir)
		for id := 1; id <= 5; id++ {
			if c := strings.Count(all, fmt.Sprintf("id=%d\n", id)); c != 2 {
				r.Violate("not-flushed:name-clash", desc, "after Destroy event %d is in the two targets %d times, want 2", id, c)
				break
			}
		}
	}
}

// sfRestart: an appender instance may be started again after Stop (direct construction): what the second run accepts
// is readable after the second Stop, behind what the first run wrote, and no descriptor stays open.
func sfRestart(r *hx.Result, tmp string) {
	dir := filepath.Join(tmp, "restart")
	_ = os.MkdirAll(dir, 0o755)
	lay := func() log.Layout { return &log.TextLayout{BaseLayout: log.BaseLayout{FileLineLength: 48}} }
	type app interface {
		Start() error
		Stop()
		Write(b []byte)
	}
	for name, a := range map[string]app{
		"File appender":        &log.FileAppender{Layout: lay(), FileDir: dir, FileName: "fa.log"},
		"RollingFile appender": &log.RollingFileAppender{Layout: lay(), FileDir: dir, FileName: "ra.log", Rotation: log.TimeRotation{Interval: time.Hour}, MaxAge: 24},
	} {
		desc := map[string]any{"kind": name + ", direct construction", "history": "Start, write run-1, Stop, Start, write run-2, Stop, Start, write run-3, Stop, Stop"}
		var serr error
		ret, p := hx.Within(10*time.Second, func() {
			for run := 1; run <= 3 && serr == nil; run++ {
				if serr = a.Start(); serr != nil {
					return
				}
				a.Write([]byte(fmt.Sprintf("%s run-%d\n", name, run)))
				a.Stop()
			}
			a.Stop()
		})
		r.Eval(3)
		if !ret || p != nil || serr != nil {
			r.Violate("blocked:restart", desc, "the history returned=%v panic=%v start error=%v", ret, p, serr)
			continue
		}
		all := readAll(dir)
		for run := 1; run <= 3; run++ {
			if c := strings.Count(all, fmt.Sprintf("%s run-%d\n", name, run)); c != 1 {
				r.Violate("not-flushed:restart", desc, "after the last Stop the write of run %d is in the target %d times, want 1", run, c)
				break
			}
		}
		if fds := openUnder(dir); len(fds) > 0 {
			r.Violate("fd-leak:restart", desc, "descriptors still open after Stop: %v", fds)
		}
	}
}

// sfScanDescriptors: a running rolling appender does not accumulate descriptors.  The retention scan that every
// rotation launches is run five times (synchronously, through the hook) with the collector switched off - a descriptor
// that only a finalizer would release counts as held: afterwards the process holds the current file and nothing else
// under (or on) the log directory; after Stop nothing.
func sfScanDescriptors(r *hx.Result, tmp string) {
	dir := filepath.Join(tmp, "scanfd")
	_ = os.MkdirAll(dir, 0o755)
	a := &log.RollingFileAppender{Layout: &log.TextLayout{BaseLayout: log.BaseLayout{FileLineLength: 48}}, FileDir: dir, FileName: "s.log",
		Rotation: log.TimeRotation{Interval: time.Hour}, MaxAge: 24}
	if err := a.Start(); err != nil {
		r.SetInfra("sfScanDescriptors start: %v", err)
		return
	}
	a.Write([]byte("x\n"))
	old := debug.SetGCPercent(-1)
	for i := 0; i < 5; i++ {
		log.VerifClearExpired(a)
	}
	running := openUnder(dir)
	a.Stop()
	stopped := openUnder(dir)
	debug.SetGCPercent(old)
	r.Eval(5)
	desc := map[string]any{"kind": "RollingFile appender, direct construction", "history": "Start, write, five retention scans (collector off), Stop"}
	if len(running) != 1 {
		r.Violate("fd-accumulate:retention-scan", desc, "after five retention scans the process holds %d descriptors under the log directory, want 1 (the current file): %v", len(running), running)
	}
	if len(stopped) != 0 {
		r.Violate("fd-leak:retention-scan", desc, "descriptors still open after Stop: %v", stopped)
	}
}
