package main

// C14 (live part) - the retention scan triggered by real rotations of a RollingFile logger with
// separate=true: the normal appender and its ".wf" sibling share one directory and one name prefix;
// each must delete only its own expired files.  The clock is virtual, the scan is the real
// asynchronous one (polled with a bound).

import (
	"context"
	"os"
	"path/filepath"
	"sync"
	"time"

	"github.com/go-spring/log"

	"verifharness/hx"
	"verifharness/sys"
)

func init() { commands["retentionlive"] = cmdRetentionLive }

func cmdRetentionLive(f hx.Flags, r *hx.Result) {
	sys.InstallConsole()
	tmp, err := os.MkdirTemp(os.Getenv("VERIF_SCRATCH"), "rl-")
	if err != nil {
		r.SetInfra("mkdtemp: %v", err)
		return
	}
	defer os.RemoveAll(tmp)
	var mu sync.Mutex
	now := time.Date(2032, 3, 4, 5, 0, 0, 0, time.UTC)
	log.VerifNow = func(time.Time) time.Time { mu.Lock(); defer mu.Unlock(); return now }
	defer func() { log.VerifNow = nil }()
	log.RegisterTimeRotation("h", log.TimeRotation{Interval: time.Hour})
	log.Destroy()
	log.VerifReset()
	tag := log.RegisterTag("rl_tag")
	cfg := sys.Cfg{}
	cfg.AddRec("unused")
	cfg.AddLogger("lg", "RollingFile", "INFO", "rl_tag", nil, false, map[string]string{
		"fileDir": tmp, "fileName": "app.log", "rotation": "h", "separate": "true", "maxAge": "3", "layout.type": "TextLayout"})
	if err := log.Refresh(cfg.Map(nil)); err != nil {
		r.SetInfra("refresh: %v", err)
		return
	}
	defer log.Destroy()
	old := time.Now().Add(-5 * time.Hour)
	young := time.Now().Add(-1 * time.Hour)
	mk := func(name string, mt time.Time) {
		p := filepath.Join(tmp, name)
		_ = os.WriteFile(p, []byte("x\n"), 0o644)
		_ = os.Chtimes(p, mt, mt)
	}
	mk("app.log.20200101000000", old)
	mk("app.log.20200101010000", young)
	mk("app.log.wf.20200101000000", old)
	mk("app.log.wf.20200101010000", young)
	mk("app.log.bak", old)
	mk("app.log.1.gz", old)
	mk("other.txt", old)
	exists := func(name string) bool { _, err := os.Stat(filepath.Join(tmp, name)); return err == nil }
	waitGone := func(name string) bool {
		for i := 0; i < 400; i++ {
			if !exists(name) {
				return true
			}
			time.Sleep(5 * time.Millisecond)
		}
		return false
	}
	ctx := context.Background()
	desc := map[string]any{"logger": "RollingFile separate=true maxAge=3h", "dir": "own + sibling + foreign expired files"}
	// next interval: an INFO event rotates the normal appender only
	mu.Lock()
	now = now.Add(time.Hour)
	mu.Unlock()
	log.Info(ctx, tag, log.Int("id", 1))
	if !waitGone("app.log.20200101000000") {
		r.Violate("expired-own-kept", desc, "after a rotation of the normal appender its expired file app.log.20200101000000 is still there")
	}
	time.Sleep(50 * time.Millisecond) // the scan that removed the own file has long finished the directory
	for _, keep := range []string{"app.log.20200101010000", "app.log.wf.20200101000000", "app.log.wf.20200101010000", "app.log.bak", "app.log.1.gz", "other.txt"} {
		if !exists(keep) {
			r.Violate("deleted-foreign-or-young", desc, "the normal appender's retention scan deleted %s", keep)
		}
	}
	// an ERROR event rotates the .wf appender: now its own expired file goes, nothing else
	log.Error(ctx, tag, log.Int("id", 2))
	if !waitGone("app.log.wf.20200101000000") {
		r.Violate("expired-own-kept", desc, "after a rotation of the .wf appender its expired file app.log.wf.20200101000000 is still there")
	}
	time.Sleep(50 * time.Millisecond)
	for _, keep := range []string{"app.log.20200101010000", "app.log.wf.20200101010000", "app.log.bak", "app.log.1.gz", "other.txt"} {
		if !exists(keep) {
			r.Violate("deleted-foreign-or-young", desc, "the .wf appender's retention scan deleted %s", keep)
		}
	}
	r.Eval(2)
	r.NonTrivial(2)
	r.Sample(desc)
	_ = hx.Seed
}
