package main

// C01 - replays the (logger kind, logger range, reference list) cases emitted by TLC from
// spec/Levels.tla: Refresh, one uniquely identified event per level through every entry point,
// Destroy, then compare what each appender received with the specification's effective ranges.

import (
	"context"
	"encoding/json"
	"fmt"
	"math"
	"math/rand"
	"os"
	"path/filepath"
	"sort"
	"strings"
	"time"

	"github.com/go-spring/log"

	"verifharness/hx"
	"verifharness/sys"
)

func init() { commands["levels"] = cmdLevels }

var (
	lvAudit = log.RegisterLevel(250, "AUDIT")
	// the lowest code there is (log4j's ALL): orderings computed by subtraction overflow here
	lvAbyss = log.RegisterLevel(math.MinInt32, "ABYSS")
	lvTop   = log.RegisterLevel(998, "TOP")
	// user-registered aliases: a second name for an existing code
	_ = log.RegisterLevel(400, "WARNING")
	_ = log.RegisterLevel(250, "AUDIT2")
	_ = log.RegisterLevel(700, "CRITICAL")
	// ... registered in lower and mixed case: names are case-insensitive wherever they are written
	_ = log.RegisterLevel(250, "audit3")
	_ = log.RegisterLevel(998, "Top2")
	_ = log.RegisterLevel(600, "pAnIc2")
)

// lvNames lists the names a level code can be written with in a range string.
var lvNames = map[int32][]string{400: {"WARN", "WARNING"}, 250: {"AUDIT", "AUDIT2", "audit3"}, 700: {"FATAL", "CRITICAL"},
	998: {"TOP", "Top2"}, 600: {"PANIC", "pAnIc2"}}

func lvName(rng *rand.Rand, l log.Level) string {
	if ns, ok := lvNames[l.Code()]; ok {
		return ns[rng.Intn(len(ns))]
	}
	return l.Name()
}

// concrete levels in increasing code order; the last one is MAX
var concLevels = []log.Level{lvAbyss, log.NoneLevel, log.TraceLevel, log.DebugLevel, lvAudit, log.InfoLevel,
	log.WarnLevel, log.ErrorLevel, log.PanicLevel, log.FatalLevel, lvTop, log.MaxLevel}

type lvRange struct {
	Min int `json:"min"`
	Max int `json:"max"`
}

type lvCase struct {
	Kind      string    `json:"kind"`
	LR        lvRange   `json:"lr"`
	Refs      []lvRange `json:"refs"`
	Eff       []lvRange `json:"eff"`
	Delivered [][]int   `json:"delivered"`
}

func randCase(rng *rand.Rand, s string) string {
	b := []byte(s)
	switch rng.Intn(3) {
	case 0:
		return strings.ToLower(s)
	case 1:
		for i := range b {
			if rng.Intn(2) == 0 && b[i] >= 'A' && b[i] <= 'Z' {
				b[i] += 'a' - 'A'
			}
		}
		return string(b)
	}
	return s
}

// pickMapping chooses an order-preserving map of the abstract points 0..top-1 into the
// concrete non-MAX levels; top maps to MAX.  When warnPt >= 0 that point is pinned to WARN.
func pickMapping(rng *rand.Rand, top, warnPt int) []log.Level {
	n := len(concLevels) - 1 // candidates
	for {
		idx := rng.Perm(n)[:top]
		sort.Ints(idx)
		if warnPt >= 0 {
			// pin: choose warnPt points below WARN and the rest above
			wi := 0
			for i, l := range concLevels {
				if l == log.WarnLevel {
					wi = i
				}
			}
			below := rng.Perm(wi)[:warnPt]
			sort.Ints(below)
			above := rng.Perm(n - wi - 1)[:top-warnPt-1]
			sort.Ints(above)
			idx = idx[:0]
			idx = append(idx, below...)
			idx = append(idx, wi)
			for _, a := range above {
				idx = append(idx, wi+1+a)
			}
		}
		m := make([]log.Level, top+1)
		for i, k := range idx {
			m[i] = concLevels[k]
		}
		m[top] = log.MaxLevel
		return m
	}
}

type lvEntry struct {
	name  string
	level log.Level
	call  func(ctx context.Context, tag *log.Tag, id int64)
	noID  bool // the event carries no field at all: its record is recognised by its level
}

func lvEntries() []lvEntry {
	idf := func(id int64) log.Field { return log.Int("id", id) }
	lazy := func(id int64) func() []log.Field {
		return func() []log.Field { return []log.Field{idf(id)} }
	}
	es := []lvEntry{
		{name: "Trace", level: log.TraceLevel, call: func(c context.Context, t *log.Tag, id int64) { log.Trace(c, t, lazy(id)) }},
		{name: "Tracef", level: log.TraceLevel, call: func(c context.Context, t *log.Tag, id int64) { log.Tracef(c, t, "id=%d", id) }},
		{name: "Debug", level: log.DebugLevel, call: func(c context.Context, t *log.Tag, id int64) { log.Debug(c, t, lazy(id)) }},
		{name: "Debugf", level: log.DebugLevel, call: func(c context.Context, t *log.Tag, id int64) { log.Debugf(c, t, "id=%d", id) }},
		{name: "Info", level: log.InfoLevel, call: func(c context.Context, t *log.Tag, id int64) { log.Info(c, t, idf(id)) }},
		{name: "Infof", level: log.InfoLevel, call: func(c context.Context, t *log.Tag, id int64) { log.Infof(c, t, "id=%d", id) }},
		{name: "Warn", level: log.WarnLevel, call: func(c context.Context, t *log.Tag, id int64) { log.Warn(c, t, idf(id)) }},
		{name: "Warnf", level: log.WarnLevel, call: func(c context.Context, t *log.Tag, id int64) { log.Warnf(c, t, "id=%d", id) }},
		{name: "Error", level: log.ErrorLevel, call: func(c context.Context, t *log.Tag, id int64) { log.Error(c, t, idf(id)) }},
		{name: "Errorf", level: log.ErrorLevel, call: func(c context.Context, t *log.Tag, id int64) { log.Errorf(c, t, "id=%d", id) }},
		{name: "Panic", level: log.PanicLevel, call: func(c context.Context, t *log.Tag, id int64) { log.Panic(c, t, idf(id)) }},
		{name: "Panicf", level: log.PanicLevel, call: func(c context.Context, t *log.Tag, id int64) { log.Panicf(c, t, "id=%d", id) }},
		{name: "Fatal", level: log.FatalLevel, call: func(c context.Context, t *log.Tag, id int64) { log.Fatal(c, t, idf(id)) }},
		{name: "Fatalf", level: log.FatalLevel, call: func(c context.Context, t *log.Tag, id int64) { log.Fatalf(c, t, "id=%d", id) }},
	}
	for _, l := range concLevels {
		l := l
		es = append(es, lvEntry{name: "Record(" + l.Name() + ")", level: l,
			call: func(c context.Context, t *log.Tag, id int64) { log.Record(c, l, t, 1, idf(id)) }})
	}
	// events without any field of their own are events too: a generator that yields nothing, a call without fields
	es = append(es,
		lvEntry{name: "Trace(generator yields nil)", level: log.TraceLevel, noID: true,
			call: func(c context.Context, t *log.Tag, id int64) { log.Trace(c, t, func() []log.Field { return nil }) }},
		lvEntry{name: "Debug(generator yields none)", level: log.DebugLevel, noID: true,
			call: func(c context.Context, t *log.Tag, id int64) {
				log.Debug(c, t, func() []log.Field { return []log.Field{} })
			}},
		lvEntry{name: "Warn(no fields)", level: log.WarnLevel, noID: true,
			call: func(c context.Context, t *log.Tag, id int64) { log.Warn(c, t) }})
	return es
}

func rangeStr(rng *rand.Rand, m []log.Level, r lvRange, top int, allowEmpty bool) string {
	lo := lvName(rng, m[r.Min])
	if r.Max == -1 || (r.Max == top && rng.Intn(2) == 0 && allowEmpty) {
		if allowEmpty && m[r.Min].Code() == 0 && rng.Intn(2) == 0 {
			return ""
		}
		return randCase(rng, lo)
	}
	return randCase(rng, lo) + "~" + randCase(rng, lvName(rng, m[r.Max]))
}

func inRange(code int32, lo, hi log.Level) bool { return code >= lo.Code() && code < hi.Code() }

func cmdLevels(f hx.Flags, r *hx.Result) {
	defer rootAcrossGenerations(r) // the root logger's level range is the live configuration's too
	defer blockOverflowDelivery(r)
	defer discardOldestDelivery(r)
	defer recordAnySkip(r)
	defer rollingSeparateLongName(r)
	rng := hx.Rand(1)
	console := sys.InstallConsole()
	ctx := context.Background()
	entries := lvEntries()
	top := f.Int("top", 5)
	warnPt := f.Int("warnpt", 3)
	refKinds := []string{"sync", "async", "syncLayout", "asyncLayout"}
	tmp, err := os.MkdirTemp(os.Getenv("VERIF_SCRATCH"), "lv-")
	if err != nil {
		r.SetInfra("mkdtemp: %v", err)
		return
	}
	defer os.RemoveAll(tmp)
	log.RegisterTimeRotation("h", log.TimeRotation{Interval: 3600e9})

	log.Destroy()
	log.VerifReset()
	tag := log.RegisterTag("tag_c01")
	other := log.RegisterTag("other_tag")
	_ = other

	n := 0
	nontriv := map[string]bool{}
	selfTestDone := false
	err = hx.ReadCases(f.Str("cases", ""), func(raw json.RawMessage) error {
		var c lvCase
		if err := json.Unmarshal(raw, &c); err != nil {
			return err
		}
		n++
		kind := c.Kind
		if kind == "sync" {
			kind = refKinds[(n+int(hx.Seed()))%4]
		}
		isRoll := strings.HasPrefix(kind, "roll")
		wp := -1
		if isRoll && strings.HasSuffix(kind, "Sep") {
			wp = warnPt
		}
		m := pickMapping(rng, top, wp)
		cfg := sys.Cfg{}
		dir := filepath.Join(tmp, fmt.Sprintf("c%d", n))
		lrs := rangeStr(rng, m, c.LR, top, true)
		desc := map[string]any{"kind": kind, "lr": lrs}
		var apps []string
		switch {
		case isRoll:
			_ = os.MkdirAll(dir, 0o755)
			cfg.AddRec("unused")
			extra := map[string]string{"fileDir": dir, "fileName": "app.log", "rotation": "h",
				"separate": fmt.Sprint(strings.HasSuffix(kind, "Sep")),
				"async":    fmt.Sprint(strings.Contains(kind, "Async"))}
			if strings.Contains(kind, "Async") {
				extra["bufferSize"] = "200"
				extra["bufferFullPolicy"] = "Block"
			}
			if n%2 == 0 {
				extra["layout.type"] = []string{"TextLayout", "JSONLayout"}[n/2%2]
			}
			desc["layout"] = extra["layout.type"]
			cfg.AddLogger("lg", "RollingFile", lrs, "tag_c01", nil, false, extra)
		case kind == "console":
			cfg.AddRec("unused")
			cfg.AddLogger("lg", "Console", lrs, "tag_c01", nil, false, nil)
		case kind == "file":
			_ = os.MkdirAll(dir, 0o755)
			cfg.AddRec("unused")
			cfg.AddLogger("lg", "File", lrs, "tag_c01", nil, false,
				map[string]string{"fileDir": dir, "fileName": "f.log"})
		default:
			var refs []sys.Ref
			order := rng.Perm(len(c.Refs)) // declaration order is the spec's; the map keys are indexed
			_ = order
			for i, rf := range c.Refs {
				name := fmt.Sprintf("a%d", i+1)
				apps = append(apps, name)
				cfg.AddRec(name)
				// an explicit "~MAX" on a reference is indistinguishable from none for an
				// implementation storing two codes: never generated for multi-reference loggers
				refs = append(refs, sys.Ref{Ref: name, Level: rangeStr(rng, m, rf, top, false)})
			}
			typ := "Logger"
			extra := map[string]string{}
			if strings.HasPrefix(kind, "async") {
				typ = "AsyncLogger"
				extra["bufferSize"] = "200"
				extra["bufferFullPolicy"] = "Block"
			}
			if strings.HasSuffix(kind, "Layout") {
				extra["layout.type"] = []string{"TextLayout", "JSONLayout"}[n%2]
			}
			if n%5 == 2 {
				// the same logger configured as the root: the tag is listed nowhere and is served by it
				cfg.AddLogger("root", typ, lrs, "\x00", refs, rng.Intn(2) == 0, extra)
				desc["as_root"] = true
			} else {
				cfg.AddLogger("lg", typ, lrs, "tag_c01", refs, rng.Intn(2) == 0, extra)
			}
			rl := make([]string, len(refs))
			for i := range refs {
				rl[i] = refs[i].Level
			}
			desc["refs"] = rl
		}
		desc["config"] = cfg.String()
		nontriv[fmt.Sprintf("%s|%v|%v", c.Kind, c.LR, c.Refs)] = true

		var rerr error
		if p := hx.Catch(func() { rerr = log.Refresh(cfg.Map(rng.Perm(len(cfg)))) }); p != nil {
			r.Eval(1)
			r.Violate("refresh-panic:"+kindClass(kind), desc, "Refresh panicked for logger kind %s: %v", kind, p)
			log.Destroy()
			log.VerifReset()
			tag = log.RegisterTag("tag_c01")
			return nil
		}
		if rerr != nil {
			r.Eval(1)
			r.Violate("refresh-error:"+kindClass(kind), desc, "Refresh failed for a valid configuration: %s", firstLine(rerr.Error()))
			log.Destroy()
			return nil
		}
		console.Take()
		// expected receivers per event
		type exp struct {
			entry string
			level log.Level
			to    map[int]bool
		}
		exps := map[int64]*exp{}
		noIDFor := map[string]int64{} // level name -> id of the entry whose event carries no id
		id := int64(0)
		lmin, lmax := m[c.LR.Min], m[c.LR.Max]
		var panicked any
		blocked := ""
		for _, e := range entries {
			id++
			x := &exp{entry: e.name, level: e.level, to: map[int]bool{}}
			code := e.level.Code()
			if inRange(code, lmin, lmax) {
				for a, er := range c.Eff {
					if er.Min < er.Max && inRange(code, m[er.Min], m[er.Max]) {
						x.to[a] = true
					}
				}
			}
			exps[id] = x
			if e.noID {
				noIDFor[e.level.Name()] = id
			}
			eid := id
			ret, p := hx.Within(8*time.Second, func() { e.call(ctx, tag, eid) })
			if !ret {
				blocked = e.name
				break
			}
			if p != nil && panicked == nil {
				panicked = fmt.Sprintf("%s: %v", e.name, p)
			}
		}
		if blocked != "" {
			r.Eval(1)
			r.Violate("log-call-blocked:"+kindClass(kind), desc, "%s did not return within 8 s", blocked)
			log.VerifReset() // the blocked goroutine is abandoned; start over with clean registries
			tag = log.RegisterTag("tag_c01")
			return nil
		}
		// cross-check the Go-side expectation with the delivery lists TLC computed for the abstract levels
		for a := range c.Eff {
			var fromTLC []int
			if a < len(c.Delivered) {
				fromTLC = c.Delivered[a]
			}
			var mine []int
			for L := 0; L <= top; L++ {
				if L >= c.LR.Min && L < c.LR.Max && L >= c.Eff[a].Min && L < c.Eff[a].Max {
					mine = append(mine, L)
				}
			}
			if fmt.Sprint(mine) != fmt.Sprint(fromTLC) && !(len(mine) == 0 && len(fromTLC) == 0) {
				r.SetInfra("replayer's interval arithmetic disagrees with TLC's delivered list: %v vs %v", mine, fromTLC)
			}
		}
		if p := hx.Catch(func() { log.Destroy() }); p != nil {
			r.Violate("destroy-panic:"+kindClass(kind), desc, "Destroy panicked: %v", p)
		}
		r.Eval(int64(len(entries)))
		if panicked != nil {
			r.Violate("log-panic:"+kindClass(kind), desc, "logging panicked: %v", panicked)
			return nil
		}
		// gather deliveries: appender index -> id -> []level
		got := make([]map[int64][]string, len(c.Eff))
		for a := range got {
			got[a] = map[int64][]string{}
		}
		addLines := func(a int, data string) {
			for _, line := range strings.Split(data, "\n") {
				if line == "" {
					continue
				}
				lid, lvl := sys.ParseLine([]byte(line))
				if lid < 0 {
					if i := strings.Index(line, "id="); i >= 0 {
						fmt.Sscanf(line[i+3:], "%d", &lid)
					}
				}
				if lid < 0 && noIDFor[lvl] > 0 {
					lid = noIDFor[lvl]
				}
				got[a][lid] = append(got[a][lid], lvl)
			}
		}
		switch {
		case isRoll:
			ents, _ := os.ReadDir(dir)
			for _, e := range ents {
				b, _ := os.ReadFile(filepath.Join(dir, e.Name()))
				if strings.HasPrefix(e.Name(), "app.log.wf.") {
					if len(got) > 1 {
						addLines(1, string(b))
					} else if len(b) > 0 {
						r.Violate("unexpected-wf-file", desc, "a .wf file with content exists although separate=false")
					}
				} else {
					addLines(0, string(b))
				}
			}
		case kind == "console":
			addLines(0, console.Take())
		case kind == "file":
			b, _ := os.ReadFile(filepath.Join(dir, "f.log"))
			addLines(0, string(b))
		default:
			for a, name := range apps {
				if ap := sys.Appender(name); ap != nil {
					for _, rec := range ap.Recs() {
						rid := rec.ID
						if rid < 0 && noIDFor[rec.Level] > 0 {
							rid = noIDFor[rec.Level]
						}
						got[a][rid] = append(got[a][rid], rec.Level)
					}
				}
			}
		}
		if isRoll || kind == "file" {
			os.RemoveAll(dir)
		}
		for eid := int64(1); eid <= id; eid++ {
			x := exps[eid]
			for a := range c.Eff {
				g := got[a][eid]
				switch {
				case x.to[a] && len(g) == 0:
					r.Violate(lvKey("missing", kind, c, a), desc, "%s (level %s): appender %d (effective %s) did not receive the event", x.entry, x.level.Name(), a+1, effStr(m, c.Eff[a]))
				case x.to[a] && len(g) > 1:
					r.Violate("duplicate:"+kindClass(kind), desc, "%s: appender %d received the event %d times", x.entry, a+1, len(g))
				case !x.to[a] && len(g) > 0:
					r.Violate(lvKey("unexpected", kind, c, a), desc, "%s (level %s): appender %d (effective %s, logger %s) received an event outside its range", x.entry, x.level.Name(), a+1, effStr(m, c.Eff[a]), lrs)
				case x.to[a] && g[0] != x.level.Name():
					r.Violate("wrong-level:"+x.entry, desc, "%s emitted at level %s, want %s", x.entry, g[0], x.level.Name())
				}
			}
		}
		for a := range got {
			for gid := range got[a] {
				if gid < 1 || gid > id {
					r.Violate("foreign-record", desc, "appender %d holds a record with unknown id %d", a+1, gid)
				}
			}
		}
		if !selfTestDone && len(c.Eff) > 0 && kind == "sync" {
			selfTestDone = true
		}
		if n <= 2 || n == 3000 {
			r.Sample(map[string]any{"case": c, "rendered": desc})
		}
		return nil
	})
	if err != nil {
		r.SetInfra("read cases: %v", err)
	}
	r.NonTrivial(int64(len(nontriv)))
}

func kindClass(kind string) string {
	switch {
	case strings.HasPrefix(kind, "rollAsync"):
		return "rollAsync"
	case strings.HasPrefix(kind, "roll"):
		return "roll"
	}
	return kind
}

// lvKey classifies a delivery deviation so that a recorded finding names a specific shape.
func lvKey(what, kind string, c lvCase, a int) string {
	if !strings.HasPrefix(kind, "roll") && kind != "console" && kind != "file" {
		for j := range c.Refs {
			if j != a && a < len(c.Refs) && c.Refs[j].Min == c.Refs[a].Min && c.Refs[a].Max == -1 {
				return what + ":equal-lower-bounds"
			}
		}
		return what + ":refs"
	}
	return what + ":" + kindClass(kind)
}

func effStr(m []log.Level, r lvRange) string {
	if r.Min >= len(m) || r.Max >= len(m) || r.Max < 0 {
		return fmt.Sprint(r)
	}
	return "[" + m[r.Min].Name() + "," + m[r.Max].Name() + ")"
}

// blockOverflowDelivery: an event that had to wait for space (policy Block, full buffer) is an event like any other:
// it reaches the appender exactly once, at its own level.
func blockOverflowDelivery(r *hx.Result) {
	lg, gate, err := gatedLogger(log.BufferFullPolicyBlock)
	if err != nil {
		r.SetInfra("blockOverflowDelivery: %v", err)
		return
	}
	done := make(chan struct{})
	go func() {
		e := log.GetEvent()
		e.Level, e.Time, e.Tag = log.ErrorLevel, time.Now(), "load"
		e.Fields = []log.Field{log.Int("id", 102)}
		lg.Append(e) // waits for space
		close(done)
	}()
	time.Sleep(100 * time.Millisecond)
	desc := map[string]any{"logger": "AsyncLogger, policy Block, buffer full when the event was logged"}
	// the worker finishes exactly one item: one slot becomes free, the waiting call is admitted behind 100 others
	select {
	case gate.Gate <- struct{}{}:
	case <-time.After(8 * time.Second):
		r.SetInfra("blockOverflowDelivery: the worker is not waiting at the gate")
		return
	}
	select {
	case <-done:
	case <-time.After(8 * time.Second):
		r.Violate("log-call-blocked:async", desc, "the waiting log call did not return after a slot became free")
		close(gate.Gate)
		return
	}
	// ... and a second event right behind it, at another level
	e := log.GetEvent()
	e.Level, e.Time, e.Tag = log.WarnLevel, time.Now(), "load"
	e.Fields = []log.Field{log.Int("id", 103)}
	done2 := make(chan struct{})
	go func() { lg.Append(e); close(done2) }()
	time.Sleep(20 * time.Millisecond)
	close(gate.Gate)
	select {
	case <-done2: // no log call is in progress when Stop is called
	case <-time.After(8 * time.Second):
		r.Violate("log-call-blocked:async", desc, "the second waiting log call did not return after the worker was released")
		return
	}
	if ret, p := hx.Within(15*time.Second, func() { lg.Stop() }); !ret || p != nil {
		r.Violate("log-call-blocked:async", desc, "Stop returned=%v panic=%v", ret, p)
		return
	}
	r.Eval(2)
	got := map[int64][]string{}
	for _, rc := range gate.Recs() {
		got[rc.ID] = append(got[rc.ID], rc.Level)
	}
	if fmt.Sprint(got[102]) != "[ERROR]" || fmt.Sprint(got[103]) != "[WARN]" || len(got[-1]) > 0 {
		r.Violate("missing:async-block-overflow", desc, "events 102 (ERROR) and 103 (WARN) arrived as %v / %v, records without id: %d", got[102], got[103], len(got[-1]))
	}
}

// discardOldestDelivery: a full buffer under DiscardOldest.  The worker holds event 1, events 2..101 fill the 100
// slots, events 102..106 (levels ERROR, WARN, INFO, FATAL, PANIC) arrive: each evicts the oldest queued event and is
// queued itself.  Delivered in the end: 1 and 7..106, once each, each at its own level, to each reference whose range
// contains that level.
func discardOldestDelivery(r *hx.Result) {
	all := &sys.RecAppender{}
	gate := &sys.RecAppender{Gate: make(chan struct{}), Entered: make(chan int64, 1<<10)}
	warnUp := &sys.RecAppender{}
	lg := &log.AsyncLogger{
		LoggerBase: log.LoggerBase{Level: log.LevelRange{MinLevel: log.InfoLevel, MaxLevel: log.MaxLevel}},
		AppenderRefs: log.AppenderRefs{AppenderRefs: []*log.AppenderRef{
			{Appender: gate, Level: log.LevelRange{MinLevel: log.InfoLevel, MaxLevel: log.MaxLevel}},
			{Appender: all, Level: log.LevelRange{MinLevel: log.InfoLevel, MaxLevel: log.MaxLevel}},
			{Appender: warnUp, Level: log.LevelRange{MinLevel: log.WarnLevel, MaxLevel: log.MaxLevel}}}},
		BufferSize: 100, BufferFullPolicy: log.BufferFullPolicyDiscardOldest,
	}
	if err := lg.Start(); err != nil {
		r.SetInfra("discardOldestDelivery: %v", err)
		return
	}
	levels := []log.Level{log.ErrorLevel, log.WarnLevel, log.InfoLevel, log.FatalLevel, log.PanicLevel}
	levelOf := func(id int64) log.Level {
		if id >= 102 {
			return levels[(id-102)%5]
		}
		return levels[id%3] // ERROR, WARN, INFO among the fillers
	}
	put := func(id int64) {
		e := log.GetEvent()
		e.Level, e.Time, e.Tag = levelOf(id), time.Now(), "load"
		e.Fields = []log.Field{log.Int("id", int(id))}
		lg.Append(e)
	}
	desc := map[string]any{"logger": "AsyncLogger, policy DiscardOldest, references: everything / everything / WARN and above",
		"history": "worker holds event 1; 2..101 fill the buffer; 102..106 arrive; worker released; Stop"}
	put(1)
	select {
	case <-gate.Entered:
	case <-time.After(8 * time.Second):
		r.SetInfra("discardOldestDelivery: the worker did not take the first event")
		return
	}
	ok, p := hx.Within(10e9, func() {
		for id := int64(2); id <= 106; id++ {
			put(id)
		}
	})
	close(gate.Gate)
	if !ok || p != nil {
		r.Violate("log-call-blocked:async", desc, "logging into the full buffer under DiscardOldest: returned=%v panic=%v", ok, p)
		return
	}
	if ret, p := hx.Within(15*time.Second, func() { lg.Stop() }); !ret || p != nil {
		r.Violate("log-call-blocked:async", desc, "Stop returned=%v panic=%v", ret, p)
		return
	}
	r.Eval(106)
	for name, ap := range map[string]*sys.RecAppender{"everything": all, "WARN and above": warnUp} {
		got := map[int64][]string{}
		for _, rc := range ap.Recs() {
			got[rc.ID] = append(got[rc.ID], rc.Level)
		}
		for id := int64(1); id <= 106; id++ {
			want := "[]"
			if (id == 1 || id >= 7) && (name == "everything" || levelOf(id).Code() >= log.WarnLevel.Code()) {
				want = "[" + levelOf(id).Name() + "]"
			}
			if fmt.Sprint(got[id]) != want {
				r.Violate("missing:async-discard-oldest", desc, "reference %q: event %d (level %s) arrived as %v, want %s", name, id, levelOf(id).Name(), got[id], want)
				return
			}
		}
		if len(got[-1]) > 0 {
			r.Violate("extra:async-discard-oldest", desc, "reference %q received %d records that are none of the events logged (levels %v)", name, len(got[-1]), got[-1])
			return
		}
	}
	if lg.GetDiscardCounter() != 5 {
		r.Violate("missing:async-discard-oldest", desc, "discard counter %d, want 5", lg.GetDiscardCounter())
	}
}

// recordAnySkip: Record emits at its level whatever its skip argument is - the skip selects the reported location,
// not whether the event exists - in both caller-lookup modes, and with the lookup disabled.
func recordAnySkip(r *hx.Result) {
	ctx := context.Background()
	for _, mode := range []map[string]string{{}, {"fastCaller": "true"}, {"enableCaller": "false"}} {
		log.Destroy()
		log.VerifReset()
		sys.ResetAppenders()
		tag := log.RegisterTag("skip_tag")
		cfg := sys.Cfg{}
		cfg.AddRec("sk1")
		cfg.AddLogger("lg", "Logger", "INFO", "skip_tag", []sys.Ref{{Ref: "sk1"}}, false, nil)
		for k, v := range mode {
			cfg[k] = v
		}
		if err := log.Refresh(cfg.Map(nil)); err != nil {
			r.SetInfra("recordAnySkip refresh: %v", err)
			return
		}
		skips := []int{0, 1, 2, 3, 5, 10, 31, 32, 33, 64, 100, 200, 1000, 1 << 20}
		var p any
		done := make(chan struct{})
		go func() { // a fresh goroutine: the stack is three frames deep
			defer close(done)
			p = hx.Catch(func() {
				for i, sk := range skips {
					log.Record(ctx, log.WarnLevel, tag, sk, log.Int("id", i+1))
				}
			})
		}()
		<-done
		log.Destroy()
		r.Eval(int64(len(skips)))
		desc := map[string]any{"caller_properties": mode, "skips": skips}
		if p != nil {
			r.Violate("log-panic:record-skip", desc, "Record panicked: %v", p)
			continue
		}
		got := map[int64][]string{}
		for _, rc := range sys.Appender("sk1").Recs() {
			got[rc.ID] = append(got[rc.ID], rc.Level)
		}
		for i, sk := range skips {
			if fmt.Sprint(got[int64(i+1)]) != "[WARN]" {
				r.Violate("missing:record-skip", desc, "Record(WARN, skip %d) from the top of a goroutine arrived as %v, want exactly once at WARN", sk, got[int64(i+1)])
				break
			}
		}
	}
	log.VerifReset()
}

// rollingSeparateLongName: a RollingFile logger with separate=true and a file name so long that "<name>.<ts>" still fits
// the file system's limit while "<name>.wf.<ts>" does not.  Refresh may fail; if it succeeds, events of every level are
// in the file their level selects.
func rollingSeparateLongName(r *hx.Result) {
	tmp, err := os.MkdirTemp(os.Getenv("VERIF_SCRATCH"), "ln-")
	if err != nil {
		r.SetInfra("mkdtemp: %v", err)
		return
	}
	defer os.RemoveAll(tmp)
	log.RegisterTimeRotation("lnh", log.TimeRotation{Interval: time.Hour})
	ctx := context.Background()
	for _, n := range []int{200, 236, 237, 238, 239, 240, 241} {
		log.Destroy()
		log.VerifReset()
		sys.ResetAppenders()
		tag := log.RegisterTag("ln_tag")
		dir := filepath.Join(tmp, fmt.Sprint(n))
		_ = os.MkdirAll(dir, 0o755)
		name := strings.Repeat("n", n-4) + ".log"
		cfg := sys.Cfg{}
		cfg.AddRec("unused")
		cfg.AddLogger("lg", "RollingFile", "", "ln_tag", nil, false, map[string]string{"fileDir": dir, "fileName": name, "rotation": "lnh", "separate": "true"})
		var rerr error
		if p := hx.Catch(func() { rerr = log.Refresh(cfg.Map(nil)) }); p != nil {
			r.Violate("refresh-panic", map[string]any{"file_name_length": n}, "Refresh panicked: %v", p)
			continue
		}
		r.Eval(1)
		if rerr != nil {
			log.Destroy()
			continue // no successful Refresh: nothing is promised
		}
		log.Info(ctx, tag, log.Int("id", 1))
		log.Warn(ctx, tag, log.Int("id", 2))
		log.Error(ctx, tag, log.Int("id", 3))
		log.Destroy()
		var normal, wf string
		ents, _ := os.ReadDir(dir)
		for _, e := range ents {
			b, _ := os.ReadFile(filepath.Join(dir, e.Name()))
			if strings.HasPrefix(e.Name(), name+".wf.") {
				wf += string(b)
			} else {
				normal += string(b)
			}
		}
		cnt := func(s string, id int) int { return strings.Count(s, fmt.Sprintf("id=%d\n", id)) }
		if cnt(normal, 1) != 1 || cnt(wf, 2) != 1 || cnt(wf, 3) != 1 || cnt(normal, 2)+cnt(normal, 3)+cnt(wf, 1) != 0 {
			r.Violate("missing:rolling-separate-long-name", map[string]any{"file_name_length": n, "separate": true},
				"Refresh succeeded with a file name of %d bytes; INFO / WARN / ERROR events are in the normal file %d / %d / %d times and in the .wf file %d / %d / %d times (want 1 0 0 and 0 1 1)",
				n, cnt(normal, 1), cnt(normal, 2), cnt(normal, 3), cnt(wf, 1), cnt(wf, 2), cnt(wf, 3))
		}
	}
	log.VerifReset()
}
