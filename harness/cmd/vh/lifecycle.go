package main

// C16 / C10 / C12 - replays the operation histories emitted by TLC from spec/LogSystem.tla against
// the real library: Refresh / Destroy / log calls / raw writes through handles / registration /
// context hooks, comparing after every step what the specification expects to be observable.

import (
	"bytes"
	"context"
	"encoding/json"
	"fmt"
	"math/rand"
	"os"
	"path/filepath"
	"strings"
	"sync"
	"sync/atomic"
	"time"

	"github.com/go-spring/log"

	"verifharness/hx"
	"verifharness/sys"
)

func init() { commands["lifecycle"] = cmdLifecycle }

type lcStep struct {
	Props string          `json:"props"`
	Op    string          `json:"op"`
	Arg   json.RawMessage `json:"arg"`
	Exp   json.RawMessage `json:"exp"`
	Ph    string          `json:"ph"`
	Cfg   string          `json:"cfg"`
}

type lcHist struct {
	H []lcStep `json:"h"`
}

type lcLogExp struct {
	Dest      string   `json:"dest"`
	HookCalls string   `json:"hookCalls"`
	LazyCalls string   `json:"lazyCalls"`
	Hooks     []string `json:"hooks"`
}

var lcTagNames = map[string]string{"T1": "aa_x", "T2": "bb_y", "T3": "bb_z"}

// sinks of a logger (sink prefix) -> recording appender names: first takes events, second only raw writes
var lcSinks = map[string][]string{
	"A.ha":   {"recA1", "recA2"},
	"B.ha":   {"recB1a", "recB1b"},
	"B.hb":   {"recB2a", "recB2b"},
	"B.root": {"recBr", "recBr2"},
}

type ctxKey struct{}

var lcZones = []*time.Location{time.UTC, time.FixedZone("east", 5*3600+1800), time.FixedZone("west", -8*3600)}

func lcZoneOf(v any) *time.Location {
	switch id := v.(type) {
	case int64:
		return lcZones[int(id%3+3)%3]
	case int:
		return lcZones[(id%3+3)%3]
	}
	return time.UTC
}

type lcEnv struct {
	r        *hx.Result
	rng      *rand.Rand
	console  *sys.Console
	async    bool
	theta    log.Level // configured loggers accept levels in [theta, upper)
	upper    log.Level
	tmp      string
	tags     map[string]*log.Tag
	handles  map[string]*log.LoggerWrapper
	nextID   int64
	pending  []lcPending // expectations verified at flush points
	hookCnt  [3]int64
	lazyCnt  int64
	lastCtx  [3]context.Context
	hookTime time.Time
	desc     func() any
	failed   bool

	consoleText string
	noID        map[string]int
	shared      [8]log.Field
	recChecks   []lcRecCheck
}

type lcPending struct {
	id   int64
	dest string // sink prefix, "console", "none"
	raw  bool
	step int
	what string
}

func lcConfig(which string, async bool, theta, upper log.Level) sys.Cfg {
	cfg := sys.Cfg{}
	typ := "Logger"
	extra := map[string]string{}
	if async {
		typ = "AsyncLogger"
		extra = map[string]string{"bufferSize": "128", "bufferFullPolicy": "Block"}
	}
	add := func(name, tags string, apps []string) {
		for _, a := range apps {
			cfg.AddRec(a)
		}
		// the second reference only admits levels from TOP upwards: nothing logged here, raw writes only
		cfg.AddLogger(name, typ, lcRange(theta, upper), tags, []sys.Ref{{Ref: apps[0]}, {Ref: apps[1], Level: "TOP"}}, true, extra)
	}
	// process-wide properties differ between the two configurations
	switch which {
	case "A":
		cfg["bufferCap"], cfg["enableCaller"] = "8KB", "true"
	case "B":
		cfg["bufferCap"], cfg["enable-caller"] = "2KB", "false"
	}
	switch which {
	case "N": // appenders only: no logger section at all
		cfg.AddRec("recN1")
	case "A":
		add("ha", "aa_*", lcSinks["A.ha"]) // T1 = aa_x is served through a wildcard here ...
	case "B":
		add("ha", "bb_*, aa_*", lcSinks["B.ha"]) // ... which B keeps, next to a literal entry for T1 on another logger
		add("hb", "aa_x", lcSinks["B.hb"])
		add("root", "\x00", lcSinks["B.root"])
	}
	return cfg
}

func lcRange(lo, hi log.Level) string {
	if hi.Code() >= 999 {
		return lo.Name()
	}
	return lo.Name() + "~" + hi.Name()
}

func (e *lcEnv) badConfig(kind string) map[string]string {
	switch kind {
	case "badEarly":
		switch e.rng.Intn(3) {
		case 0:
			return map[string]string{"logger.x.type": "Logger", "logger.x.tags": "aa_x"} // no appender section
		case 1:
			return map[string]string{"appender!": "Rec{"} // unparsable inline expression
		default:
			return map[string]string{"appender.a.type": "Rec", "appender.a": "x"} // conflicting keys
		}
	default: // badLate
		c := lcConfig("A", e.async, e.theta, e.upper)
		switch e.rng.Intn(4) {
		case 0:
			c["appender.zz.type"] = "NoSuchAppender"
		case 1:
			c["appender.ff.type"] = "File"
			c["appender.ff.fileDir"] = filepath.Join(e.tmp, "missing-dir")
			c["appender.ff.fileName"] = "x.log"
		case 2:
			c["enableCaller"] = "not-a-bool"
		default:
			c["logger.ha.type"] = "AsyncLogger"
			c["logger.ha.bufferSize"] = "5" // start failure: buffer too small
		}
		return c
	}
}

func (e *lcEnv) viol(key string, format string, a ...any) {
	e.failed = true
	e.r.Violate(key, e.desc(), format, a...)
}

// guarded runs fn with a watchdog and panic capture.
func (e *lcEnv) guarded(step int, what string, fn func()) (ok bool, p any) {
	ret, p := hx.Within(8*time.Second, fn)
	if !ret {
		e.viol("blocked:"+what, "step %d: %s did not return within 8 s", step, what)
		if what == "Destroy" {
			atomic.StoreInt32(&hx.StopEarly, 1) // Destroy holds the library's lock for good: every later history would block too
		}
		return false, nil
	}
	return true, p
}

func (e *lcEnv) installHooks(set []string) {
	log.TimeNow, log.StringFromContext, log.FieldsFromContext = nil, nil, nil
	for _, h := range set {
		switch h {
		case "time":
			log.TimeNow = func(ctx context.Context) time.Time {
				atomic.AddInt64(&e.hookCnt[0], 1)
				e.lastCtx[0] = ctx
				// one instant, shown in the zone of the request: what a record shows is its own event's time value
				return e.hookTime.In(lcZoneOf(ctx.Value(ctxKey{})))
			}
		case "str":
			log.StringFromContext = func(ctx context.Context) string {
				atomic.AddInt64(&e.hookCnt[1], 1)
				e.lastCtx[1] = ctx
				return fmt.Sprintf("cs-%v", ctx.Value(ctxKey{}))
			}
		case "fields":
			log.FieldsFromContext = func(ctx context.Context) []log.Field {
				atomic.AddInt64(&e.hookCnt[2], 1)
				e.lastCtx[2] = ctx
				// a slice with spare capacity over one shared array: the library must not build the
				// record by appending into what the hook returned
				e.shared[0], e.shared[1] = log.String("ck1", "v"), log.Int("ck2", 7)
				return e.shared[:2:8]
			}
		}
	}
}

type lcEntry struct {
	name  string
	level log.Level
	lazy  bool
	call  func(ctx context.Context, tag *log.Tag, id int64, lazyCnt *int64)
}

var lcEntries []lcEntry

func init() {
	idf := func(id int64) log.Field { return log.Int("id", id) }
	gen := func(id int64, cnt *int64) func() []log.Field {
		return func() []log.Field { atomic.AddInt64(cnt, 1); return []log.Field{idf(id), log.String("own", "x")} }
	}
	lcEntries = []lcEntry{
		{"Trace", log.TraceLevel, true, func(c context.Context, t *log.Tag, id int64, n *int64) { log.Trace(c, t, gen(id, n)) }},
		{"Debug", log.DebugLevel, true, func(c context.Context, t *log.Tag, id int64, n *int64) { log.Debug(c, t, gen(id, n)) }},
		{"Trace(empty)", log.TraceLevel, true, func(c context.Context, t *log.Tag, id int64, n *int64) {
			log.Trace(c, t, func() []log.Field { atomic.AddInt64(n, 1); return nil })
		}},
		{"Debug(empty)", log.DebugLevel, true, func(c context.Context, t *log.Tag, id int64, n *int64) {
			log.Debug(c, t, func() []log.Field { atomic.AddInt64(n, 1); return []log.Field{} })
		}},
		{"Tracef", log.TraceLevel, false, func(c context.Context, t *log.Tag, id int64, n *int64) { log.Tracef(c, t, "id=%d", id) }},
		{"Debugf", log.DebugLevel, false, func(c context.Context, t *log.Tag, id int64, n *int64) { log.Debugf(c, t, "id=%d", id) }},
		{"Info", log.InfoLevel, false, func(c context.Context, t *log.Tag, id int64, n *int64) {
			log.Info(c, t, idf(id), log.String("own", "x"))
		}},
		{"Infof", log.InfoLevel, false, func(c context.Context, t *log.Tag, id int64, n *int64) { log.Infof(c, t, "id=%d", id) }},
		{"Warn", log.WarnLevel, false, func(c context.Context, t *log.Tag, id int64, n *int64) {
			log.Warn(c, t, idf(id), log.String("own", "x"))
		}},
		{"Warnf", log.WarnLevel, false, func(c context.Context, t *log.Tag, id int64, n *int64) { log.Warnf(c, t, "id=%d", id) }},
		{"Error", log.ErrorLevel, false, func(c context.Context, t *log.Tag, id int64, n *int64) {
			log.Error(c, t, idf(id), log.String("own", "x"))
		}},
		{"Errorf", log.ErrorLevel, false, func(c context.Context, t *log.Tag, id int64, n *int64) { log.Errorf(c, t, "id=%d", id) }},
		{"Panic", log.PanicLevel, false, func(c context.Context, t *log.Tag, id int64, n *int64) {
			log.Panic(c, t, idf(id), log.String("own", "x"))
		}},
		{"Panicf", log.PanicLevel, false, func(c context.Context, t *log.Tag, id int64, n *int64) { log.Panicf(c, t, "id=%d", id) }},
		{"Fatal", log.FatalLevel, false, func(c context.Context, t *log.Tag, id int64, n *int64) {
			log.Fatal(c, t, idf(id), log.String("own", "x"))
		}},
		{"Fatalf", log.FatalLevel, false, func(c context.Context, t *log.Tag, id int64, n *int64) { log.Fatalf(c, t, "id=%d", id) }},
	}
	for _, l := range []log.Level{log.NoneLevel, log.TraceLevel, log.DebugLevel, log.InfoLevel, log.WarnLevel, log.ErrorLevel, log.PanicLevel, log.FatalLevel, log.MaxLevel} {
		l := l
		lcEntries = append(lcEntries, lcEntry{"Record(" + l.Name() + ")", l, false,
			func(c context.Context, t *log.Tag, id int64, n *int64) {
				log.Record(c, l, t, 1, idf(id), log.String("own", "x"))
			}})
	}
}

// pickEntry chooses a concrete entry point of the abstract kind whose level lies on the wanted side of theta.
func (e *lcEnv) pickEntry(kind, L string) lcEntry {
	var cands []lcEntry
	for _, en := range lcEntries {
		if en.level.Code() >= 999 {
			continue // MAX is enabled nowhere, also not at the console logger
		}
		if (kind == "lazy") != en.lazy {
			continue
		}
		hi := en.level.Code() >= e.theta.Code() && en.level.Code() < e.upper.Code()
		if hi == (L == "hi") {
			cands = append(cands, en)
		}
	}
	if len(cands) == 0 {
		return lcEntry{}
	}
	return cands[e.rng.Intn(len(cands))]
}

// find looks a record up in the appenders of a sink.
func lcFind(names []string, id int64, raw bool) (counts []int, recs []sys.Rec) {
	counts = make([]int, len(names))
	for i, n := range names {
		a := sys.Appender(n)
		if a == nil {
			continue
		}
		for _, rc := range a.Recs() {
			if rc.ID == id && rc.IsWrite == raw {
				counts[i]++
				recs = append(recs, rc)
			}
		}
	}
	return
}

func (e *lcEnv) consoleHas(id int64, raw bool) int {
	// console content is accumulated per history
	n := 0
	for _, line := range strings.Split(e.consoleText, "\n") {
		if raw {
			if line == fmt.Sprintf("RAW id=%d payload", id) {
				n++
			}
		} else if strings.Contains(line, fmt.Sprintf("id=%d", id)) && !strings.HasPrefix(line, "RAW ") {
			n++
		}
	}
	return n
}

func cmdLifecycle(f hx.Flags, r *hx.Result) {
	rng := hx.Rand(16)
	console := sys.InstallConsole()
	tmp, err := os.MkdirTemp(os.Getenv("VERIF_SCRATCH"), "lc-")
	if err != nil {
		r.SetInfra("mkdtemp: %v", err)
		return
	}
	defer os.RemoveAll(tmp)
	mode := f.Str("mode", "both") // sync | async | both
	n := 0
	sigs := map[string]bool{}
	err = hx.ReadCases(f.Str("cases", ""), func(raw json.RawMessage) error {
		var h lcHist
		if err := json.Unmarshal(raw, &h); err != nil {
			return err
		}
		n++
		variants := []bool{false, true}
		switch mode {
		case "sync":
			variants = []bool{false}
		case "async":
			variants = []bool{true}
		case "alt":
			variants = []bool{n%2 == 0}
		}
		for _, async := range variants {
			runHistory(r, rng, console, tmp, &h, async)
		}
		sig := ""
		for _, s := range h.H {
			sig += s.Op + string(s.Arg) + ";"
		}
		sigs[sig] = true
		if n <= 2 || n == 2000 {
			r.Sample(h)
		}
		return nil
	})
	if err != nil {
		r.SetInfra("read cases: %v", err)
	}
	r.NonTrivial(int64(len(sigs)))
	log.TimeNow, log.StringFromContext, log.FieldsFromContext = nil, nil, nil
	if !hx.Stopped() {
		lcReentrantDestroy(r, false)
		lcReentrantDestroy(r, true)
		lcHookEdges(r)
		lcDestroyOnFullBuffer(r)
		lcOverflowRecords(r)
		lcLazyAcrossKinds(r)
	}
}

// lcReentrantDestroy: the state "while Destroy is running".  An appender's Stop logs through a tag and writes through
// a handle of the very system that is being destroyed; like in every other state that must neither panic nor block
// (where the bytes go is left open).
func lcReentrantDestroy(r *hx.Result, async bool) {
	log.Destroy()
	log.VerifReset()
	sys.ResetAppenders()
	tag := log.RegisterTag(lcTagNames["T1"])
	tag2 := log.RegisterTag(lcTagNames["T2"])
	ha := log.GetLogger("ha")
	c := lcConfig("A", async, log.InfoLevel, log.MaxLevel)
	if err := log.Refresh(c.Map(nil)); err != nil {
		r.SetInfra("reentrant destroy: refresh: %v", err)
		return
	}
	ctx := context.Background()
	log.Info(ctx, tag, log.Int("id", 1))
	var inner any
	calls := 0
	sys.OnStop = func(string) {
		calls++
		if p := hx.Catch(func() {
			log.Error(ctx, tag, log.Int("id", int64(100+calls)))
			log.Info(ctx, tag2, log.Int("id", int64(200+calls)))
			_, _ = ha.Write([]byte("from Stop\n"))
		}); p != nil && inner == nil {
			inner = p
		}
	}
	ret, p := hx.Within(8*time.Second, func() { log.Destroy() })
	sys.OnStop = nil
	r.Eval(1)
	desc := map[string]any{"scenario": "an appender logs from inside its Stop while Destroy runs", "async": async, "stop_calls": calls}
	switch {
	case !ret:
		r.Violate("blocked:reentrant-destroy", desc, "Destroy did not return within 8 s")
	case p != nil || inner != nil:
		r.Violate("log-panic:during-destroy", desc, "logging from an appender's Stop during Destroy panicked: %v %v", p, inner)
	}
	log.Destroy()
	log.VerifReset()
}

// lcDestroyOnFullBuffer: Destroy when an asynchronous logger's buffer is exactly full and its worker busy: whatever
// the overflow policy, Destroy returns once the worker can go on, and logging afterwards reaches the console.
func lcDestroyOnFullBuffer(r *hx.Result) {
	console := sys.InstallConsole()
	for _, pol := range []string{"Discard", "DiscardOldest", "Block"} {
		log.Destroy()
		log.VerifReset()
		sys.ResetAppenders()
		tag := log.RegisterTag("fb_tag")
		gate := &sys.RecAppender{Gate: make(chan struct{}), Entered: make(chan int64, 1024)}
		sys.GateNext["fb1"] = gate
		cfg := sys.Cfg{}
		cfg.AddRec("fb1")
		cfg.AddLogger("lg", "AsyncLogger", "", "fb_tag", []sys.Ref{{Ref: "fb1"}}, false, map[string]string{"bufferSize": "100", "bufferFullPolicy": pol})
		err := log.Refresh(cfg.Map(nil))
		delete(sys.GateNext, "fb1")
		if err != nil {
			r.SetInfra("lcDestroyOnFullBuffer refresh: %v", err)
			return
		}
		ctx := context.Background()
		log.Info(ctx, tag, log.Int("id", 1))
		select {
		case <-gate.Entered:
		case <-time.After(8 * time.Second):
			r.SetInfra("lcDestroyOnFullBuffer: the worker did not take the first event")
			return
		}
		for id := int64(2); id <= 101; id++ {
			log.Info(ctx, tag, log.Int("id", id)) // exactly fills the 100 slots
		}
		desc := map[string]any{"policy": pol, "buffer": "100 of 100 slots used, worker inside the appender", "then": "Destroy, worker released 200 ms later"}
		done := make(chan any, 1)
		go func() { done <- hx.Catch(func() { log.Destroy() }) }()
		time.Sleep(200 * time.Millisecond)
		close(gate.Gate)
		select {
		case p := <-done:
			if p != nil {
				r.Violate("destroy-panic", desc, "Destroy panicked: %v", p)
			}
		case <-time.After(8 * time.Second):
			r.Violate("blocked:Destroy:full-buffer", desc, "Destroy did not return within 8 s after the worker was released")
			return // the system is wedged
		}
		console.Take()
		if p := hx.Catch(func() { log.Info(ctx, tag, log.Int("id", 500)) }); p != nil {
			r.Violate("log-panic:destroyed", desc, "logging after Destroy panicked: %v", p)
		} else if !strings.Contains(console.Take(), "id=500") {
			r.Violate("console-delivery:event", desc, "an event logged after Destroy did not reach the console")
		}
		r.Eval(2)
	}
	log.VerifReset()
}

// lcLazyAcrossKinds: the level check in front of a lazy generator and of the hooks, for every logger kind the library
// offers (the tag's server may be any of them): below the logger's level neither the generator nor a hook runs and
// nothing comes out; at or above it each runs exactly once.
func lcLazyAcrossKinds(r *hx.Result) {
	console := sys.InstallConsole()
	tmp, err := os.MkdirTemp(os.Getenv("VERIF_SCRATCH"), "lk-")
	if err != nil {
		r.SetInfra("mkdtemp: %v", err)
		return
	}
	defer os.RemoveAll(tmp)
	log.RegisterTimeRotation("lkh", log.TimeRotation{Interval: time.Hour})
	type kindT struct {
		name, typ string
		ex        map[string]string
		rec       bool
	}
	kinds := []kindT{
		{"Logger", "Logger", nil, true},
		{"AsyncLogger", "AsyncLogger", map[string]string{"bufferSize": "100", "bufferFullPolicy": "Block"}, true},
		{"Console", "Console", nil, false},
		{"Discard", "Discard", nil, false},
		{"File", "File", map[string]string{"fileDir": tmp, "fileName": "lk.log"}, false},
		{"RollingFile", "RollingFile", map[string]string{"fileDir": tmp, "fileName": "lkr.log", "rotation": "lkh"}, false},
		{"RollingFile async", "RollingFile", map[string]string{"fileDir": tmp, "fileName": "lka.log", "rotation": "lkh", "async": "true"}, false},
	}
	for _, k := range kinds {
		for _, level := range []string{"INFO", "DEBUG", "TRACE", "ERROR"} {
			log.Destroy()
			log.VerifReset()
			sys.ResetAppenders()
			tag := log.RegisterTag("lk_tag")
			cfg := sys.Cfg{}
			cfg.AddRec("lk1")
			var refs []sys.Ref
			if k.rec {
				refs = []sys.Ref{{Ref: "lk1"}}
			}
			cfg.AddLogger("lg", k.typ, level, "lk_tag", refs, false, k.ex)
			if err := log.Refresh(cfg.Map(nil)); err != nil {
				r.SetInfra("lcLazyAcrossKinds refresh (%s): %v", k.name, err)
				return
			}
			var hooks, gens int64
			log.TimeNow = func(context.Context) time.Time { atomic.AddInt64(&hooks, 1); return time.Unix(1900000000, 0) }
			log.StringFromContext = func(context.Context) string { atomic.AddInt64(&hooks, 1); return "lk" }
			log.FieldsFromContext = func(context.Context) []log.Field { atomic.AddInt64(&hooks, 1); return nil }
			gen := func() []log.Field { atomic.AddInt64(&gens, 1); return []log.Field{log.Int("id", 1)} }
			ctx := context.Background()
			thr := map[string]int{"TRACE": 0, "DEBUG": 1, "INFO": 2, "ERROR": 4}[level]
			type callT struct {
				name string
				rank int
				lazy bool
				fn   func()
			}
			calls := []callT{
				{"Trace", 0, true, func() { log.Trace(ctx, tag, gen) }},
				{"Debug", 1, true, func() { log.Debug(ctx, tag, gen) }},
				{"Tracef", 0, false, func() { log.Tracef(ctx, tag, "m %d", 1) }},
				{"Debugf", 1, false, func() { log.Debugf(ctx, tag, "m %d", 1) }},
				{"Info", 2, false, func() { log.Info(ctx, tag, log.Int("id", 2)) }},
				{"Warn", 3, false, func() { log.Warn(ctx, tag, log.Int("id", 3)) }},
				{"Error", 4, false, func() { log.Error(ctx, tag, log.Int("id", 4)) }},
			}
			for _, c := range calls {
				atomic.StoreInt64(&hooks, 0)
				atomic.StoreInt64(&gens, 0)
				p := hx.Catch(c.fn)
				h, g := atomic.LoadInt64(&hooks), atomic.LoadInt64(&gens)
				enabled := c.rank >= thr
				desc := map[string]any{"logger_kind": k.name, "logger_level": level, "entry": c.name, "enabled": enabled}
				wantH, wantG := int64(0), int64(0)
				if enabled {
					wantH = 3
					if c.lazy {
						wantG = 1
					}
				}
				r.Eval(1)
				switch {
				case p != nil:
					r.Violate("log-panic:kinds", desc, "%s panicked: %v", c.name, p)
				case g != wantG:
					r.Violate("lazy-count:kinds", desc, "%s on a %s logger at level %s: the lazy generator ran %d times, want %d", c.name, k.name, level, g, wantG)
				case h != wantH:
					r.Violate("hook-count:kinds", desc, "%s on a %s logger at level %s: the three hooks ran %d times in total, want %d", c.name, k.name, level, h, wantH)
				}
			}
			log.TimeNow, log.StringFromContext, log.FieldsFromContext = nil, nil, nil
			if ok, p := hx.Within(10e9, func() { log.Destroy() }); !ok || p != nil {
				r.Violate("blocked:Destroy:kinds", map[string]any{"logger_kind": k.name}, "Destroy returned=%v panic=%v", ok, p)
				log.VerifReset()
				return
			}
			console.Take()
		}
	}
	log.VerifReset()
}

// lcOverflowRecords: an asynchronous logger whose buffer overflows while the hooks are set.  Whatever the policy drops,
// every record that does come out is one of the events logged, once, with its own hook results - never an empty or
// foreign record.
func lcOverflowRecords(r *hx.Result) {
	for _, pol := range []string{"Discard", "DiscardOldest"} {
		log.Destroy()
		log.VerifReset()
		sys.ResetAppenders()
		tag := log.RegisterTag("ov_tag")
		gate := &sys.RecAppender{Gate: make(chan struct{}), Entered: make(chan int64, 1024)}
		sys.GateNext["ov1"] = gate
		cfg := sys.Cfg{}
		cfg.AddRec("ov1")
		cfg.AddLogger("lg", "AsyncLogger", "", "ov_tag", []sys.Ref{{Ref: "ov1"}}, false, map[string]string{"bufferSize": "100", "bufferFullPolicy": pol})
		err := log.Refresh(cfg.Map(nil))
		delete(sys.GateNext, "ov1")
		if err != nil {
			r.SetInfra("lcOverflowRecords refresh: %v", err)
			return
		}
		var mu sync.Mutex
		var cnt [3]map[int64]int
		for i := range cnt {
			cnt[i] = map[int64]int{}
		}
		idOf := func(ctx context.Context) int64 { id, _ := ctx.Value(ctxKey{}).(int64); return id }
		bump := func(h int, ctx context.Context) { mu.Lock(); cnt[h][idOf(ctx)]++; mu.Unlock() }
		base := time.Date(2033, 1, 2, 3, 4, 5, 0, time.UTC)
		log.TimeNow = func(ctx context.Context) time.Time {
			bump(0, ctx)
			return base.Add(time.Duration(idOf(ctx)) * time.Second)
		}
		log.StringFromContext = func(ctx context.Context) string { bump(1, ctx); return fmt.Sprintf("cs-%d", idOf(ctx)) }
		log.FieldsFromContext = func(ctx context.Context) []log.Field {
			bump(2, ctx)
			return []log.Field{log.String("ck1", "v"), log.Int("ck2", int(idOf(ctx)))}
		}
		emit := func(id int64) {
			log.Info(context.WithValue(context.Background(), ctxKey{}, id), tag, log.Int("id", int(id)), log.String("own", "x"))
		}
		desc := map[string]any{"policy": pol, "scenario": "worker held inside the appender by event 1, events 2..101 fill the 100 slots, events 102..130 overflow, then the worker is released"}
		emit(1)
		select {
		case <-gate.Entered:
		case <-time.After(8 * time.Second):
			r.SetInfra("lcOverflowRecords: the worker did not take the first event")
			return
		}
		ok, p := hx.Within(10e9, func() {
			for id := int64(2); id <= 130; id++ {
				emit(id)
			}
		})
		log.TimeNow, log.StringFromContext, log.FieldsFromContext = nil, nil, nil
		close(gate.Gate)
		if !ok || p != nil {
			r.Violate("log-panic:overflow", desc, "logging into the full buffer: returned=%v panic=%v", ok, p)
			log.VerifReset()
			continue
		}
		if ok, p := hx.Within(10e9, func() { log.Destroy() }); !ok || p != nil {
			r.Violate("blocked:Destroy:overflow", desc, "Destroy returned=%v panic=%v", ok, p)
			log.VerifReset()
			return
		}
		r.Eval(130)
		seen := map[int64]int{}
		for _, rc := range sys.Appender("ov1").Recs() {
			id := rc.ID
			seen[id]++
			switch {
			case id < 1 || id > 130:
				r.Violate("record-foreign:overflow", desc, "a record came out that is none of the events logged: id %d level %s time %v keys %v", id, rc.Level, rc.Time, rc.Keys)
			case seen[id] > 1:
				r.Violate("event-delivery:overflow", desc, "event %d was recorded %d times", id, seen[id])
			case cnt[0][id] != 1 || cnt[1][id] != 1 || cnt[2][id] != 1:
				r.Violate("hook-count:overflow", desc, "event %d: time / string / fields hooks ran %d / %d / %d times, want once each", id, cnt[0][id], cnt[1][id], cnt[2][id])
			case !rc.Time.Equal(base.Add(time.Duration(id) * time.Second)):
				r.Violate("record-time", desc, "event %d: record time %v, the hook returned %v", id, rc.Time, base.Add(time.Duration(id)*time.Second))
			case rc.CtxString != fmt.Sprintf("cs-%d", id):
				r.Violate("record-ctxstring", desc, "event %d: context string %q", id, rc.CtxString)
			case len(rc.Keys) != 4 || rc.Keys[0] != "ck1" || rc.Keys[1] != "ck2" || rc.Keys[2] != "id" || rc.Keys[3] != "own":
				r.Violate("record-ctxfields", desc, "event %d: record keys %v, want ck1 ck2 id own", id, rc.Keys)
			}
		}
		if len(seen) < 100 {
			r.Violate("event-delivery:overflow", desc, "only %d of the 130 events came out; the buffer alone holds 100", len(seen))
		}
	}
	log.VerifReset()
}

// lcHookEdges: hooks at their edges.  (a) the timestamp hook returns the zero time: that is the event's time;
// (b) a hook panics once (the caller recovers): the next event gets all its hooks again; (c) a hook logs another
// event itself: both events get their hooks, each with its own context; (d) the context-fields hook returns one and
// the same slice (no spare capacity) for every event: it is the hook's, every record shows its fields.
func lcHookEdges(r *hx.Result) {
	log.Destroy()
	log.VerifReset()
	sys.ResetAppenders()
	tag, inner := log.RegisterTag("he_tag"), log.RegisterTag("he_inner")
	cfg := sys.Cfg{}
	cfg.AddRec("he1")
	cfg.AddLogger("lg", "Logger", "", "he_tag, he_inner", []sys.Ref{{Ref: "he1"}}, false, nil)
	if err := log.Refresh(cfg.Map(nil)); err != nil {
		r.SetInfra("lcHookEdges refresh: %v", err)
		return
	}
	stable := []log.Field{log.String("ck1", "v"), log.Int("ck2", 7)}
	var cnt [3]map[int64]int
	for i := range cnt {
		cnt[i] = map[int64]int{}
	}
	idOf := func(ctx context.Context) int64 { id, _ := ctx.Value(ctxKey{}).(int64); return id }
	fixed := time.Date(2032, 3, 4, 5, 6, 7, 0, time.UTC)
	log.TimeNow = func(ctx context.Context) time.Time {
		cnt[0][idOf(ctx)]++
		if idOf(ctx) == 1 {
			return time.Time{}
		}
		return fixed
	}
	log.StringFromContext = func(ctx context.Context) string {
		cnt[1][idOf(ctx)]++
		if idOf(ctx) == 2 {
			panic("hook failure")
		}
		return fmt.Sprintf("cs-%d", idOf(ctx))
	}
	log.FieldsFromContext = func(ctx context.Context) []log.Field {
		cnt[2][idOf(ctx)]++
		if idOf(ctx) == 4 { // this hook logs on its own
			log.Warn(context.WithValue(context.Background(), ctxKey{}, int64(40)), inner, log.Int("id", 40))
		}
		return stable
	}
	defer func() { log.TimeNow, log.StringFromContext, log.FieldsFromContext = nil, nil, nil }()
	emit := func(id int64) any {
		return hx.Catch(func() {
			log.Info(context.WithValue(context.Background(), ctxKey{}, id), tag, log.Int("id", id), log.String("own", "x"))
		})
	}
	p1 := emit(1)
	p2 := emit(2) // panics inside the context-string hook
	p3 := emit(3)
	p4 := emit(4) // its context-fields hook logs event 40
	p5 := emit(5)
	log.TimeNow, log.StringFromContext, log.FieldsFromContext = nil, nil, nil
	log.Destroy()
	r.Eval(6)
	desc := map[string]any{"scenario": "1: zero time from the hook; 2: context-string hook panics; 3: ordinary; 4: context-fields hook logs event 40; 5: ordinary; one stable context-fields slice throughout"}
	if p1 != nil || p3 != nil || p4 != nil || p5 != nil || p2 != "hook failure" {
		r.Violate("log-panic:hooks", desc, "panics of the five calls: %v %v %v %v %v (only the second may panic, with the hook's own value)", p1, p2, p3, p4, p5)
		return
	}
	recs := map[int64]sys.Rec{}
	n := map[int64]int{}
	for _, rc := range sys.Appender("he1").Recs() {
		recs[rc.ID] = rc
		n[rc.ID]++
	}
	for _, id := range []int64{1, 3, 4, 40, 5} {
		rc, ok := recs[id]
		wantT := fixed
		if id == 1 {
			wantT = time.Time{}
		}
		switch {
		case !ok || n[id] != 1:
			r.Violate("event-delivery:hook-edges", desc, "event %d was recorded %d times", id, n[id])
		case cnt[0][id] != 1 || cnt[1][id] != 1 || cnt[2][id] != 1:
			r.Violate("hook-count:hook-edges", desc, "event %d: time / string / fields hooks ran %d / %d / %d times, want once each", id, cnt[0][id], cnt[1][id], cnt[2][id])
		case !rc.Time.Equal(wantT) || rc.Time.IsZero() != wantT.IsZero():
			r.Violate("record-time", desc, "event %d: record time %v, the hook returned %v", id, rc.Time, wantT)
		case rc.CtxString != fmt.Sprintf("cs-%d", id):
			r.Violate("record-ctxstring", desc, "event %d: context string %q", id, rc.CtxString)
		case len(rc.Keys) < 3 || rc.Keys[0] != "ck1" || rc.Keys[1] != "ck2":
			r.Violate("record-ctxfields", desc, "event %d: record keys %v; the context fields ck1, ck2 come first", id, rc.Keys)
		}
	}
	if stable[0].Key != "ck1" || stable[1].Key != "ck2" {
		r.Violate("record-ctxfields", desc, "the slice the context-fields hook hands out was modified by the library: %v", []string{stable[0].Key, stable[1].Key})
	}
	log.VerifReset()
}

func runHistory(r *hx.Result, rng *rand.Rand, console *sys.Console, tmp string, h *lcHist, async bool) {
	thetas := []log.Level{log.TraceLevel, log.DebugLevel, log.InfoLevel, log.ErrorLevel, log.FatalLevel}
	e := &lcEnv{r: r, rng: rng, console: console, async: async, tmp: tmp,
		tags: map[string]*log.Tag{}, handles: map[string]*log.LoggerWrapper{}, noID: map[string]int{}}
	// a history with lazy steps needs theta between TRACE and INFO to have candidates on both sides
	e.theta = thetas[rng.Intn(len(thetas))]
	e.upper = log.MaxLevel
	if rng.Intn(3) == 0 { // a range that is also bounded from above
		ups := []log.Level{log.DebugLevel, log.InfoLevel, log.WarnLevel, log.PanicLevel, log.FatalLevel, lvTop}
		var cand []log.Level
		for _, u := range ups {
			if u.Code() > e.theta.Code() {
				cand = append(cand, u)
			}
		}
		e.upper = cand[rng.Intn(len(cand))]
	}
	for _, s := range h.H {
		if s.Op == "Log" && strings.Contains(string(s.Arg), `"lazy"`) {
			// lazy entry points exist at TRACE and DEBUG only: keep one on each side of the range,
			// either disabled from below or disabled from above
			if rng.Intn(2) == 0 {
				e.theta, e.upper = log.DebugLevel, log.MaxLevel
			} else {
				e.theta, e.upper = log.TraceLevel, log.DebugLevel
			}
			break
		}
	}
	e.hookTime = time.Date(2031, 2, 3, 4, 5, 6, 789000000, time.UTC)
	e.desc = func() any {
		return map[string]any{"history": h.H, "async": async, "level": lcRange(e.theta, e.upper)}
	}
	if ok, _ := hx.Within(8*time.Second, func() { log.Destroy() }); !ok {
		// an earlier Destroy never returned: the process-wide state is wedged, nothing further can be concluded
		e.viol("blocked:Destroy", "the Destroy that separates two histories did not return within 8 s")
		atomic.StoreInt32(&hx.StopEarly, 1)
		return
	}
	log.VerifReset()
	sys.ResetAppenders()
	e.installHooks(nil)
	console.Take()
	e.consoleText = ""
	e.tags["T1"] = log.RegisterTag(lcTagNames["T1"])
	e.tags["T2"] = log.RegisterTag(lcTagNames["T2"])
	e.handles["ha"] = log.GetLogger("ha")
	r.Eval(1)

	checkProps := func(si int, props string) {
		want := map[string]int32{"-": 10240, "A": 8192, "B": 2048}
		if w, ok := want[props]; ok && log.BufferCap.Load() != w {
			e.viol("global-properties:"+props, "before step %d: bufferCap is %d, the specification has the properties of %q in force (%d)", si, log.BufferCap.Load(), props, w)
		}
	}
	for si, s := range h.H {
		if e.failed {
			break
		}
		checkProps(si, s.Props)
		var expStr string
		_ = json.Unmarshal(s.Exp, &expStr)
		switch s.Op {
		case "Refresh":
			var which string
			_ = json.Unmarshal(s.Arg, &which)
			var m map[string]string
			if which == "A" || which == "B" || which == "N" {
				c := lcConfig(which, async, e.theta, e.upper)
				m = c.Map(rng.Perm(len(c)))
			} else {
				m = e.badConfig(which)
			}
			var rerr error
			ok, p := e.guarded(si, "Refresh", func() { rerr = log.Refresh(m) })
			if !ok {
				return
			}
			if p != nil {
				e.viol("refresh-panic", "step %d: Refresh(%s) panicked: %v", si, which, p)
				return
			}
			switch {
			case expStr == "ok" && rerr != nil:
				e.viol("refresh-rejected:"+s.Ph, "step %d: Refresh(%s) in phase %s failed: %s", si, which, s.Ph, firstLine(rerr.Error()))
			case expStr == "err" && rerr == nil:
				e.viol("refresh-accepted:"+s.Ph+":"+which, "step %d: Refresh(%s) in phase %s returned nil, the specification requires an error", si, which, s.Ph)
			}
		case "Destroy":
			ok, p := e.guarded(si, "Destroy", func() { log.Destroy() })
			if !ok {
				return
			}
			if p != nil {
				e.viol("destroy-panic", "step %d: Destroy panicked: %v", si, p)
				return
			}
			e.flush(si)
		case "RegisterTag", "GetHandle":
			var name string
			_ = json.Unmarshal(s.Arg, &name)
			var tg *log.Tag
			var hd *log.LoggerWrapper
			ok, p := e.guarded(si, s.Op, func() {
				if s.Op == "RegisterTag" {
					tg = log.RegisterTag(lcTagNames[name])
				} else {
					hd = log.GetLogger(name)
				}
			})
			if !ok {
				return
			}
			switch {
			case expStr == "panic" && p == nil:
				e.viol("registration-not-refused", "step %d: %s(%s) succeeded while a configuration is live", si, s.Op, name)
			case expStr == "ok" && p != nil:
				e.viol("registration-refused:"+s.Ph, "step %d: %s(%s) panicked in phase %s: %v", si, s.Op, name, s.Ph, p)
			}
			if p == nil {
				if s.Op == "RegisterTag" {
					if prev, ok := e.tags[name]; ok && prev != tg {
						e.viol("tag-not-same", "step %d: RegisterTag returned a different object for %s", si, name)
					}
					if expStr != "any" || tg != nil {
						e.tags[name] = tg
					}
				} else {
					if prev, ok := e.handles[name]; ok && prev != hd {
						e.viol("handle-not-same", "step %d: GetLogger(%q) returned a different handle than before", si, name)
					}
					e.handles[name] = hd
				}
			}
		case "SetHooks":
			var set []string
			_ = json.Unmarshal(s.Arg, &set)
			e.installHooks(set)
		case "Log":
			e.stepLog(si, s)
		case "Write":
			e.stepWrite(si, s)
		}
	}
	// final flush: stop everything, then verify what is still pending
	if !e.failed {
		if ok, p := e.guarded(len(h.H), "Destroy", func() { log.Destroy() }); ok && p != nil {
			e.viol("destroy-panic", "final Destroy panicked: %v", p)
		} else if ok {
			e.flush(len(h.H))
		}
	}
	e.installHooks(nil)
}

func (e *lcEnv) stepLog(si int, s lcStep) {
	var arg []string
	_ = json.Unmarshal(s.Arg, &arg)
	var exp lcLogExp
	_ = json.Unmarshal(s.Exp, &exp)
	kind, tname, L := arg[0], arg[1], arg[2]
	tag := e.tags[tname]
	if tag == nil {
		return // registered during an "any" phase and refused: nothing to log through
	}
	en := e.pickEntry(kind, L)
	if en.call == nil {
		return
	}
	e.nextID++
	id := e.nextID
	ctx := context.WithValue(context.Background(), ctxKey{}, id)
	before := e.hookCnt
	lazyBefore := atomic.LoadInt64(&e.lazyCnt)
	// records without id at the destination before the call (the appender instances change with every Refresh)
	noIDBefore := -1
	if _, ok := lcSinks[exp.Dest]; ok && !e.async {
		cnt, _ := lcFind(lcSinks[exp.Dest][:1], -1, false)
		noIDBefore = cnt[0]
	}
	t0 := time.Now()
	ok, p := e.guarded(si, en.name, func() { en.call(ctx, tag, id, &e.lazyCnt) })
	t1 := time.Now()
	if !ok {
		return
	}
	if p != nil {
		e.viol("log-panic:"+s.Ph, "step %d: %s through tag %s in phase %s panicked: %v", si, en.name, tname, s.Ph, p)
		return
	}
	e.r.Eval(1)
	if exp.Dest == "any" {
		return
	}
	emitted := exp.Dest != "none"
	// C10: hooks
	hookNames := []string{"time", "str", "fields"}
	for i, hn := range hookNames {
		installed := false
		for _, x := range exp.Hooks {
			if x == hn {
				installed = true
			}
		}
		delta := e.hookCnt[i] - before[i]
		want := int64(0)
		if installed && emitted {
			want = 1
		}
		if delta != want {
			e.viol(fmt.Sprintf("hook-count:%s:%s", hn, tern(emitted, "emitted", "disabled")),
				"step %d: %s (level %s, %s): hook %s invoked %d times, specification: %d", si, en.name, en.level.Name(), tern(emitted, "emitted", "disabled"), hn, delta, want)
		}
		if installed && emitted && delta >= 1 && e.lastCtx[i] != ctx {
			e.viol("hook-context:"+hn, "step %d: %s: hook %s did not receive the caller's context", si, en.name, hn)
		}
	}
	if en.lazy {
		d := atomic.LoadInt64(&e.lazyCnt) - lazyBefore
		want := int64(0)
		if emitted {
			want = 1
		}
		if d != want {
			e.viol("lazy-count:"+tern(emitted, "emitted", "disabled"), "step %d: %s (%s): generator invoked %d times, specification: %d", si, en.name, tern(emitted, "emitted", "disabled"), d, want)
		}
	}
	if strings.HasSuffix(en.name, "(empty)") {
		// the event carries no field of its own, hence no id: the hook counts above decide; additionally the
		// number of records without id at the destination must have grown by one when emitted
		if emitted && exp.Dest != "console" && !e.async && noIDBefore >= 0 {
			cnt, _ := lcFind(lcSinks[exp.Dest][:1], -1, false)
			if cnt[0] != noIDBefore+1 {
				e.viol("event-delivery:empty-generator", "step %d: %s: an enabled event whose generator returned no fields was not delivered (%d records without id at %s, %d before the call)", si, en.name, cnt[0], exp.Dest, noIDBefore)
			}
		}
		return
	}
	e.pending = append(e.pending, lcPending{id: id, dest: exp.Dest, step: si, what: en.name})
	// content of the record (checked where it can be seen synchronously or after flush)
	e.recChecks = append(e.recChecks, lcRecCheck{id: id, hooks: exp.Hooks, t0: t0, t1: t1, entry: en, dest: exp.Dest, step: si})
	if !e.async || exp.Dest == "console" || exp.Dest == "none" {
		e.verify(si, false)
	}
}

type lcRecCheck struct {
	id     int64
	hooks  []string
	t0, t1 time.Time
	entry  lcEntry
	dest   string
	step   int
}

func (e *lcEnv) stepWrite(si int, s lcStep) {
	var hname string
	_ = json.Unmarshal(s.Arg, &hname)
	var exp struct {
		Dest string `json:"dest"`
	}
	_ = json.Unmarshal(s.Exp, &exp)
	hd := e.handles[hname]
	if hd == nil {
		return
	}
	e.nextID++
	id := e.nextID
	payload := []byte(fmt.Sprintf("RAW id=%d payload\n", id))
	buf := append([]byte(nil), payload...)
	var n int
	var werr error
	ok, p := e.guarded(si, "Write("+hname+")", func() { n, werr = hd.Write(buf) })
	if !ok {
		return
	}
	if p != nil {
		e.viol("write-panic:"+s.Ph, "step %d: handle %q Write in phase %s panicked: %v", si, hname, s.Ph, p)
		return
	}
	// the caller recycles its buffer right after the call
	for i := range buf {
		buf[i] = '#'
	}
	e.r.Eval(1)
	if n != len(payload) || werr != nil {
		e.viol("write-result", "step %d: Write returned (%d, %v), want (%d, nil)", si, n, werr, len(payload))
	}
	if exp.Dest == "any" {
		return
	}
	e.pending = append(e.pending, lcPending{id: id, dest: exp.Dest, raw: true, step: si, what: "Write(" + hname + ")"})
	if !e.async || exp.Dest == "console" {
		e.verify(si, false)
	}
}

// flush is called after Destroy: everything accepted must be visible now.
func (e *lcEnv) flush(si int) { e.verify(si, true) }

// verify checks pending expectations; with final=false only those are dropped that are satisfied
// or synchronously decidable.
func (e *lcEnv) verify(si int, final bool) {
	e.consoleText += e.console.Take()
	var keep []lcPending
	for _, pd := range e.pending {
		decidable := final || !e.async || pd.dest == "console"
		if !decidable {
			keep = append(keep, pd)
			continue
		}
		// where did it arrive?
		arrived := map[string][]int{}
		for sink, names := range lcSinks {
			counts, _ := lcFind(names, pd.id, pd.raw)
			for _, c := range counts {
				if c > 0 {
					arrived[sink] = counts
					break
				}
			}
		}
		if c := e.consoleHas(pd.id, pd.raw); c > 0 {
			arrived["console"] = []int{c}
		}
		for sink := range arrived {
			if sink != pd.dest {
				e.viol(fmt.Sprintf("misrouted:%s->%s", destClass(pd.dest), destClass(sink)),
					"step %d: %s (id %d) must go to %s but arrived at %s %v", pd.step, pd.what, pd.id, pd.dest, sink, arrived[sink])
			}
		}
		switch {
		case pd.dest == "none":
			// nothing may have arrived anywhere (checked above)
			if !final && e.async {
				keep = append(keep, pd) // could still be in a queue: look again at the flush
			}
		case pd.dest == "console":
			if c := arrived["console"]; len(c) == 0 || c[0] != 1 {
				e.viol("console-delivery:"+tern(pd.raw, "raw", "event"), "step %d: %s (id %d) must appear once on the console stream, seen %v", pd.step, pd.what, pd.id, c)
			}
		default:
			counts, _ := lcFind(lcSinks[pd.dest], pd.id, pd.raw)
			if pd.raw {
				// every appender of the logger, regardless of reference ranges, exactly once
				for i, c := range counts {
					if c != 1 {
						e.viol("raw-delivery", "step %d: %s (id %d): appender %s of logger %s received it %d times, want 1", pd.step, pd.what, pd.id, lcSinks[pd.dest][i], pd.dest, c)
					}
				}
			} else if counts[0] != 1 || counts[1] != 0 {
				e.viol("event-delivery", "step %d: %s (id %d): appenders of %s received it %v times, want [1 0]", pd.step, pd.what, pd.id, pd.dest, counts)
			}
		}
	}
	e.pending = keep
	if final {
		e.checkRecords()
	}
}

func destClass(d string) string {
	if d == "console" || d == "none" {
		return d
	}
	return "logger"
}

// checkRecords verifies payload and C10 record content for everything delivered to recording appenders.
func (e *lcEnv) checkRecords() {
	for _, rc := range e.recChecks {
		if rc.dest == "none" || rc.dest == "any" {
			continue
		}
		has := func(h string) bool {
			for _, x := range rc.hooks {
				if x == h {
					return true
				}
			}
			return false
		}
		if rc.dest == "console" {
			// text line: time, ctx string and ctx fields ahead of own fields
			for _, line := range strings.Split(e.consoleText, "\n") {
				if !strings.Contains(line, fmt.Sprintf("id=%d", rc.id)) || strings.HasPrefix(line, "RAW ") {
					continue
				}
				if has("time") && !strings.Contains(line, "["+e.hookTime.In(lcZoneOf(rc.id)).Format("2006-01-02T15:04:05.000")+"]") {
					e.viol("record-time", "step %d: %s: console line does not carry the hook's time: %q", rc.step, rc.entry.name, line)
				}
				if has("str") && !strings.Contains(line, fmt.Sprintf("||cs-%d||", rc.id)) {
					e.viol("record-ctxstring", "step %d: %s: console line lacks the context string: %q", rc.step, rc.entry.name, line)
				}
				if has("fields") {
					i, j := strings.Index(line, "ck1=v||ck2=7"), strings.Index(line, fmt.Sprintf("id=%d", rc.id))
					if i < 0 || j < 0 || i > j {
						e.viol("record-ctxfields", "step %d: %s: context fields must precede the call's fields: %q", rc.step, rc.entry.name, line)
					}
				}
			}
			continue
		}
		_, recs := lcFind(lcSinks[rc.dest][:1], rc.id, false)
		for _, rec := range recs {
			if rec.Level != rc.entry.level.Name() {
				e.viol("record-level", "step %d: %s recorded at level %s", rc.step, rc.entry.name, rec.Level)
			}
			if has("time") {
				if !rec.Time.Equal(e.hookTime) {
					e.viol("record-time", "step %d: %s: record time %v is not the hook's time", rc.step, rc.entry.name, rec.Time)
				}
			} else if rec.Time.Before(rc.t0.Add(-time.Millisecond)) || rec.Time.After(rc.t1.Add(time.Millisecond)) {
				e.viol("record-time", "step %d: %s: record time %v outside the call window [%v,%v]", rc.step, rc.entry.name, rec.Time, rc.t0, rc.t1)
			}
			wantCS := ""
			if has("str") {
				wantCS = fmt.Sprintf("cs-%d", rc.id)
			}
			if rec.CtxString != wantCS {
				e.viol("record-ctxstring", "step %d: %s: context string %q, want %q", rc.step, rc.entry.name, rec.CtxString, wantCS)
			}
			// context fields ahead of the call's own fields, whichever event member carries them
			ok := true
			if has("fields") {
				ok = len(rec.Keys) >= 3 && rec.Keys[0] == "ck1" && rec.Keys[1] == "ck2"
				for _, k := range rec.Keys[min(2, len(rec.Keys)):] {
					if k == "ck1" || k == "ck2" {
						ok = false
					}
				}
			} else {
				for _, k := range rec.Keys {
					if k == "ck1" || k == "ck2" {
						ok = false
					}
				}
			}
			last := ""
			if len(rec.Keys) > 0 {
				last = rec.Keys[len(rec.Keys)-1]
			}
			if !ok || (last != "own" && last != "msg") {
				e.viol("record-ctxfields", "step %d: %s: record keys %v; hooks installed %v: context fields must come first, then the call's own fields", rc.step, rc.entry.name, rec.Keys, rc.hooks)
			}
		}
	}
	// raw payloads must be verbatim (the caller overwrote its buffer after the call)
	for sink, names := range lcSinks {
		for _, n := range names {
			a := sys.Appender(n)
			if a == nil {
				continue
			}
			for _, rec := range a.Recs() {
				if rec.IsWrite && bytes.HasPrefix(rec.Raw, []byte("#")) {
					e.viol("raw-not-verbatim", "appender %s of %s holds bytes the caller wrote into its buffer after Write returned: %q", n, sink, rec.Raw)
				} else if rec.IsWrite && rec.ID > 0 && string(rec.Raw) != fmt.Sprintf("RAW id=%d payload\n", rec.ID) {
					e.viol("raw-not-verbatim", "appender %s of %s: payload %q", n, sink, rec.Raw)
				}
			}
		}
	}
}
