package main

// Destroy as a sequence of steps - replays the scenarios enumerated by TLC from spec/Shutdown.tla: asynchronous loggers
// that share appenders (a recording one, a file, a rolling file), each logger with a given number of accepted items
// (raw writes and events alternate) of which a given number is still queued when Destroy begins.  Afterwards every
// appender of a logger holds everything that logger accepted, exactly once, and no appender received anything after
// it had been stopped.

import (
	"context"
	"encoding/json"
	"fmt"
	"os"
	"path/filepath"
	"strings"
	"sync/atomic"
	"time"

	"github.com/go-spring/log"

	"verifharness/hx"
	"verifharness/sys"
)

func init() { commands["shutdown"] = cmdShutdown }

type sdCase struct {
	Refs     [][]int `json:"refs"`
	Accepted []int   `json:"accepted"`
	Backlog  []int   `json:"backlog"`
}

func cmdShutdown(f hx.Flags, r *hx.Result) {
	tmp, err := os.MkdirTemp(os.Getenv("VERIF_SCRATCH"), "sd-")
	if err != nil {
		r.SetInfra("mkdtemp: %v", err)
		return
	}
	defer os.RemoveAll(tmp)
	log.RegisterTimeRotation("sdh", log.TimeRotation{Interval: time.Hour})
	ctx := context.Background()
	n := 0
	sigs := map[string]bool{}
	err = hx.ReadCases(f.Str("cases", ""), func(raw json.RawMessage) error {
		var c sdCase
		if err := json.Unmarshal(raw, &c); err != nil {
			return err
		}
		n++
		dir := filepath.Join(tmp, fmt.Sprintf("s%d", n))
		_ = os.MkdirAll(dir, 0o755)
		defer os.RemoveAll(dir)
		log.Destroy()
		log.VerifReset()
		sys.ResetAppenders()
		cfg := sys.Cfg{}
		// shared appenders: which kind plays appender number k rotates with the scenario number
		kinds := []string{"rec", "file", "rolling"}
		kindOf := func(a int) string { return kinds[(a+n)%len(kinds)] }
		shared := map[int]bool{}
		for _, rs := range c.Refs {
			for _, a := range rs {
				shared[a] = true
			}
		}
		for a := range shared {
			name := fmt.Sprintf("sa%d", a)
			switch kindOf(a) {
			case "rec":
				cfg.AddRec(name)
			case "file":
				cfg["appender."+name+".type"], cfg["appender."+name+".fileDir"], cfg["appender."+name+".fileName"] = "File", dir, name+".log"
				cfg["appender."+name+".layout.type"] = "TextLayout"
			case "rolling":
				cfg["appender."+name+".type"], cfg["appender."+name+".fileDir"], cfg["appender."+name+".fileName"] = "RollingFile", dir, name+".log"
				cfg["appender."+name+".rotation"], cfg["appender."+name+".maxAge"] = "sdh", "24"
				cfg["appender."+name+".layout.type"] = "TextLayout"
			}
		}
		tags := make([]*log.Tag, len(c.Refs))
		handles := make([]*log.LoggerWrapper, len(c.Refs))
		holds := make([]*sys.RecAppender, len(c.Refs))
		for i, rs := range c.Refs {
			tags[i] = log.RegisterTag(fmt.Sprintf("sd_t%d", i+1))
			lname := fmt.Sprintf("sl%d", i+1)
			handles[i] = log.GetLogger(lname)
			hold := fmt.Sprintf("hold%d", i+1)
			cfg.AddRec(hold)
			holds[i] = &sys.RecAppender{Gate: make(chan struct{}), Entered: make(chan int64, 1024)}
			sys.GateNext[hold] = holds[i]
			refs := []sys.Ref{{Ref: hold}}
			for _, a := range rs {
				refs = append(refs, sys.Ref{Ref: fmt.Sprintf("sa%d", a)})
			}
			cfg.AddLogger(lname, "AsyncLogger", "", fmt.Sprintf("sd_t%d", i+1), refs, true, map[string]string{"bufferSize": "100", "bufferFullPolicy": "Block"})
		}
		rerr := log.Refresh(cfg.Map(nil))
		for i := range c.Refs {
			delete(sys.GateNext, fmt.Sprintf("hold%d", i+1))
		}
		if rerr != nil {
			r.SetInfra("shutdown refresh: %v", rerr)
			return nil
		}
		desc := map[string]any{"scenario": c, "appender_kinds": map[string]string{"1": kindOf(1), "2": kindOf(2), "3": kindOf(3)}}
		rawOf := func(i, k int) string { return fmt.Sprintf("RAW-L%d-%d;\n", i+1, k) }
		idOf := func(i, k int) int { return (i+1)*100 + k }
		// accept: odd items are raw writes through the handle, even ones events through the tag
		ok, p := hx.Within(10e9, func() {
			for i := range c.Refs {
				for k := 1; k <= c.Accepted[i]; k++ {
					if k%2 == 1 {
						_, _ = handles[i].Write([]byte(rawOf(i, k)))
					} else {
						log.Info(ctx, tags[i], log.Int("id", idOf(i, k)))
					}
				}
			}
		})
		if !ok || p != nil {
			r.Violate("blocked:accept", desc, "accepting the items: returned=%v panic=%v", ok, p)
			for _, h := range holds {
				close(h.Gate)
			}
			log.VerifReset()
			return nil
		}
		// let the workers hand over all but the backlog; each then sits inside its holding appender with the next item
		for i := range c.Refs {
			pass := c.Accepted[i] - c.Backlog[i]
			for k := 0; k < pass; k++ {
				select {
				case <-holds[i].Entered:
				case <-time.After(8 * time.Second):
					r.SetInfra("shutdown: worker %d did not reach its holding appender", i+1)
					return nil
				}
				holds[i].Gate <- struct{}{}
			}
			if c.Backlog[i] > 0 {
				select {
				case <-holds[i].Entered:
				case <-time.After(8 * time.Second):
					r.SetInfra("shutdown: worker %d did not take the first queued item", i+1)
					return nil
				}
			}
		}
		done := make(chan any, 1)
		go func() { done <- hx.Catch(func() { log.Destroy() }) }()
		time.Sleep(15 * time.Millisecond) // Destroy is under way; now the workers may go on
		for _, h := range holds {
			close(h.Gate)
		}
		select {
		case p := <-done:
			if p != nil {
				r.Violate("destroy-panic", desc, "Destroy panicked: %v", p)
				log.VerifReset()
				return nil
			}
		case <-time.After(10 * time.Second):
			r.Violate("blocked:Destroy:shutdown", desc, "Destroy did not return within 10 s after the workers were released")
			atomic.StoreInt32(&hx.StopEarly, 1) // the system is wedged
			return nil
		}
		r.Eval(1)
		// what every shared appender holds
		for a := range shared {
			name := fmt.Sprintf("sa%d", a)
			var content string
			var recs []sys.Rec
			if kindOf(a) == "rec" {
				ap := sys.Appender(name)
				if ap == nil {
					r.SetInfra("shutdown: recording appender %s not found", name)
					return nil
				}
				recs = ap.Recs()
				if l := ap.Late(); l > 0 {
					r.Violate("write-after-stop", desc, "appender %d received %d deliveries after it had been stopped", a, l)
				}
			} else {
				ents, _ := os.ReadDir(dir)
				for _, e := range ents {
					if strings.HasPrefix(e.Name(), name+".log") {
						b, _ := os.ReadFile(filepath.Join(dir, e.Name()))
						content += string(b)
					}
				}
			}
			for i, rs := range c.Refs {
				member := false
				for _, x := range rs {
					member = member || x == a
				}
				for k := 1; k <= c.Accepted[i]; k++ {
					cnt := 0
					if kindOf(a) == "rec" {
						for _, rc := range recs {
							if k%2 == 1 && rc.IsWrite && string(rc.Raw) == rawOf(i, k) {
								cnt++
							}
							if k%2 == 0 && !rc.IsWrite && rc.ID == int64(idOf(i, k)) {
								cnt++
							}
						}
					} else if k%2 == 1 {
						cnt = strings.Count(content, rawOf(i, k))
					} else {
						cnt = strings.Count(content, fmt.Sprintf("id=%d\n", idOf(i, k)))
					}
					want := 0
					if member {
						want = 1
					}
					if cnt != want {
						r.Violate("shutdown-delivery:"+kindOf(a), desc, "after Destroy appender %d (%s) holds item %d of logger %d %d times, want %d (accepted %d, %d still queued when Destroy began)",
							a, kindOf(a), k, i+1, cnt, want, c.Accepted[i], c.Backlog[i])
						return nil
					}
				}
			}
		}
		for i, h := range c.Refs {
			_ = h
			if ap := sys.Appender(fmt.Sprintf("hold%d", i+1)); ap != nil && ap.Late() > 0 {
				r.Violate("write-after-stop", desc, "the first appender of logger %d received %d deliveries after it had been stopped", i+1, ap.Late())
			}
		}
		sigs[string(raw)] = true
		if n == 5 {
			r.Sample(desc)
		}
		return nil
	})
	if err != nil {
		r.SetInfra("read cases: %v", err)
	}
	log.Destroy()
	log.VerifReset()
	r.NonTrivial(int64(len(sigs)))
}
