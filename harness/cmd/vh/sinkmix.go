package main

// C10 / C01 (mixed sinks): one logger whose appender references mix every built-in appender kind with
// recording appenders, in every order.  Whatever stands in front of a recording appender - a console,
// file, rolling-file or discard appender - it must receive the event intact (level, tag, id, the three
// hooks' results, context fields before call fields), and each installed hook must have run exactly
// once per emitted event, with the caller's own context, however many and whichever appenders serve it.

import (
	"context"
	"fmt"
	"os"
	"path/filepath"
	"strings"
	"sync/atomic"
	"time"

	"github.com/go-spring/log"

	"verifharness/hx"
	"verifharness/sys"
)

func init() { commands["sinkmix"] = cmdSinkMix }

type smCtxKey struct{}

func cmdSinkMix(f hx.Flags, r *hx.Result) {
	con := sys.InstallConsole()
	tmp, err := os.MkdirTemp(os.Getenv("VERIF_SCRATCH"), "sm-")
	if err != nil {
		r.SetInfra("mkdtemp: %v", err)
		return
	}
	defer os.RemoveAll(tmp)
	log.RegisterTimeRotation("smh", log.TimeRotation{Interval: time.Hour})
	kinds := []string{"Console", "File", "RollingFile", "Discard"}
	levels := []string{"TRACE~FATAL", "DEBUG~FATAL", "INFO~FATAL"} // lower bounds give the order after sorting; bounded above, so no reference is clipped by the next
	n := 0
	sigs := map[string]bool{}
	for _, typ := range []string{"Logger", "AsyncLogger"} {
		for ki, k1 := range kinds {
			for _, k2 := range kinds {
				for perm := 0; perm < 3; perm++ {
					n++
					log.Destroy()
					log.VerifReset()
					sys.ResetAppenders()
					con.Take()
					dir := filepath.Join(tmp, fmt.Sprintf("d%d", n))
					_ = os.MkdirAll(dir, 0o755)
					cfg := sys.Cfg{}
					mk := func(name, kind string) {
						cfg["appender."+name+".type"] = kind
						switch kind {
						case "File":
							cfg["appender."+name+".fileDir"], cfg["appender."+name+".fileName"] = dir, name+".log"
						case "RollingFile":
							cfg["appender."+name+".fileDir"], cfg["appender."+name+".fileName"] = dir, name+".log"
							cfg["appender."+name+".rotation"] = "smh"
							cfg["appender."+name+".maxAge"] = "100"
						}
						if kind != "Discard" && (n+ki)%2 == 0 {
							cfg["appender."+name+".layout.type"] = "JSONLayout"
						}
					}
					mk("pre", k1)
					mk("mid", k2)
					cfg.AddRec("recM1")
					cfg.AddRec("recM2")
					// positions after sorting by lower bound: perm 0: pre rec1 mid rec2; 1: rec1 pre mid rec2; 2: pre mid rec1 rec2
					order := [][]string{{"pre", "recM1", "mid", "recM2"}, {"recM1", "pre", "mid", "recM2"}, {"pre", "mid", "recM1", "recM2"}}[perm]
					var refs []sys.Ref
					for i, name := range order {
						lv := levels[min(i, 2)]
						refs = append(refs, sys.Ref{Ref: name, Level: lv})
					}
					// declared in reverse, so that the order is the sort's and not the declaration's
					for i, j := 0, len(refs)-1; i < j; i, j = i+1, j-1 {
						refs[i], refs[j] = refs[j], refs[i]
					}
					extra := map[string]string{}
					if typ == "AsyncLogger" {
						extra = map[string]string{"bufferSize": "128", "bufferFullPolicy": "Block"}
					}
					tag := log.RegisterTag("sm_tag")
					cfg.AddLogger("lg", typ, "", "sm_tag", refs, true, extra)
					var cnt [3]int64
					var wrongCtx int64
					var want atomic.Value // the context of the call in progress
					hookTime := time.Date(2033, 4, 5, 6, 7, 8, 0, time.UTC)
					chk := func(ctx context.Context) {
						if w := want.Load(); w == nil || ctx != w.(context.Context) {
							atomic.AddInt64(&wrongCtx, 1)
						}
					}
					log.TimeNow = func(ctx context.Context) time.Time { atomic.AddInt64(&cnt[0], 1); chk(ctx); return hookTime }
					log.StringFromContext = func(ctx context.Context) string {
						atomic.AddInt64(&cnt[1], 1)
						chk(ctx)
						return fmt.Sprintf("cs-%v", ctx.Value(smCtxKey{}))
					}
					log.FieldsFromContext = func(ctx context.Context) []log.Field {
						atomic.AddInt64(&cnt[2], 1)
						chk(ctx)
						return []log.Field{log.String("ck1", "v"), log.Int("ck2", 7)}
					}
					desc := map[string]any{"logger": typ, "references_in_order": order, "pre": k1, "mid": k2}
					if err := log.Refresh(cfg.Map(nil)); err != nil {
						r.SetInfra("sinkmix refresh: %v (%v)", err, desc)
						return
					}
					const events = 4
					ok, p := hx.Within(8*time.Second, func() {
						for id := int64(1); id <= events; id++ {
							ctx := context.WithValue(context.Background(), smCtxKey{}, id)
							want.Store(ctx)
							switch id % 3 {
							case 0:
								log.Info(ctx, tag, log.Int("id", id), log.String("own", "x"))
							case 1:
								log.Error(ctx, tag, log.Int("id", id), log.String("own", "x"))
							default:
								log.Record(ctx, log.WarnLevel, tag, 1, log.Int("id", id), log.String("own", "x"))
							}
						}
						log.Destroy() // flushes the asynchronous logger
					})
					log.TimeNow, log.StringFromContext, log.FieldsFromContext = nil, nil, nil
					if !ok || p != nil {
						r.Violate("sinkmix-blocked-or-panic", desc, "logging %d events and Destroy: returned=%v panic=%v", events, ok, p)
						continue
					}
					r.Eval(events)
					sigs[fmt.Sprint(typ, order, k1, k2)] = true
					for h, name := range []string{"time", "str", "fields"} {
						if c := atomic.LoadInt64(&cnt[h]); c != events {
							r.Violate("hook-count:"+name+":mixed-sinks", desc, "hook %s ran %d times for %d emitted events", name, c, events)
						}
					}
					if w := atomic.LoadInt64(&wrongCtx); w != 0 {
						r.Violate("hook-context:mixed-sinks", desc, "%d hook invocations received a context that is not the caller's", w)
					}
					for _, rn := range []string{"recM1", "recM2"} {
						a := sys.Appender(rn)
						if a == nil {
							r.SetInfra("recording appender %s not instantiated", rn)
							return
						}
						recs := a.Recs()
						if len(recs) != events {
							r.Violate("missing:mixed-sinks", desc, "appender %s (all levels enabled) holds %d records for %d events", rn, len(recs), events)
							continue
						}
						for i, rc := range recs {
							id := int64(i + 1)
							wantKeys := "ck1,ck2,id,own"
							if rc.ID != id || !rc.Time.Equal(hookTime) || rc.CtxString != fmt.Sprintf("cs-%d", id) ||
								strings.Join(rc.Keys, ",") != wantKeys || rc.Tag != "sm_tag" || rc.Level == "NONE" || rc.Level == "" {
								r.Violate("record-content:mixed-sinks", desc, "appender %s, event %d: record {id %d, level %s, tag %q, time %s, ctx %q, keys %v}; want id %d, hook time, ctx %q, keys %s",
									rn, id, rc.ID, rc.Level, rc.Tag, rc.Time.Format(time.RFC3339), rc.CtxString, rc.Keys, id, fmt.Sprintf("cs-%d", id), wantKeys)
								break
							}
						}
					}
					// the real sinks hold one line per event as well
					for name, kind := range map[string]string{"pre": k1, "mid": k2} {
						var text string
						switch kind {
						case "Console":
							continue // shared with the other console appender of this configuration; counted below
						case "Discard":
							continue
						default:
							ents, _ := os.ReadDir(dir)
							for _, e := range ents {
								if strings.HasPrefix(e.Name(), name+".log") {
									b, _ := os.ReadFile(filepath.Join(dir, e.Name()))
									text += string(b)
								}
							}
						}
						for id := int64(1); id <= events; id++ {
							c := 0
							for _, line := range strings.Split(text, "\n") {
								if lid, _ := sys.ParseLine([]byte(line)); lid == id && strings.Contains(line, fmt.Sprintf("cs-%d", id)) {
									c++
								}
							}
							if c != 1 {
								r.Violate("sink-line:mixed-sinks", desc, "%s appender %q holds %d lines for event %d", kind, name, c, id)
								break
							}
						}
					}
					nc := 0
					if k1 == "Console" {
						nc++
					}
					if k2 == "Console" {
						nc++
					}
					text := con.Take()
					for id := int64(1); id <= events && nc > 0; id++ {
						c := 0
						for _, line := range strings.Split(text, "\n") {
							if lid, _ := sys.ParseLine([]byte(line)); lid == id && strings.Contains(line, fmt.Sprintf("cs-%d", id)) {
								c++
							}
						}
						if c != nc {
							r.Violate("sink-line:mixed-sinks", desc, "%d console appenders, event %d occurs on %d console lines", nc, id, c)
							break
						}
					}
					if n == 2 {
						r.Sample(desc)
					}
					os.RemoveAll(dir)
				}
			}
		}
	}
	r.NonTrivial(int64(len(sigs)))
}
