package main

// C12 (payload part) - raw writes through named handles for every logger kind, payload class and
// 1..8 concurrent writers that recycle one buffer each: every appender of the logger must hold
// every payload exactly once, verbatim, and in per-writer call order.

import (
	"bytes"
	"context"
	"fmt"
	"os"
	"path/filepath"
	"strconv"
	"strings"
	"sync"
	"time"

	"github.com/go-spring/log"

	"verifharness/hx"
	"verifharness/sys"
)

func init() { commands["rawwrite"] = cmdRawWrite }

func rwPayload(class string, w, seq int) []byte {
	var body []byte
	switch class {
	case "empty":
		return nil
	case "one":
		body = []byte{byte('a' + seq%26)}
		return body
	case "binary":
		body = []byte{0x00, 0xff, 0xfe, 0x80, '\n', 0x00, '"', '\\', 0xc3, 0x28}
	case "multiline":
		body = []byte("line one\nline two\r\n\n\tline three")
	case "format": // bytes that mean something to a formatter, a shell, a template
		body = []byte("100% done %d %s %v %% %!(NOVERB) ${HOME} {{.}} \\n \x1b[31m%")
	case "large":
		body = bytes.Repeat([]byte{byte('A' + (w+seq)%26)}, 1<<20)
	default:
		body = []byte("plain payload")
	}
	head := fmt.Sprintf("<<W%d-%d:%d:", w, seq, len(body))
	return append(append([]byte(head), body...), []byte(">>\n")...)
}

// rwParse splits a byte stream made of framed payloads; returns per writer the sequence numbers seen.
func rwParse(data []byte) (map[int][]int, error) {
	out := map[int][]int{}
	for len(data) > 0 {
		if !bytes.HasPrefix(data, []byte("<<W")) {
			return out, fmt.Errorf("stream does not continue with a frame header: %q", data[:min(len(data), 40)])
		}
		i := bytes.IndexByte(data, ':')
		j := i + 1 + bytes.IndexByte(data[i+1:], ':')
		if i < 0 || j <= i {
			return out, fmt.Errorf("bad frame header %q", data[:min(len(data), 40)])
		}
		ws := strings.SplitN(string(data[3:i]), "-", 2)
		w, _ := strconv.Atoi(ws[0])
		seq, _ := strconv.Atoi(ws[1])
		n, err := strconv.Atoi(string(data[i+1 : j]))
		if err != nil || j+1+n+3 > len(data) {
			return out, fmt.Errorf("frame W%d-%d truncated", w, seq)
		}
		body := data[j+1 : j+1+n]
		want := rwBodyOf(n, w, seq, body)
		if !bytes.Equal(body, want) {
			return out, fmt.Errorf("frame W%d-%d body differs from what was written", w, seq)
		}
		if !bytes.Equal(data[j+1+n:j+1+n+3], []byte(">>\n")) {
			return out, fmt.Errorf("frame W%d-%d not terminated", w, seq)
		}
		out[w] = append(out[w], seq)
		data = data[j+1+n+3:]
	}
	return out, nil
}

// rwBodyOf recomputes the body from its length class.
func rwBodyOf(n, w, seq int, got []byte) []byte {
	for _, c := range []string{"binary", "multiline", "format", "large", "plain"} {
		p := rwPayload(c, w, seq)
		i := bytes.IndexByte(p, ':')
		j := i + 1 + bytes.IndexByte(p[i+1:], ':')
		if len(p)-j-1-3 == n {
			return p[j+1 : len(p)-3]
		}
	}
	return nil
}

// handleNames: a handle obtained twice for one name is the same handle, whatever the name looks like; and a name that
// merely spells a path inside a configured logger's sub-tree is not a configured logger.
func handleNames(r *hx.Result) {
	log.Destroy()
	log.VerifReset()
	sys.ResetAppenders()
	for _, name := range []string{"audit_log", "audit-log", "Audit", "UPPER", "a.b", "with space", "ünï", "lg.level", "x!"} {
		var h1, h2 *log.LoggerWrapper
		p := hx.Catch(func() { h1, h2 = log.GetLogger(name), log.GetLogger(name) })
		r.Eval(1)
		if p == nil && h1 != h2 {
			r.Violate("handle-not-same", map[string]any{"name": name}, "GetLogger(%q) twice returned different handles", name)
		}
	}
	log.VerifReset()
	for _, name := range []string{"lg.level", "lg.appenderRef", "lg.appenderRef.ref", "lg.type", "logger.lg", "lg.", "", " ", "LG", "lg "} {
		log.Destroy()
		log.VerifReset()
		sys.ResetAppenders()
		var h *log.LoggerWrapper
		if p := hx.Catch(func() { h = log.GetLogger(name) }); p != nil || h == nil {
			continue
		}
		cfg := sys.Cfg{}
		cfg.AddRec("hn1")
		cfg.AddLogger("lg", "Logger", "INFO", "hn_tag", []sys.Ref{{Ref: "hn1"}}, false, nil)
		var rerr error
		p := hx.Catch(func() { rerr = log.Refresh(cfg.Map(nil)) })
		log.Destroy()
		r.Eval(1)
		desc := map[string]any{"requested_handle": name, "configured_loggers": "lg"}
		if p != nil {
			r.Violate("refresh-panic", desc, "Refresh panicked: %v", p)
		} else if rerr == nil {
			r.Violate("unconfigured-handle-accepted", desc, "a handle was requested for %q, only logger lg is configured, and Refresh succeeded", name)
		}
	}
	log.VerifReset()
}

// handleWriteLength: a write through a handle reports the full length whatever becomes of the bytes - also when the
// asynchronous logger behind it is full and its policy drops the payload (Discard) or an older one (DiscardOldest).
func handleWriteLength(r *hx.Result) {
	for _, pol := range []string{"Discard", "DiscardOldest"} {
		for _, typ := range []string{"AsyncLogger", "RollingFile"} {
			log.Destroy()
			log.VerifReset()
			sys.ResetAppenders()
			h := log.GetLogger("lg")
			tag := log.RegisterTag("wl_tag")
			cfg := sys.Cfg{}
			cfg.AddRec("wl1")
			gate := make(chan struct{})
			entered := make(chan int64, 1024)
			var dir string
			if typ == "AsyncLogger" {
				sys.GateNext["wl1"] = &sys.RecAppender{Gate: gate, Entered: entered}
				cfg.AddLogger("lg", typ, "", "wl_tag", []sys.Ref{{Ref: "wl1"}}, false, map[string]string{"bufferSize": "100", "bufferFullPolicy": pol})
			} else {
				dir, _ = os.MkdirTemp(os.Getenv("VERIF_SCRATCH"), "wl-")
				sys.LayoutGate.Gate, sys.LayoutGate.Entered = gate, entered
				cfg.AddLogger("lg", typ, "", "wl_tag", nil, false, map[string]string{"fileDir": dir, "fileName": "wl.log", "rotation": "h", "async": "true",
					"bufferSize": "100", "bufferFullPolicy": pol, "layout.type": "GateLayout"})
			}
			err := log.Refresh(cfg.Map(nil))
			delete(sys.GateNext, "wl1")
			release := func() {
				close(gate)
				sys.LayoutGate.Gate, sys.LayoutGate.Entered = nil, nil
				if dir != "" {
					os.RemoveAll(dir)
				}
			}
			if err != nil {
				r.SetInfra("handleWriteLength refresh: %v", err)
				release()
				return
			}
			desc := map[string]any{"logger": typ, "policy": pol, "history": "worker held, 100 slots filled, 20 more writes through the handle"}
			// hold the worker: one event through the tag (the gate layout holds events; the gated appender holds anything)
			bad := ""
			ok, p := hx.Within(10e9, func() {
				if typ == "AsyncLogger" {
					_, _ = h.Write([]byte("first\n"))
				} else {
					log.Info(context.Background(), tag, log.Int("id", 1))
				}
				select {
				case <-entered:
				case <-time.After(5 * time.Second):
					bad = "the worker did not take the first item"
					return
				}
				for i := 0; i < 120; i++ {
					pl := []byte(fmt.Sprintf("payload %03d\n", i))
					n, werr := h.Write(pl)
					if (n != len(pl) || werr != nil) && bad == "" {
						bad = fmt.Sprintf("write %d (queue %s) returned (%d, %v), want (%d, nil)", i, map[bool]string{true: "full", false: "not full"}[i >= 100], n, werr, len(pl))
					}
				}
			})
			release()
			if ok2, p2 := hx.Within(10e9, func() { log.Destroy() }); !ok2 || p2 != nil {
				r.Violate("destroy-failed:write-length", desc, "Destroy returned=%v panic=%v", ok2, p2)
				log.VerifReset()
				return
			}
			r.Eval(120)
			switch {
			case !ok || p != nil:
				r.Violate("blocked:raw-write:overflow", desc, "writing into the full queue: returned=%v panic=%v", ok, p)
			case strings.HasPrefix(bad, "the worker"):
				r.SetInfra("handleWriteLength: %s", bad)
			case bad != "":
				r.Violate("write-result", desc, "%s", bad)
			}
		}
	}
	log.VerifReset()
}

func cmdRawWrite(f hx.Flags, r *hx.Result) {
	defer handleNames(r)
	defer handleWriteLength(r)
	refSetNo := 0
	rng := hx.Rand(12)
	console := sys.InstallConsole()
	tmp, err := os.MkdirTemp(os.Getenv("VERIF_SCRATCH"), "rw-")
	if err != nil {
		r.SetInfra("mkdtemp: %v", err)
		return
	}
	defer os.RemoveAll(tmp)
	log.RegisterTimeRotation("h", log.TimeRotation{Interval: 3600e9})
	kinds := []string{"sync", "async", "syncLayout", "asyncLayout", "roll", "rollAsync", "rollSep", "console", "file", "asyncFile", "sync12", "async12"}
	classes := []string{"plain", "empty", "one", "binary", "multiline", "format", "large"}
	writersSet := []int{1, 2, 8}
	if hx.Thorough() {
		writersSet = []int{1, 2, 3, 4, 5, 6, 7, 8}
	}
	n := 0
	for _, kind := range kinds {
		for _, class := range classes {
			for _, writers := range writersSet {
				if hx.Stopped() {
					break
				}
				n++
				perWriter := 6
				if class == "large" {
					perWriter = 2
					if kind == "console" {
						perWriter = 5 // the console stream is shared by all writers: more overlapping large writes
					}
				}
				dir := filepath.Join(tmp, fmt.Sprintf("k%d", n))
				_ = os.MkdirAll(dir, 0o755)
				log.Destroy()
				log.VerifReset()
				sys.ResetAppenders()
				console.Take()
				h := log.GetLogger("lg")
				h2 := log.GetLogger("lg")
				desc := map[string]any{"kind": kind, "payload": class, "writers": writers}
				if h != h2 {
					r.Violate("handle-not-same", desc, "GetLogger(\"lg\") twice returned different handles")
				}
				cfg := sys.Cfg{}
				var apps []string
				var heldGate chan struct{}
				delete(sys.GateNext, "r1")
				isRoll := strings.HasPrefix(kind, "roll")
				switch {
				case isRoll:
					cfg.AddRec("unused")
					ex := map[string]string{"fileDir": dir, "fileName": "app.log", "rotation": "h",
						"separate": fmt.Sprint(kind == "rollSep"), "async": fmt.Sprint(kind == "rollAsync"),
						"bufferSize": "128", "bufferFullPolicy": "Block"}
					if rng.Intn(2) == 0 {
						ex["layout.type"] = "TextLayout"
					}
					cfg.AddLogger("lg", "RollingFile", []string{"", "INFO", "ERROR"}[rng.Intn(3)], "some_tag", nil, false, ex)
				case kind == "console":
					cfg.AddRec("unused")
					cfg.AddLogger("lg", "Console", "INFO", "some_tag", nil, false, nil)
				case kind == "file":
					cfg.AddRec("unused")
					cfg.AddLogger("lg", "File", "INFO", "some_tag", nil, false, map[string]string{"fileDir": dir, "fileName": "f.log"})
				case kind == "asyncFile":
					// an asynchronous logger in front of appenders that hold something open (a file, a rolling file), behind a
					// recording appender that keeps the worker waiting: everything written is still queued when Destroy starts
					apps = []string{"r1"}
					cfg.AddRec("r1")
					cfg["appender.fa.type"], cfg["appender.fa.fileDir"], cfg["appender.fa.fileName"] = "File", dir, "fa.log"
					cfg["appender.ra.type"], cfg["appender.ra.fileDir"], cfg["appender.ra.fileName"], cfg["appender.ra.rotation"] = "RollingFile", dir, "ra.log", "h"
					cfg["appender.ra.maxAge"] = "24"
					for _, a := range []string{"fa", "ra"} {
						cfg["appender."+a+".layout.type"] = "TextLayout"
					}
					heldGate = make(chan struct{})
					sys.GateNext["r1"] = &sys.RecAppender{Gate: heldGate}
					cfg.AddLogger("lg", "AsyncLogger", "INFO", "some_tag", []sys.Ref{{Ref: "r1"}, {Ref: "fa", Level: "ERROR"}, {Ref: "ra"}}, true,
						map[string]string{"bufferSize": "128", "bufferFullPolicy": "Block"})
				case kind == "sync12" || kind == "async12":
					// twelve references (two-digit indices in the configuration keys), every one of them receives the bytes
					var refs []sys.Ref
					for i := 1; i <= 12; i++ {
						a := fmt.Sprintf("q%02d", i)
						apps = append(apps, a)
						cfg.AddRec(a)
						refs = append(refs, sys.Ref{Ref: a, Level: []string{"", "WARN", "ERROR~FATAL", "NONE~NONE"}[i%4]})
					}
					typ, ex := "Logger", map[string]string{}
					if kind == "async12" {
						typ, ex = "AsyncLogger", map[string]string{"bufferSize": "128", "bufferFullPolicy": "Block"}
					}
					cfg.AddLogger("lg", typ, "INFO", "some_tag", refs, true, ex)
				default:
					apps = []string{"r1", "r2", "r3"}
					for _, a := range apps {
						cfg.AddRec(a)
					}
					typ, ex := "Logger", map[string]string{}
					if strings.HasPrefix(kind, "async") {
						typ = "AsyncLogger"
						ex["bufferSize"] = "128"
						ex["bufferFullPolicy"] = "Block"
					}
					if strings.HasSuffix(kind, "Layout") {
						ex["layout.type"] = "JSONLayout"
					}
					// reference level settings must not matter for raw writes: open, bounded, top-only, and ranges
					// that admit no event at all (the natural way to declare a raw-output-only sink)
					refSets := [][]sys.Ref{
						{{Ref: "r1"}, {Ref: "r2", Level: "ERROR~FATAL"}, {Ref: "r3", Level: "TOP"}},
						{{Ref: "r1", Level: "MAX"}, {Ref: "r2", Level: "WARN~WARN"}, {Ref: "r3", Level: "ERROR~INFO"}},
						{{Ref: "r1", Level: "NONE~NONE"}, {Ref: "r2"}, {Ref: "r3", Level: "INFO~INFO"}},
					}
					refSetNo++
					desc["reference_levels"] = refSetNo % len(refSets)
					cfg.AddLogger("lg", typ, "WARN", "some_tag", refSets[refSetNo%len(refSets)], true, ex)
				}
				var rerr error
				if p := hx.Catch(func() { rerr = log.Refresh(cfg.Map(nil)) }); p != nil || rerr != nil {
					r.Violate("refresh-failed:"+kind, desc, "Refresh failed: panic=%v err=%v", p, rerr)
					continue
				}
				var wg sync.WaitGroup
				blocked := false
				ret, p := hx.Within(20e9, func() {
					for w := 0; w < writers; w++ {
						wg.Add(1)
						go func(w int) {
							defer wg.Done()
							buf := make([]byte, 0, 64)
							for seq := 0; seq < perWriter; seq++ {
								pl := rwPayload(class, w, seq)
								buf = append(buf[:0], pl...)
								if seq%2 == 1 { // a recycled buffer that is exactly full: a fixed-size record, no spare capacity
									buf = buf[:len(pl):len(pl)]
								}
								nn, werr := h.Write(buf)
								if nn != len(pl) || werr != nil {
									r.Violate("write-result", desc, "Write returned (%d,%v), want (%d,nil)", nn, werr, len(pl))
								}
								for i := range buf { // recycle
									buf[i] = '#'
								}
							}
						}(w)
					}
					wg.Wait()
				})
				if !ret {
					blocked = true
					r.Violate("blocked:raw-write:"+kind, desc, "raw writes did not return within 20 s")
				}
				if p != nil {
					r.Violate("write-panic:"+kind, desc, "raw write panicked: %v", p)
				}
				if blocked {
					log.VerifReset()
					continue
				}
				if heldGate != nil {
					g := heldGate
					go func() { time.Sleep(40 * time.Millisecond); close(g) }() // the worker is let go once Destroy is under way
				}
				if ret, p := hx.Within(20e9, func() { log.Destroy() }); !ret || p != nil {
					r.Violate("destroy-failed:"+kind, desc, "Destroy returned=%v panic=%v", ret, p)
					log.VerifReset()
					continue
				}
				r.Eval(int64(writers * perWriter))
				r.NonTrivial(1)
				// collect streams: one per appender
				streams := map[string][]byte{}
				switch {
				case isRoll:
					ents, _ := os.ReadDir(dir)
					for _, e := range ents {
						b, _ := os.ReadFile(filepath.Join(dir, e.Name()))
						key := "app.log"
						if strings.HasPrefix(e.Name(), "app.log.wf.") {
							key = "app.log.wf"
						}
						streams[key] = append(streams[key], b...)
					}
					if _, ok := streams["app.log"]; !ok {
						streams["app.log"] = nil
					}
					if kind == "rollSep" {
						if _, ok := streams["app.log.wf"]; !ok {
							streams["app.log.wf"] = nil
						}
					}
				case kind == "console":
					streams["console"] = []byte(console.Take())
				case kind == "file":
					b, _ := os.ReadFile(filepath.Join(dir, "f.log"))
					streams["f.log"] = b
				default:
					if kind == "asyncFile" {
						streams["fa.log"], streams["ra.log"] = nil, nil
						ents, _ := os.ReadDir(dir)
						for _, e := range ents {
							b, _ := os.ReadFile(filepath.Join(dir, e.Name()))
							streams[e.Name()[:6]] = append(streams[e.Name()[:6]], b...)
						}
					}
					for _, a := range apps {
						var b []byte
						cnt := 0
						if ap := sys.Appender(a); ap != nil {
							for _, rec := range ap.Recs() {
								if rec.IsWrite {
									b = append(b, rec.Raw...)
									cnt++
								}
							}
						}
						streams[a] = b
						if class == "empty" && cnt != writers*perWriter {
							r.Violate("raw-delivery", desc, "appender %s received %d empty writes, want %d", a, cnt, writers*perWriter)
						}
					}
				}
				os.RemoveAll(dir)
				for name, data := range streams {
					switch class {
					case "empty":
						if len(data) != 0 {
							r.Violate("raw-not-verbatim", desc, "%s: empty writes produced %d bytes", name, len(data))
						}
					case "one":
						if len(data) != writers*perWriter {
							r.Violate("raw-delivery", desc, "%s holds %d bytes, want %d single-byte writes", name, len(data), writers*perWriter)
						}
						cnt := map[byte]int{}
						for _, c := range data {
							cnt[c]++
						}
						for seq := 0; seq < perWriter; seq++ {
							if cnt[byte('a'+seq%26)] != writers {
								r.Violate("raw-not-verbatim", desc, "%s: byte %q seen %d times, want %d", name, byte('a'+seq%26), cnt[byte('a'+seq%26)], writers)
							}
						}
					default:
						got, err := rwParse(data)
						if err != nil {
							r.Violate("raw-not-verbatim", desc, "%s: %v", name, err)
							continue
						}
						for w := 0; w < writers; w++ {
							want := make([]int, perWriter)
							for i := range want {
								want[i] = i
							}
							if fmt.Sprint(got[w]) != fmt.Sprint(want) {
								r.Violate("raw-delivery", desc, "%s: writer %d payload sequence %v, want %v (exactly once, in call order)", name, w, got[w], want)
							}
						}
					}
				}
				if n == 3 {
					r.Sample(desc)
				}
			}
		}
	}
	// Refresh must fail when a requested handle name is not configured
	log.Destroy()
	log.VerifReset()
	log.GetLogger("nosuch")
	cfg := sys.Cfg{}
	cfg.AddRec("r1")
	cfg.AddLogger("lg", "Logger", "", "some_tag", []sys.Ref{{Ref: "r1"}}, false, nil)
	var rerr error
	if p := hx.Catch(func() { rerr = log.Refresh(cfg.Map(nil)) }); p != nil || rerr == nil {
		r.Violate("unknown-handle-accepted", nil, "Refresh with a handle for an unconfigured logger: panic=%v err=%v", p, rerr)
	}
	r.Eval(1)
	log.Destroy()
	log.VerifReset()
}
