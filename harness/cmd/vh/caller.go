package main

// C11 - replays the (mode, enableCaller, site sequence) cases emitted by TLC from spec/Caller.tla:
// the modes are switched through Refresh properties, each site logs one event and returns the
// file:line of its own logging statement (runtime.Caller evaluated on the same source line); the
// record seen by a recording appender must carry that location.

import (
	"context"
	"encoding/json"
	"fmt"
	"reflect"
	"runtime"
	"sort"
	"strings"
	"sync"

	"github.com/go-spring/log"

	"verifharness/hx"
	"verifharness/sites"
	"verifharness/sys"
)

func init() { commands["caller"] = cmdCaller }

type clSite struct {
	Entry string `json:"entry"`
	Shape string `json:"shape"`
	Skip  int    `json:"skip"`
}

type clCase struct {
	Mode   string   `json:"mode"`
	Enable bool     `json:"enable"`
	Calls  []clSite `json:"calls"`
	Seen   []struct {
		Loc int  `json:"loc"`
		Hit bool `json:"hit"`
	} `json:"seen"`
}

func cmdCaller(f hx.Flags, r *hx.Result) {
	sys.InstallConsole()
	ctx := context.Background()
	n := 0
	distinct := map[string]bool{}
	err := hx.ReadCases(f.Str("cases", ""), func(raw json.RawMessage) error {
		var c clCase
		if err := json.Unmarshal(raw, &c); err != nil {
			return err
		}
		n++
		log.Destroy()
		log.VerifReset() // also empties the frame cache, so the first call of a site is a miss
		sys.ResetAppenders()
		tag := log.RegisterTag("caller_tag")
		cfg := sys.Cfg{}
		cfg.AddRec("ca")
		typ := "Logger"
		ex := map[string]string{}
		if n%3 == 0 {
			typ = "AsyncLogger"
			ex = map[string]string{"bufferSize": "100", "bufferFullPolicy": "Block"}
		}
		cfg.AddLogger("lg", typ, "", "caller_tag", []sys.Ref{{Ref: "ca"}}, false, ex)
		// properties are spelled in varying styles; both are set explicitly
		keyE := []string{"enableCaller", "enable-caller", "enable_caller"}[n%3]
		keyF := []string{"fastCaller", "fast-caller", "fast_caller"}[(n/3)%3]
		cfg[keyE] = fmt.Sprint(c.Enable)
		cfg[keyF] = fmt.Sprint(c.Mode == "fast")
		if err := log.Refresh(cfg.Map(nil)); err != nil {
			r.SetInfra("caller refresh: %v", err)
			return nil
		}
		type want struct {
			file string
			line int
		}
		var wants []want
		var bad any
		for i, s := range c.Calls {
			key := fmt.Sprintf("%s/%s/%d", s.Entry, s.Shape, s.Skip)
			site, ok := sites.Table[key]
			if !ok {
				r.SetInfra("no generated call site for %s", key)
				return nil
			}
			var file string
			var line int
			if p := hx.Catch(func() { file, line = site(ctx, tag, int64(i+1)) }); p != nil && bad == nil {
				bad = p
			}
			if c.Seen[i].Loc == -99 {
				file, line = "", 0
			} else if s.Skip == 0 {
				file, line = "<Record>", 0 // Record's own frame: checked against the function's extent below
			}
			wants = append(wants, want{file, line})
			distinct[key+c.Mode+fmt.Sprint(c.Enable)] = true
		}
		log.Destroy()
		r.Eval(int64(len(c.Calls)))
		desc := map[string]any{"mode": c.Mode, "enableCaller": c.Enable, "calls": c.Calls}
		if bad != nil {
			r.Violate("log-panic:caller", desc, "logging panicked: %v", bad)
			return nil
		}
		recs := sys.Appender("ca").Recs()
		byID := map[int64]sys.Rec{}
		for _, rc := range recs {
			byID[rc.ID] = rc
		}
		for i, w := range wants {
			rc, ok := byID[int64(i+1)]
			if !ok {
				r.Violate("caller-record-missing", desc, "call %d (%v) produced no record", i+1, c.Calls[i])
				continue
			}
			if w.file == "<Record>" {
				// skip 0 denotes Record's own frame: a line inside the library function Record
				fn := runtime.FuncForPC(reflect.ValueOf(log.Record).Pointer())
				rfile, rline := fn.FileLine(fn.Entry())
				if rc.File != rfile || rc.Line < rline || rc.Line > rline+15 {
					r.Violate(fmt.Sprintf("wrong-location:%s:skip0", c.Mode), desc,
						"call %d Record with skip 0 in %s mode: record says %s:%d, the chosen frame is Record itself (%s:%d..)",
						i+1, c.Mode, rc.File, rc.Line, rfile, rline)
				}
				continue
			}
			if rc.File != w.file || rc.Line != w.line {
				kind := "first-call"
				if c.Seen[i].Hit {
					kind = "cache-hit"
				}
				r.Violate(fmt.Sprintf("wrong-location:%s:%s", c.Mode, kind), desc,
					"call %d %s/%s skip %d in %s mode (enableCaller=%v): record says %s:%d, the calling statement is %s:%d",
					i+1, c.Calls[i].Entry, c.Calls[i].Shape, c.Calls[i].Skip, c.Mode, c.Enable, rc.File, rc.Line, w.file, w.line)
			}
		}
		if n <= 2 {
			r.Sample(map[string]any{"case": c, "expected_first": wants[0]})
		}
		return nil
	})
	if err != nil {
		r.SetInfra("read cases: %v", err)
	}
	r.NonTrivial(int64(len(distinct)))
	callerSweep(r, ctx)
	callerBurst(r, ctx, f.Int("bursts", 1200))
	callerExtras(r, ctx)
	callerDuringPanic(r, ctx)
	log.Destroy()
	log.VerifReset()
}

// callerExtras: (a) a Refresh that is rejected because of an unparsable caller property never "disables" the lookup;
// (b) a skip that points beyond the bottom of the stack denotes no frame: the location is empty in both modes,
// whatever was looked up before.
func callerExtras(r *hx.Result, ctx context.Context) {
	site := sites.Table["Info/plain/1"]
	for _, fast := range []bool{false, true} {
		for _, badKey := range []string{"enableCaller", "fastCaller"} {
			log.Destroy()
			log.VerifReset()
			sys.ResetAppenders()
			tag := log.RegisterTag("caller_tag")
			mk := func() sys.Cfg {
				cfg := sys.Cfg{}
				cfg.AddRec("ca")
				cfg.AddLogger("lg", "Logger", "", "caller_tag", []sys.Ref{{Ref: "ca"}}, false, nil)
				return cfg
			}
			bad := mk()
			bad[badKey] = []string{"yes", "maybe", "1.5", "on"}[len(badKey)%4]
			desc := map[string]any{"history": "Refresh(" + badKey + "=" + bad[badKey] + ") rejected, Destroy, Refresh(valid), log", "fast": fast}
			var rerr error
			if p := hx.Catch(func() { rerr = log.Refresh(bad.Map(nil)) }); p != nil {
				r.Violate("refresh-panic", desc, "Refresh panicked: %v", p)
				continue
			}
			log.Destroy()
			if rerr == nil {
				continue // the value was accepted: nothing to say here (another property's subject)
			}
			good := mk()
			good["fastCaller"] = fmt.Sprint(fast)
			if err := log.Refresh(good.Map(nil)); err != nil {
				r.SetInfra("callerExtras refresh: %v", err)
				return
			}
			wf, wl := site(ctx, tag, 1)
			// beyond the bottom of the stack
			log.Record(ctx, log.InfoLevel, tag, 200, log.Int("id", 2))
			log.Destroy()
			r.Eval(2)
			for _, rc := range sys.Appender("ca").Recs() {
				switch rc.ID {
				case 1:
					if rc.File != wf || rc.Line != wl {
						r.Violate("wrong-location:after-rejected-refresh", desc, "record says %q:%d, the calling statement is %s:%d (the lookup was never validly disabled)", rc.File, rc.Line, wf, wl)
					}
				case 2:
					if rc.File != "" || rc.Line != 0 {
						r.Violate("wrong-location:skip-beyond-stack", desc, "Record with skip 200 (no such frame): record says %s:%d, want the empty location", rc.File, rc.Line)
					}
				}
			}
		}
	}
	// (c) a second Refresh without Destroy is rejected: the live configuration's caller properties stay in force
	for _, live := range []bool{true, false} {
		log.Destroy()
		log.VerifReset()
		sys.ResetAppenders()
		tag := log.RegisterTag("caller_tag")
		mk := func(enable bool) sys.Cfg {
			cfg := sys.Cfg{}
			cfg.AddRec("ca")
			cfg.AddLogger("lg", "Logger", "", "caller_tag", []sys.Ref{{Ref: "ca"}}, false, nil)
			cfg["enableCaller"] = fmt.Sprint(enable)
			return cfg
		}
		if err := log.Refresh(mk(live).Map(nil)); err != nil {
			r.SetInfra("callerExtras refresh: %v", err)
			return
		}
		desc := map[string]any{"history": fmt.Sprintf("Refresh(enableCaller=%v) live, Refresh(enableCaller=%v) rejected, log", live, !live)}
		var rerr error
		if p := hx.Catch(func() { rerr = log.Refresh(mk(!live).Map(nil)) }); p != nil || rerr == nil {
			log.Destroy()
			continue // panic / acceptance of a second Refresh is another property's subject
		}
		wf, wl := site(ctx, tag, 1)
		log.Destroy()
		r.Eval(1)
		if !live {
			wf, wl = "", 0
		}
		for _, rc := range sys.Appender("ca").Recs() {
			if rc.ID == 1 && (rc.File != wf || rc.Line != wl) {
				r.Violate("wrong-location:after-rejected-refresh", desc, "record says %q:%d, want %q:%d (the live configuration has enableCaller=%v)", rc.File, rc.Line, wf, wl, live)
			}
		}
	}
	log.VerifReset()
}

// callerDuringPanic: Record called from a deferred closure while the goroutine is panicking, with skips that denote
// the frames above the closure: the runtime's panic machinery (skip 2) and the panicking statement (skip 3).  The frame
// chosen by the skip argument is what runtime.Caller reports for that depth, in both lookup modes, on first use and again.
func callerDuringPanic(r *hx.Result, ctx context.Context) {
	for _, fast := range []bool{false, true} {
		log.Destroy()
		log.VerifReset()
		sys.ResetAppenders()
		tag := log.RegisterTag("caller_tag")
		cfg := sys.Cfg{}
		cfg.AddRec("ca")
		cfg.AddLogger("lg", "Logger", "", "caller_tag", []sys.Ref{{Ref: "ca"}}, false, nil)
		cfg["fastCaller"] = fmt.Sprint(fast)
		if err := log.Refresh(cfg.Map(nil)); err != nil {
			r.SetInfra("callerDuringPanic refresh: %v", err)
			return
		}
		type wantT struct {
			file string
			line int
		}
		want := map[int64]wantT{}
		once := func(round int) {
			defer func() { _ = recover() }()
			defer func() {
				for k := 2; k <= 4; k++ {
					id := int64(round*10 + k)
					_, f, l, ok := runtime.Caller(k - 1)
					if !ok {
						f, l = "", 0
					}
					want[id] = wantT{f, l}
					log.Record(ctx, log.InfoLevel, tag, k, log.Int("id", int(id)))
				}
			}()
			panic("callerDuringPanic")
		}
		for round := 1; round <= 3; round++ {
			once(round)
		}
		log.Destroy()
		got := map[int64]sys.Rec{}
		for _, rc := range sys.Appender("ca").Recs() {
			got[rc.ID] = rc
		}
		for id, w := range want {
			rc, ok := got[id]
			r.Eval(1)
			if !ok || rc.File != w.file || rc.Line != w.line {
				r.Violate("wrong-location:during-panic", map[string]any{"fast": fast, "skip": id % 10, "round": id / 10},
					"Record with skip %d from a deferred closure during a panic (fast=%v, round %d): record says %s:%d, the frame at that depth is %s:%d",
					id%10, fast, id/10, rc.File, rc.Line, w.file, w.line)
			}
		}
	}
	log.VerifReset()
}

// callerBurst: several goroutines reach one cold call site at the same moment in fast mode (a worker pool
// starting up); every record must carry the statement's location, whoever resolved the site first.
func callerBurst(r *hx.Result, ctx context.Context, trials int) {
	const G = 8
	site := sites.Table["Info/plain/1"]
	for t := 0; t < trials && !hx.Stopped(); t++ {
		log.Destroy()
		log.VerifReset() // empties the frame cache: the site is cold again
		sys.ResetAppenders()
		tag := log.RegisterTag("caller_tag")
		cfg := sys.Cfg{}
		cfg.AddRec("ca")
		cfg.AddLogger("lg", "Logger", "", "caller_tag", []sys.Ref{{Ref: "ca"}}, false, nil)
		cfg["fastCaller"] = "true"
		if err := log.Refresh(cfg.Map(nil)); err != nil {
			r.SetInfra("caller burst refresh: %v", err)
			return
		}
		var wg sync.WaitGroup
		start := make(chan struct{})
		var wf string
		var wl int
		var mu sync.Mutex
		for g := 1; g <= G; g++ {
			wg.Add(1)
			go func(id int64) {
				defer wg.Done()
				<-start
				f, l := site(ctx, tag, id)
				mu.Lock()
				wf, wl = f, l
				mu.Unlock()
			}(int64(g))
		}
		close(start)
		wg.Wait()
		log.Destroy()
		r.Eval(G)
		for _, rc := range sys.Appender("ca").Recs() {
			if rc.File != wf || rc.Line != wl {
				r.Violate("wrong-location:fast:concurrent-first-use", map[string]any{"goroutines": G, "trial": t},
					"fast mode, %d goroutines reach a cold call site together: a record says %q:%d, the calling statement is %s:%d", G, rc.File, rc.Line, wf, wl)
				return
			}
		}
	}
}

// callerSweep keeps one fast-mode configuration alive and visits every generated call site twice
// (all first visits, then all revisits): whatever the cache holds after many distinct sites, a
// revisited site must still report its own statement.
func callerSweep(r *hx.Result, ctx context.Context) {
	log.Destroy()
	log.VerifReset()
	sys.ResetAppenders()
	tag := log.RegisterTag("caller_tag")
	cfg := sys.Cfg{}
	cfg.AddRec("ca")
	cfg.AddLogger("lg", "Logger", "", "caller_tag", []sys.Ref{{Ref: "ca"}}, false, nil)
	cfg["fastCaller"] = "true"
	if err := log.Refresh(cfg.Map(nil)); err != nil {
		r.SetInfra("caller sweep refresh: %v", err)
		return
	}
	keys := make([]string, 0, len(sites.Table))
	for k := range sites.Table {
		if !strings.HasSuffix(k, "/0") { // skip 0 denotes a frame inside the library, not the site's statement
			keys = append(keys, k)
		}
	}
	sort.Strings(keys)
	type want struct {
		key  string
		file string
		line int
	}
	var wants []want
	id := int64(0)
	for pass := 0; pass < 3; pass++ {
		for _, k := range keys {
			id++
			f, l := sites.Table[k](ctx, tag, id)
			wants = append(wants, want{k, f, l})
		}
	}
	log.Destroy()
	recs := sys.Appender("ca").Recs()
	byID := map[int64]sys.Rec{}
	for _, rc := range recs {
		byID[rc.ID] = rc
	}
	for i, w := range wants {
		rc, ok := byID[int64(i+1)]
		if !ok || rc.File != w.file || rc.Line != w.line {
			kind := "first-call"
			if i >= len(keys) {
				kind = "cache-hit"
			}
			r.Violate("wrong-location:fast:sweep-"+kind, map[string]any{"site": w.key, "visit": i/len(keys) + 1},
				"fast mode, %d distinct sites alive: visit %d of %s reports %s:%d, the calling statement is %s:%d",
				len(keys), i/len(keys)+1, w.key, rc.File, rc.Line, w.file, w.line)
		}
	}
	r.Eval(int64(len(wants)))
}
