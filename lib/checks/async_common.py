"""Shared driver of C04 / C05 / C06: AsyncLogger.tla model-checked per policy, AsyncGen.tla
behaviours replayed on the real AsyncLogger through a gated appender, randomized multi-producer
runs validated against the specification's conservation / FIFO operators."""
import vf

POLICIES = ["Block", "Discard", "DiscardOldest"]


def run(ctx, focus):
    thorough = ctx.tier == "thorough"
    rep = vf.Report(ctx)
    for pol in POLICIES:
        ctx.tlc("AsyncLogger", "MC_Async_%s%s" % (pol, "_t" if thorough else ""), timeout=3000)
        ctx.tlc("AsyncLogger", "MC_Async_live_%s" % pol, timeout=900)
        ctx.tlc("AsyncRefinement", "MC_AsyncRef_%s" % pol, timeout=900)      # AsyncLogger refines AbstractFifo
        ctx.tlc("AsyncCountersRef", "MC_AsyncCnt_%s" % pol, timeout=900)     # ... and implements its counter abstraction
    # the counter abstraction's conservation / flush invariant, inductively (any capacity, producers, items)
    cin = ["--cinit=ConstInit"]
    ctx.apalache("AsyncCounters", [
        ("init=>IndInv", cin + ["--init=Init", "--inv=IndInv", "--length=0"]),
        ("IndInv/\\Next=>IndInv'", cin + ["--init=IndInv", "--inv=IndInv", "--length=1"]),
        ("IndInv=>Flushed", cin + ["--init=IndInv", "--inv=Flushed", "--length=0"]),
        ("IndInv=>WorkerCanProceed", cin + ["--init=IndInv", "--inv=WorkerCanProceed", "--length=0"])])
    if thorough and focus == "C04":
        # the same inductive invariant as a machine-checked TLAPS proof (146 obligations, spec/proofs/)
        import subprocess, os
        p = subprocess.run([os.path.join(vf.VERIF, "bin", "prove")], stdout=subprocess.PIPE, stderr=subprocess.STDOUT, text=True)
        if p.returncode != 0:
            raise vf.Infra("TLAPS proof of AsyncCounters!IndInv not re-checked: %s" % p.stdout[-400:])
        ctx.tlc_runs.append({"module": "AsyncCountersProofs", "cfg": "tlapm", "generated": 0, "distinct": 0, "summary": p.stdout.strip()[-80:]})
    hist = []
    for pol in POLICIES:
        g = ctx.tlc("AsyncGen", "Gen_Async_%s_%s" % (pol, "t" if thorough else "q"), timeout=3000)
        hist += g.emitted
        hist += ctx.tlc("AsyncGen", "Gen_Async_%s_low" % pol, timeout=3000).emitted   # occupancies 0..2
        s = ctx.tlc("AsyncGen", "Gen_Async_%s_sim" % pol, simulate="num=%d" % (1500 if thorough else 40),
                    depth=200, workers=1, timeout=1500)
        hist += s.emitted
    if not hist:
        raise vf.Infra("AsyncGen emitted nothing")
    res = ctx.vh_sharded("asyncq", hist, extra=["--negwait_ms", "40" if thorough else "15"], timeout=3300)
    rep.absorb(res)
    import os
    dump = os.path.join(ctx.scratch, "asyncruns.ndjson")
    res2 = ctx.vh(["asyncload", "--focus", focus, "--dump", dump], timeout=3300)
    rep.absorb(res2)
    # direction B: TLC evaluates the specification's laws on the recorded histories
    nruns = sum(1 for _ in open(dump))
    if nruns == 0:
        raise vf.Infra("no recorded async runs to validate")
    tr = ctx.tlc("AsyncHistory", "AsyncHistory", workers=1, timeout=1500, env={"VERIF_RUNS": dump},
                 expect_violation=True)
    if tr.violation:
        bad = tr.emitted[0] if tr.emitted else {"bad_run": "?"}
        rep.violations.append({"key": "recorded-history-rejected", "what": "TLC rejected recorded run %s: %s" % (
            bad.get("bad_run"), bad), "case": bad})
    elif tr.distinct != nruns + 1:
        raise vf.Infra("AsyncHistory consumed %d of %d runs" % (tr.distinct - 1, nruns))
    rep.extra["recorded_runs_validated_by_tlc"] = nruns
    if focus == "C05":
        # every logger kind x policy x occupancy: flushed and descriptor-free when Destroy returns
        rep.absorb(ctx.vh(["stopflush", "--holdsec", "12" if thorough else "5"], timeout=1800))
        # descriptor clause of the rolling appender ("at most two whenever no write is in progress"): the Rolling.tla
        # behaviours replayed with /proc/self/fd compared after every step
        from checks import rolling_common
        rolling_common.run(ctx, "C05", lite=True, rep=rep)
        # Destroy in every lifecycle history (async loggers): must return, must not panic, whatever came before
        life = ctx.tlc("LogSystem", "MC_LogSystem_life_q", timeout=1500)
        rep.absorb(ctx.vh_sharded("lifecycle", life.emitted, extra=["--mode", "async"], shards=8, timeout=1500))
        # Destroy as a sequence of steps over several asynchronous loggers that share appenders
        from checks import shutdown_common
        shutdown_common.run(ctx, rep)
    rep.exhaustive = True
    rep.rule = ("AsyncLogger.tla model-checked for each policy (2 producers, capacity 2, safety + Stop liveness + refinement of "
                "AbstractFifo.tla, a lossy FIFO, and implementation of the counter abstraction AsyncCounters.tla whose inductive "
                "invariant - conservation, bound, flushed at Stop - Apalache proves for every capacity, producer and item count); "
                "AsyncGen.tla behaviours - every sequence of %d operations over {event, disabled event, raw write, "
                "release worker, Stop} from occupancies 97..99 (and 0..2, 4 operations) of a 100-slot buffer, per policy, plus simulated "
                "14-operation behaviours with 3 producers - replayed on a real AsyncLogger with a gated appender, "
                "comparing delivery list, discard counter, parked item, returned/blocked calls at every settled "
                "state, then conservation/FIFO/verbatim after Destroy; plus randomized 1-32 producer runs on fast, "
                "slow and bursty appenders checked for conservation, no duplicates, per-producer FIFO.  "
                "Non-trivial = distinct (policy, start occupancy, operation sequence)." % (7 if thorough else 5))
    if focus == "C05":
        rep.rule += (" For C05 additionally: 11 logger kinds (sync/async over file, rolling and console appenders, "
                     "rolling-file logger sync/async x separate, console and file loggers) x 3 policies x item counts "
                     "around the buffer size, built by Refresh: after Destroy returns every accepted item (all but the "
                     "counted discards) is read back from the target, /proc/self/fd holds nothing under the log "
                     "directory, appenders tolerate a second Stop; Stop with the worker blocked on a slow appender for 5 s (12 s "
                     "thorough) must not return early; Rolling.tla behaviours replayed with /proc/self/fd compared after every step "
                     "(FdBound, FdZeroAfterStop); all lifecycle histories of length 4 with asynchronous loggers (Destroy returns, no panic); "
                     "Shutdown.tla (loggers drain before the appenders they reference stop; the reverse order must violate NoLateWrite): "
                     "every scenario of reference table x accepted items x items still queued when Destroy begins, replayed on "
                     "asynchronous loggers sharing recording, file and rolling-file appenders.")
    rep.assumptions = ["TLC/SANY", "Go toolchain", "gated recording appender plugin (worker parked inside Append/Write)",
                       "negative observations ('still blocked') use a bounded wait on behaviour a correct implementation shows forever",
                       "no log call concurrent with Stop (premise of the property)"]
    return rep.finish()
