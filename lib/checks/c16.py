"""C16 - logging never panics in any lifecycle state; Refresh/Destroy cycle is sane.
Spec: LogSystem.tla with the lifecycle operation alphabet.  Binding A: every history of length 4
(quick) / 5 (thorough) plus simulated histories of length 9 are replayed step by step against the
real library (sync and async logger variants), every call under a watchdog and recover."""
import vf


def run(ctx, cfgbase="MC_LogSystem_life", simnum=(1500, 40000), mode=("alt", "both")):
    thorough = ctx.tier == "thorough"
    rep = vf.Report(ctx)
    # the tables LogSystem hard-codes for its two configurations are what Routing.tla / Levels.tla derive
    ctx.tlc("Compose", "Compose", timeout=300, workers=2)
    r1 = ctx.tlc("LogSystem", cfgbase + ("_t" if thorough else "_q"), timeout=3000)
    rs = ctx.tlc("LogSystem", cfgbase + "_sim", simulate="num=%d" % simnum[1 if thorough else 0],
                 depth=10, workers=1, timeout=1500)
    hist = r1.emitted + rs.emitted
    if not r1.emitted or not rs.emitted:
        raise vf.Infra("LogSystem emitted no histories")
    cases = ctx.write_cases("life.ndjson", hist)
    res = ctx.vh(["lifecycle", "--cases", cases, "--mode", mode[1 if thorough else 0]], timeout=3000)
    rep.absorb(res)
    rep.exhaustive = True
    rep.rule = ("all histories of length %d over {Refresh(A), Refresh(B), Refresh(bad early), Refresh(bad late), "
                "Destroy, log via tag at enabled/disabled level, raw write via handle, RegisterTag, GetLogger} "
                "enumerated by TLC with the expected observation per step, plus %d simulated histories of length 9; "
                "replayed with sync and async loggers, random level threshold, random bad-configuration variant; "
                "every call under a 3 s watchdog and recover; deliveries observed through recording appenders and "
                "the console stream.  Non-trivial = distinct histories." % (5 if thorough else 4, len(rs.emitted)))
    rep.assumptions = ["TLC/SANY", "Go toolchain", "recording appender plugin, VerifReset",
                       "after a Refresh that failed late and until the next Destroy only 'no panic, no block' is required (property silent)"]
    return rep.finish()
