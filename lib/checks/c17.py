"""C17 - config-expression parser is total and flattens well-formed input exactly."""
import vf


def run(ctx):
    thorough = ctx.tier == "thorough"
    rep = vf.Report(ctx)
    r1 = ctx.tlc("ExprParser", "MC_ExprParser_t" if thorough else "MC_ExprParser_q", timeout=2400)
    rs = ctx.tlc("ExprParser", "MC_ExprParser_sim", simulate="num=%d" % (30000 if thorough else 3000), depth=45,
                 workers=1, timeout=1500)
    # all viable strings of <= 17 tokens over a reduced alphabet: long enough for a nested block followed by a dotted
    # path into it (the same flattened key spelled on two nesting levels)
    r3 = ctx.tlc("ExprParser", "MC_ExprParser_small", timeout=1500)
    # directed runs of the same machine: nesting up to 7 with dotted paths of up to 4 segments at every level
    r4 = ctx.tlc("ExprChain", "MC_ExprChain", timeout=600, workers=4)
    if len(r4.emitted) < 80:
        raise vf.Infra("ExprChain emitted %d of its target strings" % len(r4.emitted))
    cases = r1.emitted + rs.emitted + r3.emitted + r4.emitted
    if not r1.emitted or not rs.emitted:
        raise vf.Infra("ExprParser emitted nothing")
    res = ctx.vh_sharded("exprparse", cases, extra=["--variants", "3" if thorough else "2",
                                                     "--fuzz", "20000" if thorough else "1500"], shards=8, timeout=3000)
    rep.absorb(res)
    rep.exhaustive = True
    rep.rule = ("every token string of <= %d tokens whose proper prefixes are viable (each viable prefix extended by every "
                "admissible and every inadmissible token, plus its truncation at end of input) over {IDENT x4, STRING, INTEGER x2, "
                "FLOAT, 7 punctuation tokens}, nesting <= %d, enumerated by TLC with verdict and flattened assignments; plus %d "
                "simulated viable strings up to 40 tokens / nesting 6, and all viable strings of <= 17 tokens over a reduced alphabet "
                "(one field name, one type, integers: keys spelled on two nesting levels), and 84 directed runs of the machine along "
                "expressions nested up to 7 deep through dotted paths (ExprChain.tla); tokens concretised with sign/hex integers, all float forms, "
                "string literals with every admitted escape, raw line breaks and non-ASCII, arbitrary spacing; expr.Parse must "
                "return exactly the map (later assignment wins) or an error and no map; %s random / mutated / deeply nested inputs "
                "up to 64 KiB for totality.  Non-trivial = distinct (verdict, token kind sequence)." % (
                    9 if thorough else 8, 3 if thorough else 2, len(rs.emitted), "20000 x 8" if thorough else "1500 x 8"))
    rep.assumptions = ["TLC/SANY", "Go toolchain", "lexeme forms (integers, floats, string escapes) are a hand-written concretisation table, not enumerated by the model",
                       "blank input returning (nil, nil) is accepted (pinned by the suite)"]
    return rep.finish()
