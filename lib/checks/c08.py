from checks import encoder_common


def run(ctx):
    return encoder_common.run(ctx, "C08").finish()
