"""Shared driver of C07 / C08: Encoder.tla call streams replayed through the real layouts."""
import vf


def run(ctx, focus):
    thorough = ctx.tier == "thorough"
    rep = vf.Report(ctx)
    r1 = ctx.tlc("Encoder", "MC_Encoder_t" if thorough else "MC_Encoder_q", timeout=2400)
    if not r1.emitted:
        raise vf.Infra("Encoder emitted nothing")
    res = ctx.vh_sharded("encoder", r1.emitted, extra=["--variants", "10" if thorough else "3"], shards=8,
                         timeout=2400)
    rep.absorb(res)
    fl = ctx.tlc("FileLine", "MC_FileLine", timeout=600, workers=2)
    rep.absorb(ctx.vh(["fileline", "--cases", ctx.write_cases("fileline.ndjson", fl.emitted)], timeout=600))
    rep.exhaustive = True
    rep.rule = ("every well-nested encoder call stream of <= %d calls and nesting <= %d over {Key, value of 5 kinds, "
                "array/object begin/end} enumerated by TLC with the JSON and text token outputs of the two machines "
                "(WellFormedJSON by an independent recogniser, TextIsRewrittenJSON); each stream is built %d times through the "
                "public constructors (typed, pointer, Any, Reflect, typed slices, Object, custom ArrayValue replaying nested "
                "calls) with boundary and seeded-random values, keys and strings from the escape classes, random level / time "
                "/ zone / file length / context string / context fields / width -5..200; the JSON line must pass encoding/json, "
                "decode to the logged data (order, exact integers, bit-exact floats, U+FFFD strings, json.Marshal for reflected "
                "values, a string for non-finite / unmarshallable) and have the specification's token structure; the text line "
                "must equal the line rebuilt from the real JSON tokens.  FileLine.tla: all (length 0..12, width -5..14) + sweep "
                "of widths -5..200.  Non-trivial = distinct call streams." % (
                    (10, 4, 10) if thorough else (7, 3, 3)))
    rep.assumptions = ["TLC/SANY", "Go toolchain", "encoding/json (json.Valid, json.Marshal, Unmarshal of string literals) and strconv as reference",
                       "value fidelity is sampled over boundary + seeded values, structure is exhaustive within the bound"]
    return rep
