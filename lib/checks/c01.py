"""C01 - an event reaches an appender iff its level is enabled on the whole path.
Spec: Levels.tla (declarative effective ranges vs the sort-and-scan algorithm; delivery law per
logger kind).  Binding A: every emitted (kind, logger range, reference list) is rendered to a
configuration map, run through Refresh, exercised through all 15 entry points at all 11 concrete
levels, and each appender's deliveries are compared with the specification."""
import vf


def run(ctx):
    thorough = ctx.tier == "thorough"
    rep = vf.Report(ctx)
    r1 = ctx.tlc("Levels", "MC_Levels_t" if thorough else "MC_Levels_q", timeout=3000)
    if not r1.emitted:
        raise vf.Infra("Levels emitted nothing")
    cases = ctx.write_cases("levels.ndjson", r1.emitted)
    res = ctx.vh(["levels", "--cases", cases, "--top", "5", "--warnpt", "3"], timeout=3000)
    # every enabled reference receives the intact event whatever kind of appender precedes it
    mix = ctx.vh(["sinkmix"], timeout=600)
    rep.absorb(res)
    rep.absorb(mix)
    rep.exhaustive = True
    rep.rule = ("every list of 1..%d appender references over a 6-point level lattice (lower bound, optional "
                "explicit upper bound) x every logger range x 6 event levels is model-checked; the replayer runs "
                "all lists of <= 2 references with every logger range, all longer lists with the full range, and "
                "the rolling-file (sync/async x separate) / console / file logger kinds with every range; per case "
                "an order-preserving map onto the 11 concrete level codes (incl. NONE, custom AUDIT/TOP, MAX) is "
                "drawn from the seed, ranges are rendered in random letter case, and 14 fixed-level entry points "
                "plus Record at all 11 levels are logged with unique ids; 96 configurations mixing console / file / rolling-file / "
                "discard appenders with recording appenders in every order (each enabled reference gets the intact event).  Non-trivial = distinct (kind, range, "
                "reference list)." % (4 if thorough else 3))
    rep.assumptions = ["TLC/SANY", "Go toolchain", "recording appender plugin", "rotation 'h' registered via RegisterTimeRotation",
                       "explicit '~MAX' on a reference is not generated (property silent)"]
    return rep.finish()
