"""C19 - a failed rotation or unwritable target never loses the log call path."""
import vf
from checks import rolling_common


def run(ctx):
    rep, cases = rolling_common.run(ctx, "C19")
    sf = ctx.tlc("SinkFaults", "MC_SinkFaults", timeout=900)
    if not sf.emitted:
        raise vf.Infra("SinkFaults emitted nothing")
    rep.absorb(ctx.vh_sharded("sinkfaults", sf.emitted, shards=8, timeout=1500))
    # I/O failures met by Refresh itself (an appender whose directory is missing, a logger that cannot start): every
    # lifecycle history with such a Refresh, replayed with asynchronous loggers - the calls after it must still return
    life = ctx.tlc("LogSystem", "MC_LogSystem_life_q", timeout=1500)
    late = [h for h in life.emitted if any(st.get("op") == "Refresh" and st.get("arg") == "badLate" for st in h.get("h", []))]
    if not late:
        raise vf.Infra("no lifecycle history with a late-failing Refresh")
    rep.absorb(ctx.vh_sharded("lifecycle", late, extra=["--mode", "async"], shards=8, timeout=1500))
    rep.exhaustive = True
    rep.rule = ("Rolling.tla with directory outages (DirDown/DirUp anywhere relative to interval boundaries and to the "
                "steps of 1-2 writers): FailKeepsFile, ExactlyOnce, NothingLost, SequentialFresh (with the stale-interval "
                "exception: creation is attempted again only at the next boundary), HolderCanProceed / NonLockStepsEnabled "
                "(no writer step can block); witness + %d simulated behaviours replayed with real directory renames. "
                "SinkFaults.tla: all 5-operation histories of Start/Append/Write/Stop (+ break/repair of the console stream) "
                "on File, Console and RollingFile appenders with healthy, failing (/dev/full, failing stream) or missing "
                "targets: every call returns (Start: ok or error), none panics or blocks, healthy targets gain exactly one "
                "line per delivery.  All lifecycle histories of LogSystem.tla containing a Refresh that fails late (unknown plugin, missing "
                "directory, logger start failure) replayed with asynchronous loggers: no call panics or blocks afterwards.  Non-trivial = distinct step sequences / histories."
                % rep.extra.get("simulated_behaviours", 0))
    rep.assumptions = ["TLC/SANY", "Go toolchain", "verif hooks (virtual clock, park points)", "/dev/full rejects every write",
                       "directory outage = rename of the log directory"]
    return rep.finish()
