"""C20 - synchronous file logging is write-through: returned calls survive a crash.
Spec: CrashPath.tla (Crash enabled in every state).  Binding A: every crash placement TLC
enumerates is executed on a child process (SIGKILL by the parent / os.Exit in the child after the
k-th acknowledged call).  Binding B: the child's write(2) log recorded by strace is validated by TLC
against Trace_Crash.tla."""
import json, os, re, subprocess
import vf

CFG = """CONSTANTS G = {%s}  MaxCalls = %d  WriteThrough = TRUE  D = {%s}  Offsets = "append"  PoisonEvery = %d
SPECIFICATION Spec
VIEW View
INVARIANTS AckedSurvive NoUserBuffer NeverAckedUnencodable Emit
CHECK_DEADLOCK FALSE
"""


def strace_run(ctx, binp, kind, layout, goroutines, calls, out, extra=()):
    d = os.path.join(ctx.scratch, "st-%s-%s-%d-%d-%d" % (kind, layout, goroutines, calls, len(extra)))
    os.makedirs(d, exist_ok=True)
    tr = os.path.join(d, "strace.txt")
    ackr, ackw = os.pipe()
    so = open(os.path.join(d, "stdout.txt"), "wb")
    cmd = ["strace", "-f", "-e", "trace=write,writev,pwrite64", "-s", "120000", "-o", tr, binp, "crashchild",
           "--kind", kind, "--layout", layout, "--dir", d, "--goroutines", str(goroutines), "--calls", str(calls)] + list(extra)
    # the child writes acknowledgements to fd 3
    p = subprocess.Popen(cmd, stdout=so, stderr=subprocess.PIPE, pass_fds=(), preexec_fn=lambda: os.dup2(ackw, 3),
                         close_fds=False)
    os.close(ackw)
    try:
        _, err = p.communicate(timeout=120)
    except subprocess.TimeoutExpired:
        p.kill()
        raise vf.Infra("strace run timed out")
    os.close(ackr)
    so.close()
    if p.returncode != 0:
        raise vf.Infra("strace/child exited with %s: %s" % (p.returncode, err[-500:]))
    events = [{"ev": "newrun"}]
    pending = {}
    for line in open(tr, errors="replace"):
        m = re.match(r"^(\d+)\s+(write|writev|pwrite64)\((\d+), (.*)$", line)
        if m:
            pid, call, fd, rest = m.group(1), m.group(2), int(m.group(3)), m.group(4)
            if "<unfinished" in rest:
                pending[pid] = (fd, rest)
                continue
            events += classify(fd, rest)
            continue
        m = re.match(r"^(\d+)\s+<\.\.\. (write|writev|pwrite64) resumed>", line)
        if m and m.group(1) in pending:
            fd, rest = pending.pop(m.group(1))
            events += classify(fd, rest)
    with open(out, "a") as f:
        for e in events:
            f.write(json.dumps(e) + "\n")
    return sum(1 for e in events if e["ev"] == "ack")


def classify(fd, rest):
    m = re.match(r'^"((?:[^"\\]|\\.)*)"', rest)
    if not m:
        return []
    s = m.group(1)
    out = []
    if fd == 3:
        for a in re.findall(r"ack (\d+)\\n", s):
            out.append({"ev": "ack", "id": int(a)})
        return out
    # the buffer of one write(2): every "\\n"-terminated piece must be a complete line (starting with the
    # layout's first character and carrying both markers of one id); anything else is a fragment
    pieces = s.split("\\n")
    tail = pieces.pop()          # what follows the last newline ("" if the buffer ends with one)
    for piece in pieces:
        ids = set(int(x) for x in re.findall(r'(?:id=|\\"id\\":)(\d+)', piece))
        ends = set(int(x) for x in re.findall(r'(?:end=|\\"end\\":)(\d+)', piece))
        starts_ok = piece.startswith("[") or piece.startswith("{")
        for i in sorted(ids | ends):
            whole = starts_ok and i in ids and i in ends and (piece.endswith("end=%d" % i) or piece.endswith('\\"end\\":%d}' % i))
            out.append({"ev": "syswrite", "id": i, "whole": bool(whole)})
    for i in sorted(set(int(x) for x in re.findall(r'(?:id=|\\"id\\":|end=|\\"end\\":)(\d+)', tail))):
        out.append({"ev": "syswrite", "id": i, "whole": False})
    return out


def run(ctx):
    thorough = ctx.tier == "thorough"
    rep = vf.Report(ctx)
    # goroutines, calls each, descriptors, every how-manieth call cannot be encoded (0: none)
    shapes = [("1, 2", 3, "1", 0), ("1", 6, "1", 4), ("1, 2, 3, 4", 2, "1", 0), ("1, 2", 2, "1, 2", 0), ("1", 4, "1, 2", 4)]
    if thorough:
        shapes += [("1, 2, 3", 4, "1", 4), ("1", 25, "1", 0), ("1, 2, 3, 4", 6, "1", 0), ("1, 2, 3", 3, "1, 2", 0)]
    cases = []
    for i, (g, n, d, u) in enumerate(shapes):
        name = "MC_CrashPath_%d" % i
        open(os.path.join(ctx.specdir, name + ".cfg"), "w").write(CFG % (g, n, d, u))
        r = ctx.tlc("CrashPath", name, timeout=1500, workers=4)
        seen = set()
        for e in r.emitted:
            k = json.dumps(e, sort_keys=True)
            if k not in seen:
                seen.add(k)
                cases.append(e)
    buffered = ctx.tlc("CrashPath", "MC_CrashPath_buffered", timeout=600, expect_violation=True)
    if not buffered.violation:
        raise vf.Infra("the buffered variant of CrashPath no longer violates AckedSurvive: vacuous model")
    private = ctx.tlc("CrashPath", "MC_CrashPath_private", timeout=600, expect_violation=True)
    if not private.violation:
        raise vf.Infra("the private-offset variant of CrashPath no longer violates AckedSurvive: vacuous model")
    res = ctx.vh_sharded("crash", cases, extra=["--variants", "6" if thorough else "3"], shards=8, timeout=2400)
    rep.absorb(res)
    # direction B: strace
    binp = ctx.build()
    dump = os.path.join(ctx.scratch, "crashtrace.ndjson")
    nack = 0
    runs = [("file", "TextLayout", 1, 8), ("file", "JSONLayout", 3, 5), ("rolling", "TextLayout", 2, 6),
            ("rolling", "JSONLayout", 4, 4), ("console", "TextLayout", 2, 6), ("console", "JSONLayout", 1, 8)]
    if thorough:
        runs = runs + [(k, l, g, 30) for (k, l, g, _) in runs]
    # contention: several goroutines hammer one file appender, so a call regularly finds the file busy
    runs += [("file", "TextLayout", 4, 40), ("file", "JSONLayout", 4, 40)]
    # line-length sweep on the console: 350 consecutive line lengths around 4096 (the size of a default bufio buffer)
    sweep = [("console", "TextLayout", 1, 350), ("console", "JSONLayout", 1, 350)]
    runs += sweep
    # formatting buffers whose capacity equals the buffer-reuse cap (1 KiB, lines of ~900 bytes), four goroutines
    capb = [("file", "TextLayout", 4, 150), ("console", "JSONLayout", 4, 150)]
    runs += capb
    # lines longer than any plausible chunk size (40 KB), two goroutines: one write(2) per line all the same
    longl = [("console", "TextLayout", 2, 7), ("file", "JSONLayout", 2, 7), ("console", "JSONLayout", 3, 5)]
    runs += longl
    for i, (kind, layout, g, n) in enumerate(runs):
        extra = []
        if (kind, layout, g, n) in sweep:
            extra += ["--padsweep", "3850"]
        if (kind, layout, g, n) in capb:
            extra += ["--bufcap", "1KB", "--padfixed", "800"]
        if (kind, layout, g, n) in longl:
            extra += ["--padfixed", "40000"]
        if i % 2 == 1:
            extra += ["--layoutat", "logger"]          # the logger formats, the appender's Write path is used
        if layout == "TextLayout" and i % 3 == 0:
            extra += ["--rawevery", "3"]               # raw writes through the named handle
        if kind == "rolling":
            extra += ["--churn", "1"]                  # every call rotates
        nack += strace_run(ctx, binp, kind, layout, g, n, dump, extra)
    nlines = sum(1 for _ in open(dump))
    if nack == 0:
        raise vf.Infra("strace recorded no acknowledgements")
    tr = ctx.tlc("Trace_Crash", "Trace_Crash", workers=1, timeout=900, env={"VERIF_TRACE": dump}, expect_violation=True)
    if tr.violation:
        bad = tr.emitted[0] if tr.emitted else {}
        rep.violations.append({"key": "syscall-trace-rejected:" + str(bad.get("rule", "?")).replace(" ", "-"),
                               "what": "TLC rejected the system-call trace at line %s: %s (event %s)" % (
                                   bad.get("line"), bad.get("rule"), bad.get("event")), "case": bad})
    elif tr.distinct != nlines + 1:
        raise vf.Infra("trace validation consumed %d of %d lines" % (tr.distinct - 1, nlines))
    # binding self-test: moving one acknowledgement in front of its write must be rejected
    lines = open(dump).read().splitlines()
    ai = next(i for i, l in enumerate(lines) if '"ack"' in l)
    aid = json.loads(lines[ai])["id"]
    wi = next(i for i, l in enumerate(lines) if '"syswrite"' in l and json.loads(l)["id"] == aid)
    bad = lines[:wi] + [lines[ai]] + lines[wi:ai] + lines[ai + 1:]
    p = os.path.join(ctx.scratch, "crash-selftest.ndjson")
    open(p, "w").write("\n".join(bad) + "\n")
    t = ctx.tlc("Trace_Crash", "Trace_Crash", workers=1, timeout=600, env={"VERIF_TRACE": p}, expect_violation=True)
    ctx.tlc_runs.pop()
    if not t.violation:
        raise vf.Infra("self-test: a trace with an acknowledgement before its write was accepted")
    rep.traces += len(runs)
    # a call that returned has its line in a file: the rolling appender's witness behaviours (a write outliving two
    # and four rotations, failed creation, restart, ...) replayed step by step with the directory compared after each
    from checks import rolling_common
    rolling_common.run(ctx, "C20", lite="witness", rep=rep)
    rep.extra["strace_runs"] = len(runs)
    rep.extra["acks_validated"] = nack
    rep.exhaustive = True
    rep.rule = ("CrashPath.tla model-checked with Crash enabled in every state (the buffered variant must still violate "
                "AckedSurvive); every crash placement (k acknowledged calls, SIGKILL or os.Exit) for %d goroutine/call shapes "
                "is executed x %d appender-kind/layout variants on a child process logging through a synchronous logger to a "
                "file, rolling-file or console (stdout -> file) appender; all acknowledgements the parent can read must have "
                "their complete line in the target exactly once.  %d straced runs: TLC validates the write(2) log against "
                "Trace_Crash.tla (each acknowledgement preceded by one write carrying the whole line).  The witness behaviours of "
                "Rolling.tla (incl. one write that hits a closed file twice) replayed on the real appender: every returned write is "
                "in the directory.  Non-trivial = distinct "
                "(crash placement, kind, layout)." % (len(shapes), 6 if thorough else 3, len(runs)))
    rep.assumptions = ["TLC/SANY", "Go toolchain", "strace (ptrace permitted)", "a write(2) that returned is durable against process death (page cache)",
                       "the child acknowledges only after the log call returned"]
    return rep.finish()
