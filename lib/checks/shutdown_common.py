"""Destroy as a sequence of steps (spec/Shutdown.tla): TLC checks NoLateWrite, AllDelivered, StopOrder and termination
for the design order (loggers first), confirms that the other order violates NoLateWrite, and enumerates the scenarios
(reference table x accepted items x items still queued when Destroy begins) that the `shutdown` replayer executes."""
import json
import vf


def run(ctx, rep):
    thorough = ctx.tier == "thorough"
    r = ctx.tlc("Shutdown", "MC_Shutdown_t" if thorough else "MC_Shutdown_q", timeout=1500)
    bad = ctx.tlc("Shutdown", "MC_Shutdown_bad", timeout=600, expect_violation=True)
    if not bad.violation:
        raise vf.Infra("Shutdown with appenders stopped first no longer violates NoLateWrite: vacuous model")
    seen, cases = set(), []
    for e in r.emitted:
        k = json.dumps(e, sort_keys=True)
        if k not in seen:
            seen.add(k)
            cases.append(e)
    if not cases:
        raise vf.Infra("Shutdown emitted nothing")
    rep.absorb(ctx.vh_sharded("shutdown", cases, shards=8 if thorough else 4, timeout=1500))
    rep.extra["shutdown_scenarios"] = len(cases)
    return len(cases)
