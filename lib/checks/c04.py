from checks import async_common


def run(ctx):
    return async_common.run(ctx, "C04")
