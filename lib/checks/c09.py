"""C09 - string escaping is total, exact and never leaks raw control bytes.
Spec: Escape.tla (byte-class transducer whose guards define UTF-8 well-formedness).  Binding A: the
(class string -> output tokens) table TLC enumerates is replayed on WriteLogString with class-edge
concretisations, used as a sliding-window oracle for long inputs, and swept exhaustively over the
full byte alphabet for short strings."""
import vf


def run(ctx):
    thorough = ctx.tier == "thorough"
    rep = vf.Report(ctx)
    r1 = ctx.tlc("Escape", "MC_Escape_t" if thorough else "MC_Escape_q", timeout=1500)
    cases = ctx.write_cases("escape.ndjson", r1.emitted)
    if not r1.emitted:
        raise vf.Infra("Escape spec emitted no cases")
    args = ["escape", "--cases", cases, "--variants", "5" if thorough else "3",
            "--random", "200000" if thorough else "6000", "--sweep", "3" if thorough else "2"]
    res = ctx.vh(args, timeout=1500)
    rep.absorb(res)
    rep.extra.update(res.get("extra") or {})
    rep.exhaustive = True
    rep.rule = ("every string over the 21 byte classes up to length %s enumerated by TLC with the "
                "transducer's output tokens; each concretised with the minimum, maximum and random byte "
                "of every class and compared byte-for-byte with WriteLogString (a differing output is "
                "a violation only if an independent JSON/UTF-8 decoder rejects it); the table drives a "
                "sliding-window transducer for boundary-alphabet strings <= 6, random strings up to 64 KiB, "
                "and an exhaustive sweep of all byte strings up to length %d.  Non-trivial = class strings of "
                "length >= 2." % ("4" if thorough else "3 (+ length 4 starting with a 4-byte lead)",
                                  3 if thorough else 2))
    rep.assumptions = ["TLC/SANY", "Go toolchain", "encoding/json and unicode/utf8 as independent decoders",
                       "the escaper is memoryless with <= 4 bytes of look-ahead (window argument for long strings)"]
    return rep.finish()
