"""C03 - concurrent logging yields whole, unmixed lines - one per event.
Spec: SyncPath.tla (pools, slow sink).  Binding B: executions recorded through the pool hooks and
sink instrumentation are validated by TLC against Trace_SyncPath.tla (ownership discipline at every
event); binding A: the TLC counterexample of the as-built variant is forced with GOMAXPROCS(1) and
a sink that lets a second goroutine log mid-write."""
import os
import vf


def run(ctx):
    thorough = ctx.tier == "thorough"
    rep = vf.Report(ctx)
    ctx.tlc("SyncPath", "MC_SyncPath", timeout=1500)
    # the as-built variant must still produce its counterexample (guards against a vacuous model)
    ab = ctx.tlc("SyncPath", "MC_SyncPath_asbuilt", timeout=600, expect_violation=True)
    if not ab.violation:
        raise vf.Infra("SyncPath as-built variant no longer violates NoAliasedReuse: model is vacuous")
    dump = os.path.join(ctx.scratch, "synctrace.ndjson")
    res = ctx.vh(["syncrec", "--dump", dump, "--runs", "120" if thorough else "30",
                  "--events", "60000" if thorough else "15000"], timeout=3000)
    rep.absorb(res, traces=False)
    rep.traces += int(res.get("traces", 0))
    nlines = sum(1 for _ in open(dump))
    if nlines == 0:
        raise vf.Infra("no trace events recorded (hooks not firing?)")
    tr = ctx.tlc("Trace_SyncPath", "Trace_SyncPath", workers=1, timeout=2400, env={"VERIF_TRACE": dump},
                 expect_violation=True)
    if tr.violation:
        bad = tr.emitted[0] if tr.emitted else {}
        rep.violations.append({"key": "trace-rejected:" + str(bad.get("rule", "?")).replace(" ", "-"),
                               "what": "TLC rejected the recorded execution at line %s: %s (event %s)" % (
                                   bad.get("line"), bad.get("rule"), bad.get("event")), "case": bad})
    elif tr.distinct != nlines + 1:
        raise vf.Infra("trace validation consumed %d of %d lines" % (tr.distinct - 1, nlines))
    # binding self-test: a trace with one hook line removed / one field corrupted must be rejected
    selftest(ctx, dump)
    rep.absorb(ctx.vh(["syncgate"], timeout=900))
    # the repository's own suite, run with the verif tag and the default recorder: its pool traffic is a trace too
    suite = os.path.join(ctx.scratch, "suite-trace.ndjson")
    env = vf.goenv()
    tmpd = os.path.join(ctx.scratch, "suite-tmp")        # the suite's tests leave files in os.TempDir()
    os.makedirs(tmpd, exist_ok=True)
    env.update({"VERIF_TRACE_FILE": suite, "GOGC": "off", "TMPDIR": tmpd})
    import subprocess
    p = subprocess.run(["timeout", "600", "go", "test", "-tags", "verif", "-vet=off", "-count=1", "./..."], cwd=vf.REPO, env=env,
                       stdout=subprocess.PIPE, stderr=subprocess.STDOUT, text=True)
    if not os.path.exists(suite) or os.path.getsize(suite) == 0:
        raise vf.Infra("the pinned suite produced no trace with the verif tag: %s" % p.stdout[-600:])
    sl = sum(1 for _ in open(suite))
    ts = ctx.tlc("Trace_SyncPath", "Trace_SyncPath", workers=1, timeout=1200, env={"VERIF_TRACE": suite}, expect_violation=True)
    if ts.violation:
        bad = ts.emitted[0] if ts.emitted else {}
        rep.violations.append({"key": "suite-trace-rejected:" + str(bad.get("rule", "?")).replace(" ", "-"),
                               "what": "TLC rejected the trace of the repository's own test suite at line %s: %s" % (
                                   bad.get("line"), bad.get("rule")), "case": bad})
    elif ts.distinct != sl + 1:
        raise vf.Infra("suite trace: consumed %d of %d lines" % (ts.distinct - 1, sl))
    rep.traces += 1
    # rolling sink: "the multiset of lines equals the multiset of events" along the witness behaviours of Rolling.tla
    # (writers parked between loading the file and writing to it while one, two and four rotations pass)
    from checks import rolling_common
    rolling_common.run(ctx, "C03", lite="witness", rep=rep)
    rep.extra["suite_trace_events_validated"] = sl
    rep.extra["trace_events_validated"] = nlines
    rep.exhaustive = False
    rep.rule = ("SyncPath.tla model-checked (3 goroutines, 2 buffers, 2-chunk sink, over-cap buffers; the as-built "
                "variant must still yield its counterexample); %s recorded runs of 2-64 goroutines x {Text, JSON} x "
                "{console stream, slow appender, slow appender behind a logger-level layout, file, rolling file}, line "
                "sizes 8 B .. 3x the buffer-reuse cap: the sinks' content is compared as a multiset with the lines the same "
                "events produce alone (each Write call = one whole line), and %d trace events (buffer get/put, event "
                "get/put/use, sink write start/end with backing-array identity, ordered by a sequence number drawn inside the "
                "hooks) are validated by TLC against Trace_SyncPath.tla; 100 gated reproductions of the model's "
                "counterexample schedule; the pool trace of the repository's own test suite (built with the verif tag, default "
                "recorder) is validated against the same trace specification; runs with calls that panic inside a user-supplied "
                "encoder and are recovered (pooled buffers must come back empty); the witness behaviours of Rolling.tla replayed "
                "on the real rolling appender (every write exactly once in the directory).  Non-trivial = recorded runs + gated rounds." % (
                    "120" if thorough else "30", nlines))
    rep.assumptions = ["TLC/SANY", "Go toolchain", "verif hooks on the buffer/event pools", "GC disabled while recording so that addresses identify objects",
                       "file and rolling sinks are checked by content only (their write(2) is not instrumented)"]
    return rep.finish()


def selftest(ctx, dump):
    """Corrupt the recorded trace in two ways; TLC must reject both."""
    import json
    lines = open(dump).read().splitlines()
    # (1) make a sink write read the array of the buffer pooled in the line just before it (adjacent lines of one
    #     goroutine: nothing can have happened to that buffer in between, so the corruption is always a violation)
    pidx0 = idx = None
    for i in range(len(lines) - 1):
        if '"bufput"' in lines[i] and '"sinkstart"' in lines[i + 1]:
            a, b2 = json.loads(lines[i]), json.loads(lines[i + 1])
            if a["g"] == b2["g"] and a.get("arr"):
                pidx0, idx = i, i + 1
                break
    if idx is None:
        raise vf.Infra("self-test: trace has no adjacent bufput/sinkstart pair")
    put = json.loads(lines[pidx0])
    ev = json.loads(lines[idx]); ev["arr"] = put["arr"]
    bad1 = lines[:idx] + [json.dumps(ev)] + lines[idx + 1:]
    # (2) drop the first bufput: the next bufget of that buffer happens while it is still held
    pidx = next(i for i, l in enumerate(lines) if '"bufput"' in l)
    b = json.loads(lines[pidx])["b"]
    later = any(('"bufget"' in l and json.loads(l)["b"] == b) for l in lines[pidx + 1:])
    tests = [("corrupted-field", bad1[:idx + 50])]
    if later:
        tests.append(("dropped-hook-line", lines[:pidx] + lines[pidx + 1:]))
    for name, content in tests:
        p = os.path.join(ctx.scratch, "selftest-%s.ndjson" % name)
        open(p, "w").write("\n".join(content) + "\n")
        t = ctx.tlc("Trace_SyncPath", "Trace_SyncPath", workers=1, timeout=900, env={"VERIF_TRACE": p},
                    expect_violation=True)
        ctx.tlc_runs.pop()
        if not t.violation:
            raise vf.Infra("self-test %s: a corrupted trace was accepted - the trace specification does not bind" % name)
