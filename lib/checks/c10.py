"""C10 - context hooks and lazy generators run exactly once iff the event is emitted.
Spec: LogSystem.tla restricted to {Refresh(A), Destroy, SetHooks, Log(lazy|plain)}.  Binding A: all
histories of length 3 plus simulated histories of length 7, replayed with counting hooks that
record the context they were given, against the built-in logger and sync/async configured loggers."""
from checks import c16


def run(ctx):
    return run_(ctx)


def run_(ctx):
    import vf
    thorough = ctx.tier == "thorough"
    rep = vf.Report(ctx)
    r1 = ctx.tlc("LogSystem", "MC_LogSystem_hooks", timeout=1500)
    rs = ctx.tlc("LogSystem", "MC_LogSystem_hooks_sim", simulate="num=%d" % (40000 if thorough else 3000),
                 depth=8, workers=1, timeout=1500)
    cases = ctx.write_cases("hooks.ndjson", r1.emitted + rs.emitted)
    if not r1.emitted or not rs.emitted:
        raise vf.Infra("no histories emitted")
    reps = 3 if thorough else 1
    for i in range(reps):
        res = ctx.vh(["lifecycle", "--cases", cases, "--mode", "both"], timeout=3000,
                     env={"VERIF_SEED": str(ctx.seed + 1000 * i)})
        rep.absorb(res)
    rep.absorb(ctx.vh(["hookiso"], timeout=300))
    rep.absorb(ctx.vh(["sinkmix"], timeout=600))
    rep.exhaustive = True
    rep.rule = ("all histories of length 3 over {Refresh(A), Destroy, SetHooks(any subset of time/string/fields), "
                "Log(lazy|plain entry, tag, enabled|disabled level)} plus %d simulated histories of length 7; per "
                "Log step a concrete entry point of the abstract kind is drawn from the 15 (Trace/Debug lazy; the "
                "f-variants, Info..Fatal and Record otherwise) on the required side of the logger's level "
                "threshold; hooks count invocations and record the context; records are inspected at recording "
                "appenders (time, context string, context fields ahead of call fields) and on the console line. "
                "Mixed sinks: a sync / async logger whose references mix console, file, rolling-file and discard appenders "
                "with two recording appenders in every order (96 configurations): each hook runs exactly once per event with "
                "the caller's context, whichever appenders serve it, and the recording appenders behind the real ones still "
                "see the complete record.  Non-trivial = distinct histories." % len(rs.emitted))
    rep.assumptions = ["TLC/SANY", "Go toolchain", "recording appender plugin", "hooks are process-global function variables"]
    return rep.finish()
