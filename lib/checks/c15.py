"""C15 - configuration resolves as declared; bad configuration is an error, not a panic."""
import vf


def run(ctx):
    thorough = ctx.tier == "thorough"
    rep = vf.Report(ctx)
    r1 = ctx.tlc("Config", "MC_Config", timeout=900, workers=4)
    if not r1.emitted:
        raise vf.Infra("Config emitted nothing")
    cases = ctx.write_cases("config.ndjson", r1.emitted)
    res = ctx.vh(["config", "--cases", cases, "--mutations", "20000" if thorough else "1500"], timeout=3000)
    rep.absorb(res)
    rep.extra.update(res.get("extra") or {})
    # the two small automata configuration resolution rests on: key normalisation and the size syntax
    ck = ctx.tlc("CamelKey", "MC_CamelKey", timeout=900)
    rep.absorb(ctx.vh(["camelkey", "--cases", ctx.write_cases("camelkey.ndjson", ck.emitted)], timeout=900))
    hb = ctx.tlc("HumanBytes", "MC_HumanBytes", timeout=900)
    rep.absorb(ctx.vh(["humanbytes", "--cases", ctx.write_cases("humanbytes.ndjson", hb.emitted)], timeout=900))
    rep.exhaustive = True
    rep.rule = ("Config.tla: Resolve / ResolveElem for every declaration (required | defaulted) x (string | typed) x six "
                "treatments (absent, literal, ill-typed, ${present}, ${absent}, ${ill-typed}) x spellings x forms (5888 cases); each "
                "is mapped onto a concrete attribute of a registered plugin type, rotating through all %s attributes of all %s plugin "
                "types read from the live registry, and executed with NewPlugin: the field must hold the configured value / the "
                "declared default / the property, or creation must fail.  Element shapes on a probe plugin; 20 whole configurations "
                "(4 spellings x flat / inline forms) instantiating every registered logger and appender type through Refresh with the "
                "instantiated field values inspected; 25 error classes (incl. start failures and absurd buffer sizes) must return an "
                "error; %s random mutation triples of the valid configuration must not panic or hang.  CamelKey.tla / HumanBytes.tla: every "
                "class string up to length 5 through the key-normalisation transducer and the size syntax, replayed on toCamelKey and "
                "ParseHumanizeBytes.  Non-trivial = attributes covered + class strings."
                % (rep.extra.get("attributes", "?"), rep.extra.get("plugin_types", "?"), "20000" if thorough else "1500"))
    rep.assumptions = ["TLC/SANY", "Go toolchain", "VerifPlugins hook (schema from the live registry)", "type-appropriate literals per Go field type are chosen by the harness"]
    return rep.finish()
