"""Shared driver of C13 / C19 (and the descriptor clause of C05): Rolling.tla model-checked (race,
fault and restart configurations), witness behaviours (shortest paths to interesting states) and
simulated behaviours of RollingGen.tla replayed on the real RollingFileAppender with a virtual
clock, parked writer goroutines and real directory renames."""
import json, os
import vf, rolltrace

CFG = """CONSTANTS Writers = {%(writers)s}  MaxWrites = %(writes)d  MaxTick = %(ticks)d  TPI = 2
          MaxOutages = %(outages)d  MaxRestarts = %(restarts)d  UseLock = TRUE  Retry = TRUE
%(extra)s
SPECIFICATION %(spec)s
INVARIANTS %(inv)s
%(props)s
CHECK_DEADLOCK FALSE
"""
SAFETY = ("TypeOK SequentialFresh ExactlyOnce NothingLost NoDuplicateAnywhere NotBeforeName NameLaw FdBound "
          "FdZeroAfterStop HolderCanProceed NonLockStepsEnabled")

GOALS = {   # goal -> (writers, writes, ticks, outages, restarts)
    "retry":      ("1, 2", 3, 4, 0, 0),
    "stalewrite": ("1, 2", 2, 2, 0, 0),
    "contend":    ("1, 2", 2, 2, 0, 0),
    "failcreate": ("1", 3, 4, 1, 0),
    "threefiles": ("1", 3, 4, 0, 0),
    "restart":    ("1", 2, 2, 0, 1),
    "retry2":     ("1, 2", 5, 8, 0, 0),     # one write hits a closed file twice (four rotations); searched along RollingGoals!Lane
}


def write_cfg(ctx, name, **kw):
    d = dict(writers="1, 2", writes=2, ticks=4, outages=0, restarts=0, extra="", spec="Spec", inv=SAFETY,
             props="PROPERTIES MarkerMonotone FailKeepsFile")
    d.update(kw)
    with open(os.path.join(ctx.specdir, name + ".cfg"), "w") as f:
        f.write(CFG % d)


def run(ctx, focus, lite=False, rep=None):
    thorough = ctx.tier == "thorough"
    rep = rep or vf.Report(ctx)
    # 1. exhaustive model checking of the repaired design
    mc = [("MC_Rolling_race", dict(writes=3 if thorough else 2, ticks=5 if thorough else 4)),
          ("MC_Rolling_fault", dict(writes=3 if thorough else 2, ticks=4, outages=2 if thorough else 1)),
          ("MC_Rolling_restart", dict(writers="1", writes=3, ticks=4, outages=1, restarts=1))]
    if lite:
        mc = mc[:1]
    if lite == "witness":        # C03 / C20: only the witness behaviours are replayed
        mc = []
    for name, kw in mc:
        write_cfg(ctx, name, **kw)
        ctx.tlc("Rolling", name, timeout=3000)
    cases = []
    # 2. witness behaviours
    for goal, (wr, writes, ticks, out, rst) in GOALS.items():
        name = "Goal_Rolling_" + goal
        write_cfg(ctx, name, writers=wr, writes=writes, ticks=ticks, outages=out, restarts=rst,
                  extra='          Goal = "%s"' % goal, inv="NotGoal", props="CONSTRAINT Lane")
        tj = os.path.join(ctx.scratch, "trace_%s.json" % goal)
        r = ctx.tlc("RollingGoals", name, timeout=1500, extra=["-dumpTrace", "json", tj], expect_violation=True)
        if not r.violation or not os.path.exists(tj):
            raise vf.Infra("witness goal %s is unreachable in the specification (vacuous)" % goal)
        cases.append(rolltrace.convert(tj, 2, goal))
    if lite == "witness":
        rep.absorb(ctx.vh_sharded("rollreplay", cases, shards=4, timeout=1500))
        rep.extra["witness_goals"] = sorted(GOALS)
        return rep, cases
    # 3. simulated behaviours
    write_cfg(ctx, "Gen_Rolling_sim", writers="1, 2, 3, 4" if thorough else "1, 2", writes=10 if thorough else 6,
              ticks=12, outages=3 if thorough else 2, restarts=1,
              extra='          MaxSteps = 120  Goal = ""', spec="GenSpec",
              inv="TypeOK SequentialFresh ExactlyOnce NothingLost NoDuplicateAnywhere NotBeforeName NameLaw FdBound FdZeroAfterStop GenEmit",
              props="")
    sim = ctx.tlc("RollingGen", "Gen_Rolling_sim", simulate="num=%d" % ((3000 if thorough else 250) // (3 if lite else 1)), depth=130,
                  workers=1, timeout=2400)
    # keep only maximal histories (an emitted history may be a prefix of the next one)
    em = sim.emitted
    keep = []
    for i, c in enumerate(em):
        nxt = em[i + 1]["hist"] if i + 1 < len(em) else None
        if nxt is not None and len(nxt) > len(c["hist"]) and \
                [(h["a"], h["w"]) for h in nxt[:len(c["hist"])]] == [(h["a"], h["w"]) for h in c["hist"]]:
            continue
        keep.append(c)
    cases += keep
    if not keep:
        raise vf.Infra("RollingGen simulation emitted nothing")
    res = ctx.vh_sharded("rollreplay", cases, shards=min(8, max(1, len(cases) // 20)), timeout=3000)
    rep.absorb(res)
    rep.extra["witness_goals"] = sorted(GOALS)
    rep.extra["simulated_behaviours"] = len(keep)
    return rep, cases
