"""C14 - retention cleanup deletes only this appender's own expired files."""
import vf


def run(ctx):
    thorough = ctx.tier == "thorough"
    rep = vf.Report(ctx)
    r1 = ctx.tlc("Retention", "MC_Retention_t" if thorough else "MC_Retention_q", timeout=1500)
    if not r1.emitted:
        raise vf.Infra("Retention emitted nothing")
    reps = 2 if thorough else 1
    for i in range(reps):
        rep.absorb(ctx.vh_sharded("retention", r1.emitted, shards=8, timeout=1500,
                                  env={"VERIF_SEED": str(ctx.seed + 7919 * i)}))
    # once more in a time zone whose clocks went forward half a day ago (calendar days and 24-hour spans differ)
    rep.absorb(ctx.vh_sharded("retention", r1.emitted, extra=["--zone", "dst"], shards=8, timeout=1500,
                              env={"VERIF_SEED": str(ctx.seed + 104729)}))
    rep.absorb(ctx.vh(["retentionlive"], timeout=600))
    rep.exhaustive = True
    rep.rule = ("every directory population of <= %d entries over 13 name classes (own <name>.<14 digits> x2, "
                "<name>.wf.<ts>, <name>.audit.<ts>, <name>.bak, <name>.1.gz, 13 / 15 digits, 13 digits + letter, "
                "<name>x.<ts>, '<name>.', <name>.<ts>.gz, unrelated) x {regular file, directory} x {older, younger than "
                "the cut-off} enumerated by TLC with the survivors; materialised with mtimes 2 s - 1 h away from the cut-off, "
                "max ages 1..720 h, appender names app.log / app.log.wf / svc; the scan runs synchronously through the verif "
                "hook; the file being written must survive.  A live run triggers the scan through a real rotation of a "
                "RollingFile logger with separate=true.  Non-trivial = distinct populations." % (3 if thorough else 2))
    rep.assumptions = ["TLC/SANY", "Go toolchain", "VerifClearExpired hook", "os.Chtimes; wall clock does not jump by more than 2 s during a case"]
    return rep.finish()
