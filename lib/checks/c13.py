"""C13 - rolling file appender loses nothing across rotations and never truncates."""
from checks import rolling_common


def run(ctx):
    import os
    import vf
    rep, cases = rolling_common.run(ctx, "C13")
    # direction B: real clock, no hooks; TLC evaluates the history laws on every recorded run
    thorough = ctx.tier == "thorough"
    dump = os.path.join(ctx.scratch, "rollruns.ndjson")
    # the process's time zone matters (file names carry local time, the retention scan launched by every rotation compares
    # ages): one run set in the sandbox's zone with a long retention, one each far west / far east of UTC with the shortest
    import concurrent.futures
    variants = [([], "12" if thorough else "6"), (["--zone", "west", "--maxage", "1"], "7" if thorough else "4"),
                (["--zone", "east", "--maxage", "1"], "7" if thorough else "4"),
                (["--maxage", "876000"], "4" if thorough else "2")]   # "keep for a hundred years"
    ctx.build()

    def one(iv):
        i, (extra, runs) = iv
        d = dump + ".%d" % i
        return d, ctx.vh(["rollreal", "--dump", d, "--runs", runs, "--seconds", "12" if thorough else "4"] + extra, timeout=600)
    with concurrent.futures.ThreadPoolExecutor(max_workers=4) as ex:
        results = list(ex.map(one, enumerate(variants)))
    with open(dump, "w") as out:
        for d, res in results:
            rep.absorb(res, traces=False)
            rep.traces += int(res.get("traces", 0))
            if os.path.exists(d):
                out.write(open(d).read())
    nruns = sum(1 for _ in open(dump))
    if nruns == 0:
        raise vf.Infra("no real-time rolling run was recorded")
    tr = ctx.tlc("RollingHistory", "RollingHistory", workers=1, timeout=900, env={"VERIF_RUNS": dump}, expect_violation=True)
    if tr.violation:
        bad = tr.emitted[0] if tr.emitted else {}
        rep.violations.append({"key": "realtime-history-rejected", "what": "TLC rejected a recorded real-time run: %s" % bad, "case": bad})
    elif tr.distinct != nruns + 1:
        raise vf.Infra("RollingHistory consumed %d of %d runs" % (tr.distinct - 1, nruns))
    rep.extra["realtime_runs_validated_by_tlc"] = nruns
    rep.exhaustive = True
    rep.rule = ("Rolling.tla (one action per segment between instrumentation points of Write/rotate; clock ticks, "
                "directory outages, Stop/Start) model-checked for 2 writers with ExactlyOnce, NothingLost, "
                "SequentialFresh, NotBeforeName, NameLaw, FdBound, MarkerMonotone; shortest witness behaviours to 6 "
                "goal states (retry on a closed file after a stall across two rotations, write to a rotated-out but open "
                "file, rotation contention, failed creation, three files, restart) and %d simulated behaviours (<= 120 "
                "steps, 2 writers, 6 writes, outages, restart) replayed on a real RollingFileAppender under a virtual clock "
                "with writer goroutines parked at every instrumentation point; after every step directory listing, file "
                "contents, /proc/self/fd, published handles and marker are compared.  Direction B: real-clock runs (1-2 s intervals, 1-16 "
                "writers, idle gaps, a stop/start cycle, lines 1 B - 64 KiB; file names with and without per-cent signs; the process in the "
                "sandbox's zone with a long retention and 11 h west / 13:45 h east of UTC with a retention of one hour) recorded without hooks; TLC evaluates ExactlyOnce, "
                "NotBeforeName, SequentialFresh and NamesWithinRun on each (RollingHistory.tla).  Non-trivial = distinct step sequences."
                % rep.extra.get("simulated_behaviours", 0))
    rep.assumptions = ["TLC/SANY", "Go toolchain", "verif hooks: virtual clock + park points in Write/rotate",
                       "O_APPEND and rename semantics of the kernel", "Stop/Start only with no write in progress (premise)"]
    return rep.finish()
