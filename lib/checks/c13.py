"""C13 - rolling file appender loses nothing across rotations and never truncates."""
from checks import rolling_common


def run(ctx):
    rep, cases = rolling_common.run(ctx, "C13")
    rep.exhaustive = True
    rep.rule = ("Rolling.tla (one action per segment between instrumentation points of Write/rotate; clock ticks, "
                "directory outages, Stop/Start) model-checked for 2 writers with ExactlyOnce, NothingLost, "
                "SequentialFresh, NotBeforeName, NameLaw, FdBound, MarkerMonotone; shortest witness behaviours to 6 "
                "goal states (retry on a closed file after a stall across two rotations, write to a rotated-out but open "
                "file, rotation contention, failed creation, three files, restart) and %d simulated behaviours (<= 120 "
                "steps, 2 writers, 6 writes, outages, restart) replayed on a real RollingFileAppender under a virtual clock "
                "with writer goroutines parked at every instrumentation point; after every step directory listing, file "
                "contents, /proc/self/fd, published handles and marker are compared.  Non-trivial = distinct step sequences."
                % rep.extra.get("simulated_behaviours", 0))
    rep.assumptions = ["TLC/SANY", "Go toolchain", "verif hooks: virtual clock + park points in Write/rotate",
                       "O_APPEND and rename semantics of the kernel", "Stop/Start only with no write in progress (premise)"]
    return rep.finish()
