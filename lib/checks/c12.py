"""C12 - raw Write reaches every appender of the named logger verbatim.
Spec: LogSystem.tla restricted to {Refresh(A|B), Destroy, GetHandle, Write}; AsyncLogger.tla covers
order and call-time value under queueing.  Binding A: all histories of length 5 + simulated ones of
length 9, sync and async; the caller overwrites its buffer right after every Write."""
import vf


def run(ctx):
    thorough = ctx.tier == "thorough"
    rep = vf.Report(ctx)
    r1 = ctx.tlc("LogSystem", "MC_LogSystem_write", timeout=1500)
    rs = ctx.tlc("LogSystem", "MC_LogSystem_write_sim", simulate="num=%d" % (40000 if thorough else 2000),
                 depth=10, workers=1, timeout=1500)
    if not r1.emitted or not rs.emitted:
        raise vf.Infra("no histories emitted")
    cases = ctx.write_cases("write.ndjson", r1.emitted + rs.emitted)
    res = ctx.vh(["lifecycle", "--cases", cases, "--mode", "both"], timeout=3000)
    rep.absorb(res)
    res2 = ctx.vh(["rawwrite"], timeout=1500)
    rep.absorb(res2)
    # raw writes through a full / nearly full queue, every policy: AsyncGen behaviours restricted to raw
    # items, replayed with a gated appender while the caller overwrites its buffer after each call
    hist = []
    for pol in ["Block", "Discard", "DiscardOldest"]:
        hist += ctx.tlc("AsyncGen", "Gen_Async_%s_raw" % pol, timeout=1500).emitted
    if not hist:
        raise vf.Infra("AsyncGen(raw) emitted nothing")
    rep.absorb(ctx.vh_sharded("asyncq", hist, extra=["--negwait_ms", "15"], timeout=1500))
    # raw writes still queued when Destroy begins, several loggers sharing appenders: Shutdown.tla scenarios
    from checks import shutdown_common
    shutdown_common.run(ctx, rep)
    rep.exhaustive = True
    rep.rule = ("all histories of length 5 over {Refresh(A), Refresh(B), Destroy, GetLogger(hb|root), Write(ha|hb|root)} "
                "plus %d simulated of length 9, sync and async; each logger has two references, one whose level range "
                "admits nothing, and a raw write must reach both exactly once, verbatim although the caller overwrites "
                "its buffer after the call; Write must return (len, nil); same name -> same handle; Refresh fails for an "
                "unconfigured handle name.  A payload sweep (empty, 1 byte, binary, multi-line, 1 MiB; 1-8 concurrent "
                "writers recycling one buffer each; all logger kinds) checks verbatim/once/per-writer order.  "
                "Shutdown.tla scenarios (reference table x accepted items x items still queued when Destroy begins; raw writes and "
                "events alternate) on asynchronous loggers sharing recording, file and rolling-file appenders: everything accepted is "
                "in every appender of its logger exactly once.  "
                "Non-trivial = distinct histories + payload x kind combinations." % len(rs.emitted))
    rep.assumptions = ["TLC/SANY", "Go toolchain", "recording appender plugin"]
    return rep.finish()
