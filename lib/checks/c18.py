"""C18 - tag names: exactly the documented language is accepted; idempotent registry.
Spec: TagLang.tla (declarative Valid vs counter automaton, all class strings <= MaxLen and the
length/segment compositions) and TagRegistry.tla (registry histories).  Binding A: every
(class string, verdict) pair and every history that TLC enumerates is replayed on RegisterTag /
Register{App,Biz,RPC}Tag / GetAllTags."""
import vf


def run(ctx):
    thorough = ctx.tier == "thorough"
    rep = vf.Report(ctx)
    r1 = ctx.tlc("TagLang", "MC_TagLang_t" if thorough else "MC_TagLang_q", timeout=900)
    cases = ctx.write_cases("taglang.ndjson", r1.emitted)
    if len(r1.emitted) != r1.distinct:
        raise vf.Infra("emitted %d cases but TLC found %d states" % (len(r1.emitted), r1.distinct))
    args = ["taglang", "--cases", cases, "--variants", "6" if thorough else "3",
            "--random", "200000" if thorough else "5000"]
    if thorough:
        args += ["--sweep", "7"]
    else:
        args += ["--sweep", "5"]
    res = ctx.vh(args, timeout=1500)
    rep.absorb(res)
    rep.extra.update(res.get("extra") or {})
    if thorough:
        r2 = ctx.tlc("TagRegistry", "MC_TagRegistry_q", timeout=900)
        r3 = ctx.tlc("TagRegistry", "MC_TagRegistry_sim", simulate="num=30000", depth=8, workers=1,
                     timeout=600)
        hist = r2.emitted + r3.emitted
    else:
        r2 = ctx.tlc("TagRegistry", "MC_TagRegistry_q", timeout=600)
        hist = r2.emitted
    hcases = ctx.write_cases("tagreg.ndjson", hist)
    res2 = ctx.vh(["tagregistry", "--cases", hcases], timeout=900)
    rep.absorb(res2)
    rep.exhaustive = True
    rep.rule = ("every class string over {lower,digit,_,upper,other} up to length %d and %d "
                "length/segment compositions (total length 2..38) enumerated by TLC with its verdict, "
                "each concretised with class-edge and random characters and passed to RegisterTag; "
                "concrete sweep of all strings over the 10-symbol boundary alphabet up to the same "
                "length; registry histories (RegisterTag / helper constructors) replayed with "
                "GetAllTags compared after every step.  Non-trivial = distinct class strings of "
                "length >= 2 plus distinct history outcome signatures."
                % (7 if thorough else 5, sum(1 for c in r1.emitted if c["k"] == "comp")))
    rep.assumptions = ["TLC/SANY", "Go toolchain", "VerifReset (verif tag) clears the registries between histories",
                       "class representatives: class edges a z 0 9 _ A Z and the bytes adjacent to them"]
    return rep.finish()
