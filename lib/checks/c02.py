"""C02 - each tag is served by the most specific configured logger, else root.
Spec: Routing.tla (declarative Serve vs operational Lookup, RefreshOK error classes).  Binding A:
every configuration TLC builds by AddPattern/AddEmpty steps is rendered to a configuration map and
run through Refresh (several times, shuffled key order) and the serving logger of every registered
tag is observed through recording appenders / the console."""
import vf


def run(ctx):
    thorough = ctx.tier == "thorough"
    rep = vf.Report(ctx)
    emitted = []
    if thorough:
        r1 = ctx.tlc("Routing", "MC_Routing_t", timeout=2400)
    else:
        r1 = ctx.tlc("Routing", "MC_Routing_q", timeout=900)
    if len(r1.emitted) != r1.distinct:
        raise vf.Infra("emitted %d != distinct %d" % (len(r1.emitted), r1.distinct))
    cases = ctx.write_cases("routing.ndjson", r1.emitted)
    res = ctx.vh(["routing", "--cases", cases, "--repeats", "4" if thorough else "3", "--maxseg", "3"],
                 timeout=3000)
    rep.absorb(res)
    # random deeper configurations: 4 loggers, 4-segment tags, up to 8 patterns
    rs = ctx.tlc("Routing", "MC_Routing_sim", simulate="num=%d" % (6000 if thorough else 400), depth=9,
                 workers=1, timeout=1200)
    cases2 = ctx.write_cases("routing_sim.ndjson", rs.emitted)
    res2 = ctx.vh(["routing", "--cases", cases2, "--repeats", "3", "--maxseg", "4"], timeout=3000)
    rep.absorb(res2)
    rep.exhaustive = True
    rep.rule = ("every configuration of <= %d loggers with <= %d patterns in total (literal tags, wildcards, "
                "three malformed wildcard forms, empty tag lists) x root {none, plain, with tags} over the 28 "
                "tags of <= 3 segments, enumerated by TLC, plus %d random deeper configurations (4 loggers, "
                "4-segment tags); each is run through Refresh 3-4 times with shuffled key order, logger names "
                "and blanks, one event is logged per registered tag and the receiving appender compared with "
                "Serve; rejected configurations must return an error without panic.  Non-trivial = distinct "
                "configurations (pattern multiset + root mode)." % (
                    (3, 3, len(rs.emitted)) if thorough else (2, 2, len(rs.emitted))))
    rep.assumptions = ["TLC/SANY", "Go toolchain", "recording appender plugin registered through RegisterPlugin",
                       "VerifReset (verif tag) to re-register the tag universe under another concretisation"]
    return rep.finish()
