"""C11 - reported file:line is the caller's statement, in both caller-lookup modes.
Spec: Caller.tla (skip arithmetic of both lookups, per-pc cache).  Binding A: every (mode,
enableCaller, site sequence) TLC enumerates is executed through generated call sites that return
their own location."""
import vf


def run(ctx):
    rep = vf.Report(ctx)
    r1 = ctx.tlc("Caller", "MC_Caller", timeout=900)
    if not r1.emitted:
        raise vf.Infra("Caller emitted nothing")
    reps = 3 if ctx.tier == "thorough" else 1
    for i in range(reps):
        res = ctx.vh_sharded("caller", r1.emitted, shards=4, timeout=1500)
        rep.absorb(res)
    rep.exhaustive = True
    rep.rule = ("15 entry points x 7 call shapes (plain, closure, deferred closure, goroutine, method value, generic "
                "helper, inlinable helper) + Record with skip 2 and 3, x {default, fast} x enableCaller on/off, each in "
                "the sequences A A A and A B A (cache miss, hit, cross-site); modes set through Refresh properties in "
                "camel/kebab/snake spelling, sync and async loggers; built without -N -l so inlining is the compiler's.  "
                "Non-trivial = distinct (site, mode, enable).")
    rep.assumptions = ["TLC/SANY", "Go toolchain", "runtime.Caller(1) evaluated in an argument of the logging statement names that statement's line",
                       "the model is the skip arithmetic and the cache only; the verdict comes from the replay"]
    return rep.finish()
