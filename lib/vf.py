"""Common machinery for /verif/bin/check: TLC runner, harness builder, evidence writer,
known-findings matcher.  Verdict rules (DESIGN.md 2.4):
  exit 0  everything explored conformed
  exit 1  VIOLATION line: the real code deviated (or a recorded real trace was rejected)
  exit 2  infrastructure problem (TLC/SANY error, model-only counterexample, timeout, build failure)
"""
import json, os, re, shutil, subprocess, sys, tempfile, time, hashlib

VERIF = os.path.dirname(os.path.dirname(os.path.abspath(__file__)))
REPO = os.environ.get("VERIF_REPO", "/repo")
SPEC = os.path.join(VERIF, "spec")
HARNESS = os.path.join(VERIF, "harness")
NCPU = os.cpu_count() or 4


class Infra(Exception):
    pass


def goenv():
    e = dict(os.environ)
    e["GOFLAGS"] = "-mod=mod"
    e["GOPROXY"] = "off"
    e.pop("GOTOOLCHAIN", None)
    e.pop("GOSUMDB", None)
    e.setdefault("GOCACHE", os.path.expanduser("~/.cache/go-build"))
    return e


class TLCResult:
    def __init__(self):
        self.generated = 0
        self.distinct = 0
        self.depth = 0
        self.emitted = []       # decoded JSON objects printed by the spec's Emit operators
        self.stdout = ""
        self.ok = False         # finished without error
        self.violation = None   # name of violated invariant / property, if any
        self.wall = 0.0
        self.coverage = {}


_EMIT = re.compile(r'^<<"EMIT", "(.*)">>$')


def parse_emits(text, out):
    for line in text.splitlines():
        m = _EMIT.match(line)
        if m:
            try:
                out.append(json.loads(json.loads('"' + m.group(1) + '"')))
            except Exception as ex:  # pragma: no cover
                raise Infra("cannot decode EMIT line %r: %s" % (line[:200], ex))


class Ctx:
    def __init__(self, prop, tier, seed):
        self.prop = prop
        self.tier = tier
        self.seed = seed
        self.t0 = time.time()
        self.scratch = tempfile.mkdtemp(prefix="verif-%s-" % prop)
        self.specdir = os.path.join(self.scratch, "spec")
        shutil.copytree(SPEC, self.specdir)
        self._bin = None
        self.tlc_runs = []
        self.known = load_known()

    def cleanup(self):
        shutil.rmtree(self.scratch, ignore_errors=True)

    # ---------------------------------------------------------------- TLC
    def tlc(self, module, cfg=None, workers=None, timeout=600, simulate=None, depth=None,
            env=None, extra=None, expect_violation=False, coverage=False, heap=None):
        """Run TLC on spec/<module>.tla with spec/<cfg>.cfg inside the scratch copy."""
        cfg = cfg or module
        md = tempfile.mkdtemp(prefix="md-", dir=self.scratch)
        cmd = ["tlc", "-metadir", md, "-config", cfg + ".cfg"]
        if workers is None:
            workers = NCPU
        cmd += ["-workers", str(workers)]
        if simulate:
            cmd += ["-simulate", simulate]
        if depth:
            cmd += ["-depth", str(depth)]
        if simulate:
            cmd += ["-seed", str(self.seed)]
        if coverage:
            cmd += ["-coverage", "1"]
        if extra:
            cmd += extra
        cmd += [module + ".tla"]
        e = dict(os.environ)
        jto = "-Xss64m -Djava.io.tmpdir=%s" % md      # TLC leaves a tlc-<n> directory in java.io.tmpdir on every run
        if heap:
            jto += " -Xmx%s" % heap
        e["JAVA_TOOL_OPTIONS"] = (e.get("JAVA_TOOL_OPTIONS", "") + " " + jto).strip()
        if env:
            e.update(env)
        t = time.time()
        try:
            p = subprocess.run(["timeout", str(timeout)] + cmd, cwd=self.specdir, env=e,
                               stdout=subprocess.PIPE, stderr=subprocess.STDOUT, text=True,
                               errors="replace")
        finally:
            shutil.rmtree(md, ignore_errors=True)
        r = TLCResult()
        r.wall = time.time() - t
        r.stdout = p.stdout
        m = re.search(r"(\d+) states generated, (\d+) distinct states found", p.stdout)
        if m:
            r.generated, r.distinct = int(m.group(1)), int(m.group(2))
        m = re.search(r"depth of the complete state graph search is (\d+)", p.stdout)
        if m:
            r.depth = int(m.group(1))
        m = re.search(r"Invariant (\S+) is violated", p.stdout)
        if m:
            r.violation = m.group(1)
        m2 = re.search(r"(Temporal properties were violated|Action property (\S+) is violated|"
                       r"Deadlock reached|The postcondition \S* ?is violated|"
                       r"Error: Evaluating assumption)", p.stdout)
        if m2 and not r.violation:
            r.violation = m2.group(0)
        parse_emits(p.stdout, r.emitted)
        r.ok = (p.returncode == 0)
        self.tlc_runs.append({"module": module, "cfg": cfg, "generated": r.generated,
                              "distinct": r.distinct, "depth": r.depth, "wall_s": round(r.wall, 2),
                              "rc": p.returncode, "violation": r.violation})
        if os.environ.get("VERIF_VERBOSE"):
            print("  [tlc %s/%s: %d distinct, %d emitted, %.1fs]" % (module, cfg, r.distinct, len(r.emitted), r.wall))
        if p.returncode == 124:
            raise Infra("TLC timeout on %s/%s after %ss" % (module, cfg, timeout))
        if not r.ok and not (expect_violation and r.violation):
            tail = "\n".join(p.stdout.splitlines()[-40:])
            if r.violation:
                raise Infra("TLC: model-level violation of %s in %s/%s (not a verdict about the "
                            "code)\n%s" % (r.violation, module, cfg, tail))
            raise Infra("TLC failed on %s/%s rc=%s\n%s" % (module, cfg, p.returncode, tail))
        return r

    def states(self):
        return sum(r["distinct"] for r in self.tlc_runs)

    def transitions(self):
        return sum(r["generated"] for r in self.tlc_runs)

    # ------------------------------------------------------------ harness
    def build(self, race=False):
        key = "vh-race" if race else "vh"
        if self._bin and key in self._bin:
            return self._bin[key]
        self._bin = self._bin or {}
        out = os.path.join(self.scratch, key)
        hdir = HARNESS
        if REPO != "/repo":
            # checks against another copy of the library (seed testing): build from a scratch copy of the
            # harness whose module replacement points there
            hdir = os.path.join(self.scratch, "harness-src")
            if not os.path.exists(hdir):
                shutil.copytree(HARNESS, hdir)
                gm = open(os.path.join(hdir, "go.mod")).read().replace("=> /repo", "=> " + REPO)
                open(os.path.join(hdir, "go.mod"), "w").write(gm)
        sumsrc = os.path.join(REPO, "go.sum")
        if os.path.exists(sumsrc):
            shutil.copyfile(sumsrc, os.path.join(hdir, "go.sum"))
        cmd = ["go", "build", "-tags", "verif", "-o", out]
        if race:
            cmd.append("-race")
        cmd.append("./cmd/vh")
        p = subprocess.run(cmd, cwd=hdir, env=goenv(), stdout=subprocess.PIPE,
                           stderr=subprocess.STDOUT, text=True)
        if p.returncode != 0:
            raise Infra("harness build failed:\n" + p.stdout[-4000:])
        self._bin[key] = out
        return out

    def vh(self, args, timeout=900, race=False, env=None, stdin=None, check=True):
        """Run the harness binary; returns parsed JSON result written to --out."""
        binp = self.build(race)
        outp = tempfile.mktemp(prefix="res-", suffix=".json", dir=self.scratch)
        e = goenv()
        e["VERIF_SEED"] = str(self.seed)
        e["VERIF_TIER"] = self.tier
        e["VERIF_SCRATCH"] = self.scratch
        if env:
            e.update(env)
        _t = time.time()
        p = subprocess.run(["timeout", "-k", "5", str(timeout), binp] + args + ["--out", outp],
                           cwd=self.scratch, env=e, stdout=subprocess.PIPE, stderr=subprocess.STDOUT,
                           text=True, errors="replace", input=stdin)
        if os.environ.get("VERIF_VERBOSE"):
            print("  [vh %s: rc=%s %.1fs]" % (args[0], p.returncode, time.time() - _t))
        if p.returncode == 124 or p.returncode == 137:
            raise Infra("harness %s timed out after %ss\n%s" % (args[:2], timeout, p.stdout[-3000:]))
        if not os.path.exists(outp) and re.search(r"^(panic:|fatal error:)", p.stdout, re.M) \
                and "github.com/go-spring/log" in p.stdout:
            # the real code crashed the process (panic on a library goroutine, deadlock, ...):
            # that is an observation about the implementation, not an infrastructure failure
            m = re.search(r"^(panic:|fatal error:).*$", p.stdout, re.M)
            frames = re.findall(r"^(github\.com/go-spring/log[^\s(]*)", p.stdout, re.M)
            return {"evaluations": 1, "distinct_nontrivial": 0, "samples": [],
                    "violations": [{"key": "process-crash:" + (frames[0] if frames else "?"),
                                    "what": "the harness process died inside go-spring/log: %s; first "
                                            "library frames: %s" % (m.group(0)[:200], frames[:4]),
                                    "case": {"args": args[:2], "output_tail": p.stdout[-1500:]}}],
                    "_stdout": p.stdout[-2000:]}
        if not os.path.exists(outp):
            raise Infra("harness %s produced no result (rc=%s)\n%s" % (args[:2], p.returncode,
                                                                       p.stdout[-6000:]))
        with open(outp) as f:
            res = json.load(f)
        res["_stdout"] = p.stdout[-2000:]
        if check and res.get("infra"):
            raise Infra("harness %s infra error: %s" % (args[:2], res["infra"]))
        return res

    def vh_sharded(self, cmd, cases, extra=None, shards=None, timeout=1800, env=None):
        """Split the case list over several harness processes (the library's state is process-global,
        so parallelism is by process) and merge the results."""
        import concurrent.futures
        shards = shards or min(NCPU, max(1, len(cases) // 200))
        parts = [cases[i::shards] for i in range(shards)]
        paths = [self.write_cases("%s-%d.ndjson" % (cmd, i), part) for i, part in enumerate(parts) if part]
        self.build()

        def one(i_path):
            i, path = i_path
            e = dict(env or {})
            e["VERIF_SHARD"] = str(i)
            return self.vh([cmd, "--cases", path] + (extra or []), timeout=timeout, env=e)
        with concurrent.futures.ThreadPoolExecutor(max_workers=shards) as ex:
            results = list(ex.map(one, enumerate(paths)))
        merged = {"evaluations": 0, "distinct_nontrivial": 0, "traces": 0, "samples": [], "violations": [],
                  "extra": {}}
        for res in results:
            merged["evaluations"] += res.get("evaluations", 0)
            merged["distinct_nontrivial"] += res.get("distinct_nontrivial", 0)
            merged["traces"] += res.get("traces", 0)
            merged["samples"] += (res.get("samples") or [])[:2]
            merged["violations"] += res.get("violations") or []
            for k, v in (res.get("extra") or {}).items():
                if isinstance(v, (int, float)):
                    merged["extra"][k] = merged["extra"].get(k, 0) + v
        return merged

    # ------------------------------------------------------------ Apalache
    def apalache(self, module, jobs, timeout=900):
        """Run `apalache-mc check` jobs (list of (label, [args])) on spec/<module>.tla in parallel.  Every job must
        end with "The outcome is: NoError"; anything else concerns the model only and is an infrastructure error."""
        import concurrent.futures
        def one(job):
            label, args = job
            d = tempfile.mkdtemp(prefix="apa-", dir=self.scratch)
            shutil.copy(os.path.join(self.specdir, module + ".tla"), d)
            e = dict(os.environ)
            e["JAVA_TOOL_OPTIONS"] = "-Djava.io.tmpdir=%s" % d
            e["TMPDIR"] = d
            t = time.time()
            p = subprocess.run(["timeout", str(timeout), "apalache-mc", "check", "--out-dir=" + os.path.join(d, "out")] + args +
                               [module + ".tla"], cwd=d, env=e, stdout=subprocess.PIPE, stderr=subprocess.STDOUT,
                               text=True, errors="replace")
            ok = "The outcome is: NoError" in p.stdout
            shutil.rmtree(d, ignore_errors=True)
            return label, ok, time.time() - t, p.stdout[-1500:]
        with concurrent.futures.ThreadPoolExecutor(max_workers=len(jobs)) as ex:
            results = list(ex.map(one, jobs))
        for label, ok, wall, tail in results:
            if os.environ.get("VERIF_VERBOSE"):
                print("  [apalache %s/%s: %s, %.1fs]" % (module, label, "NoError" if ok else "FAILED", wall))
            if not ok:
                raise Infra("apalache %s/%s did not end with NoError:\n%s" % (module, label, tail))
            self.tlc_runs.append({"module": module, "cfg": "apalache:" + label, "generated": 0, "distinct": 0,
                                  "wall_s": round(wall, 1)})
        return results

    def write_cases(self, name, cases):
        path = os.path.join(self.scratch, name)
        with open(path, "w") as f:
            for c in cases:
                f.write(json.dumps(c, separators=(",", ":")) + "\n")
        return path


# ---------------------------------------------------------------- known findings
def load_known():
    path = os.path.join(VERIF, "KNOWN_FINDINGS.txt")
    out = []
    if not os.path.exists(path):
        return out
    for line in open(path):
        line = line.strip()
        m = re.match(r"known:\s+property=(\S+)\s+key=(\S+)\s+(.*)", line)
        if m:
            out.append({"property": m.group(1), "key": m.group(2), "what": m.group(3)})
    return out


class Report:
    """Accumulates results of one check run and turns them into verdict + evidence."""

    def __init__(self, ctx, level="model_checking"):
        self.ctx = ctx
        ctx.report = self
        self.level = level
        self.evaluations = 0
        self.distinct = 0
        self.traces = 0
        self.samples = []
        self.violations = []     # dicts with at least 'key' and 'what'
        self.rule = ""
        self.assumptions = []
        self.extra = {}
        self.exhaustive = False

    def absorb(self, res, traces=True):
        """Merge a harness result."""
        self.evaluations += int(res.get("evaluations", 0))
        self.distinct += int(res.get("distinct_nontrivial", 0))
        if traces:
            self.traces += int(res.get("traces", res.get("evaluations", 0)))
        for s in (res.get("samples") or [])[:3]:
            if len(self.samples) < 12:
                self.samples.append(s)
        for v in (res.get("violations") or []):
            self.violations.append(v)

    def finish(self):
        ctx = self.ctx
        known_keys = {k["key"]: k for k in ctx.known if k["property"] == ctx.prop}
        real, knownhits = [], {}
        for v in self.violations:
            k = v.get("key", "")
            if k in known_keys:
                knownhits.setdefault(k, v)
            else:
                real.append(v)
        for k in knownhits:
            print("KNOWN-FINDING: property=%s %s (key=%s)" % (ctx.prop, known_keys[k]["what"], k))
        cov = {
            "states": ctx.states(),
            "transitions": ctx.transitions(),
            "traces_validated_against_impl": self.traces,
            "evaluations": self.evaluations,
            "distinct_nontrivial": self.distinct,
            "rule": self.rule,
            "samples": self.samples[:12] or ["(none)"],
            "exhaustive": self.exhaustive,
            "tlc_runs": ctx.tlc_runs,
            "known_findings_hit": sorted(knownhits),
        }
        cov.update(self.extra)
        ev = {
            "property_id": ctx.prop,
            "tier": ctx.tier,
            "seed": ctx.seed,
            "level": self.level,
            "coverage": cov,
            "assumptions": self.assumptions,
            "wall_s": round(time.time() - ctx.t0, 2),
            "violations": len(real),
        }
        evdir = os.environ.get("VERIF_EVIDENCE_DIR") or os.path.join(VERIF, "evidence")
        os.makedirs(evdir, exist_ok=True)
        with open(os.path.join(evdir, ctx.prop + ".json"), "w") as f:
            json.dump(ev, f, indent=1, sort_keys=True, default=str)
            f.write("\n")
        if real:
            rpdir = os.environ.get("VERIF_REPLAY_DIR") or os.path.join(VERIF, "replays")
            os.makedirs(rpdir, exist_ok=True)
            h = hashlib.sha1(json.dumps(real[0], sort_keys=True, default=str).encode()).hexdigest()[:10]
            path = os.path.join(rpdir, "%s-%s-%s.json" % (ctx.prop, ctx.tier, h))
            with open(path, "w") as f:
                json.dump({"property": ctx.prop, "tier": ctx.tier, "seed": ctx.seed,
                           "violations": real[:50]}, f, indent=1, default=str)
            for v in real[:5]:
                print("  deviation: key=%s %s" % (v.get("key"), str(v.get("what"))[:600]))
            print("VIOLATION property=%s replay=%s" % (ctx.prop, path))
            return 1
        print("OK property=%s tier=%s states=%d evaluations=%d traces=%d wall=%.1fs" % (
            ctx.prop, ctx.tier, cov["states"], self.evaluations, self.traces, ev["wall_s"]))
        return 0
