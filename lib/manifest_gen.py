#!/usr/bin/env python3
"""Regenerates MANIFEST.json from the table below (single source of truth for the interface)."""
import json, os, subprocess
V = os.path.dirname(os.path.dirname(os.path.abspath(__file__)))

CHECKS = {
 "C18": dict(
    text="TLC enumerates every string over the five character classes up to length 5 (quick) / 7 (thorough) plus 2.2k length/segment compositions, checks that a counter automaton equals the declarative definition, and emits each (string, verdict); every pair is replayed on RegisterTag with class-edge concretisations, all strings over a 10-symbol boundary alphabet are swept against the same table, and TLC-generated registry histories are replayed with GetAllTags compared after every step. Exhaustive within the bound; the language is regular with counters <= 36, so the bound plus compositions covers every transition of the automaton.",
    note="Trusts TLC/SANY, the Go toolchain, VerifReset (verif tag) and the class representatives chosen for concretisation.",
    technique="TLA+ spec (TagLang/TagRegistry) model-checked with TLC; every enumerated state replayed on the real code",
    design="4/C18", engine="taglang"),
 "C09": dict(
    text="TLC enumerates every string over the 21 byte classes (on which escaping and UTF-8 well-formedness are constant) up to length 4, runs the escaper transducer whose guards define well-formed UTF-8, checks totality, determinism, no raw control/quote/backslash, UTF-8 validity and the partition law, and emits each (input classes, output tokens). The table is replayed on WriteLogString with min/max/random bytes of each class, drives a sliding-window oracle for random strings up to 64 KiB and an exhaustive sweep of all byte strings up to length 3; outputs that differ are judged by an independent JSON/UTF-8 decoder.",
    note="Trusts TLC/SANY, Go toolchain, encoding/json + unicode/utf8 as reference decoders, and the <=4-byte look-ahead argument for strings longer than the window.",
    technique="TLA+ transducer spec (Escape) model-checked with TLC; TLC-generated table replayed on WriteLogString and both encoders",
    design="4/C09", engine="escape"),
 "C02": dict(
    text="TLC builds every routing configuration (<=2 loggers/2 patterns quick, <=3/3 thorough, plus random 4-logger/8-pattern ones) over literal tags, wildcards, malformed wildcards, empty tag lists and three root modes, checks that the operational longest-prefix lookup equals the declarative Serve for all 28 tags, and emits (configuration, accept/reject, tag->logger). Each is rendered to a configuration map and run through the real Refresh 3-4 times with shuffled key order/logger names/blanks; one event per registered tag is logged and the receiving recording appender (or console) compared with Serve; rejected configurations must yield an error, never a panic.",
    note="Trusts TLC/SANY, Go toolchain, the recording appender plugin and VerifReset; Go map iteration order is sampled by repetition, not enumerated.",
    technique="TLA+ spec (Routing) model-checked with TLC; every enumerated configuration replayed through Refresh and observed via recording appenders",
    design="4/C02", engine="routing"),
 "C01": dict(
    text="TLC checks, for every list of 1-3 (quick) / 1-4 (thorough) appender references over a 6-point level lattice, that the sort-and-scan chaining algorithm equals the declarative effective range, and the delivery law (action property DeliveredExactly) for every logger range and event level and every logger kind (sync/async with/without logger layout, rolling-file sync/async x separate, console, file). ~14k (quick) emitted cases are rendered to configuration maps with a seeded order-preserving map onto 11 concrete level codes (NONE, custom AUDIT/TOP, MAX included), random letter case and both appenderRef spellings, run through Refresh, exercised through all 14 fixed-level entry points plus Record at all 11 levels with unique ids, and each appender's deliveries (recording appenders, rolling files, console, file) compared with the specification after Destroy.",
    note="Trusts TLC/SANY, Go toolchain, the recording appender plugin. Explicit '~MAX' on a reference is not generated (property silent). Concrete level placement is sampled by seed, structure is exhaustive.",
    technique="TLA+ spec (Levels) model-checked with TLC; emitted cases replayed through Refresh + 15 entry points",
    design="4/C01", engine="levels"),
 "C16": dict(
    text="LogSystem.tla models the lifecycle (fresh/live/failed-late/destroyed), the tag and handle registries, both valid configurations, early and late Refresh failures, Destroy, logging and raw writes, with action properties SecondRefreshRejected, DestroyIdempotent, RegistrationOnlyWithoutLiveCfg and invariants NoCfgMeansConsole, RoutesAsConfigured. TLC emits every history of length 4 (quick) / 5 (thorough) plus simulated histories of length 9 with the expected observation of every step; the replayer executes each on the real library with sync and async loggers, every call under a 3 s watchdog and recover, observing recording appenders and the console stream.",
    note="Trusts TLC/SANY, Go toolchain, recording appender plugin, VerifReset. After a late Refresh failure and until Destroy only no-panic/no-block is required (property silent).",
    technique="TLA+ spec (LogSystem) model-checked with TLC; all bounded histories + simulated ones replayed step by step on the real code",
    design="4/C16", engine="lifecycle"),
 "C10": dict(
    text="LogSystem.tla restricted to Refresh/Destroy/SetHooks/Log(lazy|plain): invariant HooksIffEmitted (each installed hook and a lazy generator exactly once iff the event is enabled at the serving logger). All histories of length 3 and simulated ones of length 7 are replayed with counting hooks that record the context they receive; each abstract Log step is concretised to one of the 15 entry points on the required side of a level range that may be bounded from below or above; records are inspected at recording appenders and on the console line (hook time, context string, context fields ahead of own fields). A gated asynchronous run checks that queued records keep their own fields when the hook returns slices over one shared array.",
    note="Trusts TLC/SANY, Go toolchain, recording appender plugin; hooks are process-global function variables set by the harness.",
    technique="TLA+ spec (LogSystem, hooks alphabet) model-checked with TLC; histories replayed with counting hooks",
    design="4/C10", engine="lifecycle"),
 "C12": dict(
    text="LogSystem.tla restricted to Refresh(A|B)/Destroy/GetLogger/Write: invariants RoutesAsConfigured, LiveHandlesAreConfigured, NoCfgMeansConsole. All histories of length 5 plus simulated ones of length 9 are replayed (sync and async): a raw write must reach every appender of the named logger exactly once although one reference's level range admits nothing, verbatim although the caller overwrites its buffer after the call, and return (len, nil); same name gives the same handle; Refresh fails for an unconfigured handle name. A payload sweep (empty, 1 byte, binary, multi-line, 1 MiB) x 9 logger kinds x 1-8 concurrent writers recycling one buffer checks verbatim / exactly-once / per-writer order in recording appenders, files and the console stream.",
    note="Trusts TLC/SANY, Go toolchain, recording appender plugin. Queue-level ordering of raw writes is additionally covered by the AsyncLogger module.",
    technique="TLA+ specs (LogSystem, write alphabet; Shutdown, Destroy as a sequence of steps) model-checked with TLC; histories and shutdown scenarios replayed + payload/kind/concurrency sweep",
    design="4/C12", engine="lifecycle"),
 "C04": dict(
    text="AsyncLogger.tla has one action per channel operation (non-blocking send, Discard, DiscardOldest try/pop loop, blocking send, worker take/deliver, Stop marker send / wait). TLC checks per policy (2 producers, capacity 2): Conservation (every enabled item in exactly one of buffer/worker/delivered/dropped/in-flight), NoDuplicates, DisabledIgnored, BlockNeverDiscards, ConservationAtStop, plus the liveness property StopTerminates under worker fairness. AsyncGen.tla gives internal steps priority and emits every behaviour of 5 (quick) / 7 (thorough) external operations {event, disabled event, raw write, release worker, Stop} from occupancies 97..99 of a real 100-slot buffer plus simulated 14-operation behaviours with 3 producers; each is replayed on a Refresh-built AsyncLogger whose appender is gated, comparing delivery list, discard counter, parked item and returned/blocked calls at every settled state and conservation / FIFO / verbatim after Destroy. Randomized 1-32 producer runs on fast/slow/bursty appenders (incl. the suite's 5000+100 shape) are recorded and TLC evaluates the same laws on each recorded history.",
    note="Trusts TLC/SANY, Go toolchain, the gated recording appender (worker parked inside Append/Write). Negative observations ('still blocked') use a bounded wait on behaviour a correct implementation shows forever. Log calls concurrent with Stop are excluded by the property.",
    technique='TLA+ spec (AsyncLogger) model-checked with TLC (+ refinement of AbstractFifo, + counter abstraction AsyncCounters with an inductive invariant discharged by Apalache and, in the thorough tier of C04, re-checked as a TLAPS proof); AsyncGen behaviours replayed on the real AsyncLogger via a gated appender; recorded multi-producer histories validated by TLC (AsyncHistory)',
    design="4/C04-C06", engine="asyncq"),
 "C05": dict(
    text="AsyncLogger.tla has one action per channel operation (non-blocking send, Discard, DiscardOldest try/pop loop, blocking send, worker take/deliver, Stop marker send / wait). TLC checks per policy (2 producers, capacity 2): ConservationAtStop (buffer empty, worker stopped, everything accepted delivered when Stop returns) and the liveness property StopTerminates; Stop is replayed at every occupancy including a full buffer (Stop itself blocked), with the worker idle / parked mid-append, plus the liveness property StopTerminates under worker fairness. AsyncGen.tla gives internal steps priority and emits every behaviour of 5 (quick) / 7 (thorough) external operations {event, disabled event, raw write, release worker, Stop} from occupancies 97..99 of a real 100-slot buffer plus simulated 14-operation behaviours with 3 producers; each is replayed on a Refresh-built AsyncLogger whose appender is gated, comparing delivery list, discard counter, parked item and returned/blocked calls at every settled state and conservation / FIFO / verbatim after Destroy. Randomized 1-32 producer runs on fast/slow/bursty appenders (incl. the suite's 5000+100 shape) are recorded and TLC evaluates the same laws on each recorded history.",
    note="Trusts TLC/SANY, Go toolchain, the gated recording appender (worker parked inside Append/Write). Negative observations ('still blocked') use a bounded wait on behaviour a correct implementation shows forever. Log calls concurrent with Stop are excluded by the property.",
    technique='TLA+ spec (AsyncLogger) model-checked with TLC (+ refinement of AbstractFifo, + counter abstraction AsyncCounters with an inductive invariant discharged by Apalache and, in the thorough tier of C04, re-checked as a TLAPS proof); AsyncGen behaviours replayed on the real AsyncLogger via a gated appender; recorded multi-producer histories validated by TLC (AsyncHistory); Shutdown.tla (stop order of loggers and appenders) model-checked and its scenarios replayed',
    design="4/C04-C06", engine="asyncq"),
 "C06": dict(
    text="AsyncLogger.tla has one action per channel operation (non-blocking send, Discard, DiscardOldest try/pop loop, blocking send, worker take/deliver, Stop marker send / wait). TLC checks per policy (2 producers, capacity 2): ProducerFIFO, DiscardDropsArriving, DiscardOldestDropsHead, DiscardOldestKeepsArriving, NonBlocking (a producer under a discard policy always has an enabled step that does not involve the worker), BlockWaitsForSpace, plus the liveness property StopTerminates under worker fairness. AsyncGen.tla gives internal steps priority and emits every behaviour of 5 (quick) / 7 (thorough) external operations {event, disabled event, raw write, release worker, Stop} from occupancies 97..99 of a real 100-slot buffer plus simulated 14-operation behaviours with 3 producers; each is replayed on a Refresh-built AsyncLogger whose appender is gated, comparing delivery list, discard counter, parked item and returned/blocked calls at every settled state and conservation / FIFO / verbatim after Destroy. Randomized 1-32 producer runs on fast/slow/bursty appenders (incl. the suite's 5000+100 shape) are recorded and TLC evaluates the same laws on each recorded history.",
    note="Trusts TLC/SANY, Go toolchain, the gated recording appender (worker parked inside Append/Write). Negative observations ('still blocked') use a bounded wait on behaviour a correct implementation shows forever. Log calls concurrent with Stop are excluded by the property.",
    technique='TLA+ spec (AsyncLogger) model-checked with TLC (+ refinement of AbstractFifo, + counter abstraction AsyncCounters with an inductive invariant discharged by Apalache and, in the thorough tier of C04, re-checked as a TLAPS proof); AsyncGen behaviours replayed on the real AsyncLogger via a gated appender; recorded multi-producer histories validated by TLC (AsyncHistory)',
    design="4/C04-C06", engine="asyncq"),
 "C11": dict(
    text="Caller.tla states the skip arithmetic of the default and the fast lookup over the logical call stack and a per-program-counter cache (SkipArithmetic, ModesAgree, HitEqualsMiss, DisabledIsEmpty) and enumerates 15 entry points x 7 call shapes (+ Record with skip 2, 3) x {default, fast} x enableCaller on/off in the site sequences A A A and A B A. Each case is executed through generated call sites that evaluate runtime.Caller on the logging statement's own line; the location in the record at a recording appender must equal it (empty when disabled). The model is small - the verdict comes from the replay, which is exhaustive over the enumerated space.",
    note="Trusts TLC/SANY, Go toolchain, and that runtime.Caller(1) inside an argument expression names the statement's line. Compiled with default optimisation (inlining as the compiler chooses).",
    technique="TLA+ spec (Caller) enumerated by TLC; every case replayed through generated call sites",
    design="4/C11", engine="caller"),
 "C13": dict(
    text="Rolling.tla models Write/rotate one action per segment between instrumentation points, with clock ticks, directory outages and Stop/Start as environment steps. TLC checks for 2 writers (2-3 writes, 4-5 ticks, with/without outages and restarts, 0.1-10 M states) ExactlyOnce, NothingLost, NoDuplicateAnywhere, SequentialFresh, NotBeforeName, NameLaw, FdBound, FdZeroAfterStop, MarkerMonotone, FailKeepsFile and that no writer step can block. Shortest witness behaviours to six goal states and 250 (quick) / 3000 (thorough) simulated behaviours of up to 120 steps are replayed on a real RollingFileAppender: virtual clock, writer goroutines parked at every instrumentation point and released one specification step at a time, real directory renames; after every step directory listing, content of every file, /proc/self/fd, published handles and interval marker are compared with the specification state.",
    note='Trusts TLC/SANY, Go toolchain, the verif hooks (virtual clock, park points in Write/rotate), kernel O_APPEND/rename semantics. Stop/Start only with no write in progress (premise). Simulation is seeded random; witness behaviours and the model checking are exhaustive within the stated constants.',
    technique="TLA+ spec (Rolling) model-checked with TLC; witness + simulated behaviours replayed on the real appender with virtual clock and parked goroutines",
    design="4/C13", engine="rollreplay"),
 "C19": dict(
    text="Same Rolling.tla machinery with directory outages placed anywhere relative to interval boundaries and writer steps (FailKeepsFile, ExactlyOnce, NothingLost, SequentialFresh with the stale-interval exception = creation retried only at the next boundary, HolderCanProceed/NonLockStepsEnabled = no step of a call can block), replayed with real renames of the log directory. SinkFaults.tla enumerates all 5-operation histories of Start/Append/Write/Stop (+ break/repair of the console stream) on File, Console and RollingFile appenders with healthy, failing (/dev/full, failing io.Writer) or missing targets; each is replayed under recover and a 3 s watchdog: every call returns, Start yields ok or error, healthy targets gain exactly one line per delivery.",
    note='Trusts TLC/SANY, Go toolchain, the verif hooks (virtual clock, park points in Write/rotate), kernel O_APPEND/rename semantics. Stop/Start only with no write in progress (premise). Simulation is seeded random; witness behaviours and the model checking are exhaustive within the stated constants.',
    technique="TLA+ specs (Rolling with outages, SinkFaults) model-checked with TLC; behaviours/histories replayed on real appenders",
    design="4/C19", engine="rollreplay"),
 "C14": dict(
    text="Retention.tla states which entries of a directory population the retention scan removes (own = <name>.<14 digits>, regular file, older than the cut-off) and TLC enumerates every population of <= 2 (quick) / 3 (thorough) entries over 13 name classes x {file, directory} x {older, younger} with the survivors (CleanupExact). Each population is materialised with real mtimes 2 s - 1 h from the cut-off, max ages 1-720 h, three appender names (incl. a .wf sibling name), the scan is run synchronously through the verif hook and the survivors compared; the file being written must survive. A live run triggers the real asynchronous scan through rotations of a RollingFile logger with separate=true under the virtual clock.",
    note="Trusts TLC/SANY, Go toolchain, VerifClearExpired hook, os.Chtimes and a wall clock that does not jump by seconds during a case.",
    technique="TLA+ spec (Retention) enumerated by TLC; every population replayed on the real retention scan",
    design="4/C14", engine="retention"),
 "C03": dict(
    text="SyncPath.tla models the event and buffer pools, formatting, the hand-over of bytes to a sink that consumes them in chunks, and over-cap buffers; TLC checks PoolDiscipline, NoAliasedReuse, WholeLines, OneLinePerEvent for 3 goroutines / 2 buffers and confirms that the as-built variant (bytes alias the pooled buffer) still yields its counterexample. Binding B: 30 (quick) / 120 (thorough) real runs with 2-64 goroutines, both layouts, five sink kinds and line sizes up to 3x the buffer-reuse cap are recorded through the pool hooks and sink instrumentation (backing-array identity, sequence numbers drawn inside the hooks) and TLC validates every event against Trace_SyncPath.tla (no sink write on the array of a pooled/foreign buffer, no double hold, no appender handed a pooled event); the sinks' content is compared as a multiset with the same events formatted alone, each Write call being one whole line. Binding A: the model's counterexample schedule is forced with GOMAXPROCS(1) and a sink that lets a second goroutine log mid-write. Corrupted traces (one field changed, one hook line dropped) must be rejected in every run.",
    note="Trusts TLC/SANY, Go toolchain, pool hooks, GC disabled during recording (addresses identify objects). File and rolling sinks are checked by content only. Real-concurrency runs sample schedules; the trace invariants are schedule-independent.",
    technique="TLA+ spec (SyncPath) model-checked with TLC; recorded executions validated by TLC against Trace_SyncPath; gated replay of the counterexample schedule",
    design="4/C03", engine="syncrec"),
 "C20": dict(
    text="CrashPath.tla models calls that format, hand the line to the kernel with one write and return, with Crash (SIGKILL / os.Exit) enabled in every state and user-space buffers discarded by it; TLC checks AckedSurvive and NoUserBuffer, confirms that the buffered variant still violates AckedSurvive, and enumerates every crash placement (k acknowledged calls x kill/exit) for three goroutine/call shapes. Each placement is executed on a child process (sync logger -> file / rolling-file / console appender, both layouts) that acknowledges every returned call on a pipe; after the kill/exit every acknowledgement the parent read must have its complete line in the target exactly once. Direction B: six straced runs - the write(2) log is the trace and TLC validates it against Trace_Crash.tla (each acknowledgement preceded by exactly one write carrying the whole line); a trace with one acknowledgement moved before its write must be rejected.",
    note="Trusts TLC/SANY, Go toolchain, strace (ptrace permitted in the sandbox), and that a returned write(2) survives process death (not power loss: the property speaks about process crash/exit).",
    technique="TLA+ spec (CrashPath, incl. calls that cannot be encoded) model-checked with TLC; crash placements replayed on a child process; strace system-call traces validated by TLC (Trace_Crash)",
    design="4/C20", engine="crash"),
 "C07": dict(
    text="Encoder.tla models the Encoder protocol as a grammar of well-nested call streams and both implementations as token machines written one action per method (JSON: comma iff the previous token was a value or a closing bracket; text: key=value at depth 0, an embedded JSON machine that is reset when the depth returns to 0). TLC enumerates every stream of <= 7 calls / depth 3 (quick) or 8 / 4 (thorough) and checks WellFormedJSON with an independent RFC 8259 recogniser and TextIsRewrittenJSON (the text line is the JSON line's top-level members rewritten key=value, string-like scalars unquoted). Each stream is built 3 (quick) / 10 (thorough) times through the public constructors (typed, pointer, Any, Reflect, typed slices, Object, a custom ArrayValue that replays nested calls) with boundary and seeded values and formatted by the real layouts: the JSON line must be exactly one line, pass encoding/json, decode (ordered scan) to the logged data - member order, exact integers over the int64/uint64 range, bit-exact floats, strings with one U+FFFD per invalid byte, null for nil pointers, json.Marshal text for reflected values, a JSON string for non-finite and unmarshallable values - and show the specification's token structure; map-sourced fields must come out sorted by key.",
    note="Trusts TLC/SANY, Go toolchain, encoding/json and strconv as reference. Structure is exhaustive within the bound; value fidelity (exact integers, bit-exact floats, byte-exact strings) is sampled over boundary pools plus seeded random values.",
    technique="TLA+ spec (Encoder token machines) model-checked with TLC; every enumerated call stream replayed through the real constructors and layouts with an independent JSON decoder as oracle",
    design="4/C07-C08", engine="encoder"),
 "C08": dict(
    text="Encoder.tla models the Encoder protocol as a grammar of well-nested call streams and both implementations as token machines written one action per method (JSON: comma iff the previous token was a value or a closing bracket; text: key=value at depth 0, an embedded JSON machine that is reset when the depth returns to 0). TLC enumerates every stream of <= 7 calls / depth 3 (quick) or 8 / 4 (thorough) and checks WellFormedJSON with an independent RFC 8259 recogniser and TextIsRewrittenJSON (the text line is the JSON line's top-level members rewritten key=value, string-like scalars unquoted). Each stream is built 3 (quick) / 10 (thorough) times through the public constructors (typed, pointer, Any, Reflect, typed slices, Object, a custom ArrayValue that replays nested calls) with boundary and seeded values and formatted by the real layouts: the text line must equal, byte for byte, the line rebuilt from the real JSON line of the same event (header [LEVEL][time][file:line] tag||, context string, then key=value for context and call fields with exactly the string-like values unquoted) and contain no raw control byte; FileLine.tla states the truncation law for every width and TLC enumerates (length 0..12, width -5..14), replayed together with a sweep of widths -5..200 on GetFileLine.",
    note="Trusts TLC/SANY, Go toolchain; the text oracle is differential against the JSON line validated under C07 (as the property is stated). The context string is written verbatim by the layout; it is generated without control characters.",
    technique="TLA+ spec (Encoder text machine + FileLine law) model-checked with TLC; text output compared with the line rebuilt from the real JSON tokens",
    design="4/C07-C08", engine="encoder"),
 "C17": dict(
    text="ExprParser.tla is a pushdown recogniser for the expression grammar at token level with the flattening semantics as state (assignments recorded by token position in document order; 'type' on entering each expression; later assignments win). TLC grows every token string of <= 8 (quick) / 9 (thorough) tokens whose proper prefixes are viable - each viable prefix extended by every admissible and every inadmissible token, and cut off at end of input - and 3000 / 30000 simulated viable strings up to 40 tokens and nesting 6, emitting verdict and assignments. Tokens are concretised (identifiers incl. keyword-like ones, integers with sign / hex / beyond int64, floats in every grammar form, string literals with every admitted escape, raw line breaks, non-ASCII) with arbitrary spacing and fed to expr.Parse: accepted strings must yield exactly the flattened map and no error, all others an error and no map, never a panic. Random, mutated and deeply nested inputs up to 64 KiB exercise totality under a watchdog.",
    note="Trusts TLC/SANY, Go toolchain. The lexeme forms are a hand-written concretisation table (the model is token-level); blank input returning (nil, nil) is accepted as pinned by the suite.",
    technique="TLA+ spec (ExprParser pushdown automaton with flattening) enumerated by TLC; every token string replayed on expr.Parse",
    design="4/C17", engine="exprparse"),
 "C15": dict(
    text="Config.tla states attribute resolution (Resolve: configured, else declared default, else error; ${key} -> top-level property, error if absent; ill-typed text is an error for convertible types) and element resolution (ResolveElem) and TLC enumerates declarations x treatments x spellings x forms (5888 cases). Each case is mapped onto a concrete attribute of a registered plugin type - rotating through every attribute of every type read from the live plugin registry by reflection, so new types are covered automatically - and executed with NewPlugin: the field must hold the configured literal, the declared default or the property value, or creation must fail. Element shapes (default, optional, single, indexed, unknown type, missing/ill-typed inner attribute) on a probe plugin; 20 whole configurations (4 key spellings x flat / inline 'name!' forms) that instantiate every registered logger and appender type through Refresh with the instantiated fields inspected; 25 error classes incl. start failures and absurd buffer sizes must return an error; 1500 (quick) / 20000 (thorough) random mutation triples must neither panic nor hang.",
    note="Trusts TLC/SANY, Go toolchain, VerifPlugins hook. Literals per Go field type are chosen by the harness; plugin types registered by the harness itself (Rec, Probe, SlowSink, GateLayout) are part of the sweep.",
    technique="TLA+ spec (Config resolution tables) enumerated by TLC; cases mapped by reflection onto every registered plugin attribute and replayed through NewPlugin / Refresh",
    design="4/C15", engine="config"),
}

NOT_YET = {}

def hooks_commits():
    out = subprocess.run(["git", "-C", "/repo", "log", "--format=%H %s"], stdout=subprocess.PIPE, text=True).stdout
    return [l.split()[0] for l in out.splitlines() if l.split(" ", 1)[1].startswith("verif:")][::-1]

def main():
    props = [json.loads(l) for l in open(os.path.join(V, "properties.jsonl"))]
    checks = []
    na = []
    for p in props:
        pid = p["id"]
        c = CHECKS.get(pid)
        if not c:
            na.append({"property_id": pid, "reason": NOT_YET.get(pid, "check not built yet in this round (planned: see DESIGN.md section 4)")})
            continue
        checks.append({
            "property_id": pid,
            "quick_cmd": "bin/check %s --tier quick" % pid,
            "thorough_cmd": "bin/check %s --tier thorough" % pid,
            "evidence_file": "/verif/evidence/%s.json" % pid,
            "replay_cmd_template": "bin/check %s --replay {path}" % pid,
            "engine": c.get("engine", ""),
            "level_claimed": {"category": c.get("level", "model_checking"), "text": c["text"] + " The scenario replays added after each round of seeded changes (DESIGN.md section 12: what each one exercises and which deviation key it reports) belong to the same check; the evidence file's rule field describes the run as executed.", "design_ref": c["design"]},
            "level_note": c["note"],
            "technique": c["technique"],
        })
    m = {
        "version": 1,
        "setup_cmd": "bin/setup",
        "hooks": {
            "guard": "verif",
            "enable": "go build -tags verif (harness module /verif/harness with replace github.com/go-spring/log => /repo)",
            "baseline_off_cmd": "cd /repo && GOFLAGS=-mod=mod GOPROXY=off go test -json -vet=off -count=1 -timeout 25m ./...",
            "source_commits": hooks_commits(),
            "add_only": True,
        },
        "engines": [
            {"name": "tlc", "path": "/verif/spec", "kind_free_text": "TLA+ specifications, exhaustive configs MC_*.cfg, trace specs Trace_*.tla", "serves_properties": sorted(CHECKS)},
            {"name": "vh", "path": "/verif/harness", "kind_free_text": "Go conformance harness: replays TLC-generated behaviours on the real code and records real executions for trace validation", "serves_properties": sorted(CHECKS)},
        ],
        "checks": checks,
        "not_applicable": na,
        "notes": "bin/check <ID> --tier quick|thorough; exit 0 ok, 1 VIOLATION (real code deviated), 2 infrastructure error. KNOWN_FINDINGS.txt lists recorded findings and fixed defects.",
    }
    with open(os.path.join(V, "MANIFEST.json"), "w") as f:
        json.dump(m, f, indent=1)
        f.write("\n")
    print("MANIFEST.json: %d checks, %d not claimed" % (len(checks), len(na)))

main()
