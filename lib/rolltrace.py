"""Convert a TLC counterexample dumped with -dumpTrace json (module Rolling) into the history format
of RollingGen.tla: [{a, w, obs}, ...]."""
import json

ENV = {"Tick": "tick", "DirDown": "down", "DirUp": "up", "Stop": "stop", "Start": "start"}


def obs_of(st):
    handles = st["handles"]
    def name_of(h):
        return -1 if h == 0 else handles[h - 1]["name"]
    d = st["dir"]
    if isinstance(d, list):   # a function with domain 1..n is printed as a sequence
        d = {str(i + 1): v for i, v in enumerate(d)}
    return {
        "dir": {str(k): v for k, v in d.items()},
        "names": sorted(int(k) for k in d),
        "open": [h["name"] if h["open"] else -1 for h in handles],
        "cur": name_of(st["file"]), "old": name_of(st["oldFile"]),
        "marker": st["marker"], "now": st["now"], "up": st["dirUp"], "running": st["running"],
        "pc": st["pc"], "acked": st["acked"], "lost": st["lost"],
    }


def convert(path, tpi, goal=""):
    t = json.load(open(path))
    hist = []
    for pre, act, post in t["counterexample"]["action"]:
        name = act["name"]
        if name in ENV:
            hist.append({"a": ENV[name], "w": 0, "obs": obs_of(post[1])})
        else:
            hist.append({"a": "w", "w": act["context"]["w"], "obs": obs_of(post[1])})
    return {"tpi": tpi, "goal": goal, "hist": hist}
